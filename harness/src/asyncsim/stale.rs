//! C18 / C17 through the async API: STALE HANDLES of rejected 0-RTT streams against the streams that reuse their
//! ids ("the client's early streams report the rejection, and the connection then behaves exactly like a fresh
//! one: stream numbering … restart").
//!
//! A first connection obtains a session ticket; the server's TLS state is replaced; the second connection starts
//! with `Connecting::into_0rtt`, opens early bidirectional / unidirectional streams and writes to them; the
//! server rejects the early data. The client KEEPS every early handle (SendStream, and RecvStream of the
//! bidirectional ones). Then, one early stream after the other, a seeded ORDER of four steps:
//!   N  open the new stream of the same direction (it gets the SAME id) and write a 16-byte header,
//!   P  park one operation on the new stream in a task of its own: `read` (bidirectional), `write_all` beyond the
//!      stream window (1500 / 4096 bytes, the server is not reading yet), or `stopped()`,
//!   S  use the stale early handles (write / stopped / finish / set_priority / reset on the SendStream; read / stop
//!      / received_reset on the RecvStream — seeded) and DROP them,
//!   E  the peer event that completes the parked operation (the server writes its answer and finishes / starts
//!      reading / calls `stop(11)`),
//! with S at every position relative to N < P < E, and also with E before P (the operation then finds its
//! condition true). Oracles: the parked operation completes within `BOUND` of virtual time after the last step
//! (lost wake-up otherwise: the per-id waker tables `blocked_readers` / `blocked_writers` / `stopped` are keyed by
//! stream id, and a stale handle's drop must remove only ITS OWN registration — of which it has none left after
//! the rejection); its result is the one a fresh connection gives (the server's bytes and then the end; the whole
//! write accepted and the server reads exactly what was written to the NEW stream; `Ok(Some(11))`); the stale
//! handles report `ZeroRttRejected` wherever their error type can.
use super::*;
use x4::{within, Sig};

const BOUND: u64 = 2 * SEC;
const SETUP: u64 = 20 * SEC;
const HDR: usize = 16;
const SETTLE: u64 = 30 * MS;

#[derive(Clone, Copy, Debug, PartialEq, Eq)]
pub(super) enum Park {
    Read,
    Write,
    Stopped,
}

#[derive(Clone, Copy, Debug, PartialEq, Eq)]
pub(super) enum RAct {
    Read,
    Stop,
    ReceivedReset,
}

#[derive(Clone, Copy, Debug, PartialEq, Eq)]
pub(super) enum StepK {
    N,
    P,
    S,
    E,
}

#[derive(Clone, Debug)]
pub(super) struct Item {
    pub park: Park,
    pub order: Vec<StepK>,
    pub send_acts: Vec<Act>,
    pub recv_acts: Vec<RAct>,
    /// the stale RecvStream goes first
    pub recv_first: bool,
    pub early_len: usize,
    pub len: usize,
    pub back_len: usize,
}

#[derive(Clone, Debug)]
pub(super) struct StalePlan {
    pub n_bi: usize,
    pub n_uni: usize,
    pub items: Vec<Item>,
    pub sig: Sig,
}

pub(super) fn gen(rng: &mut Rng) -> StalePlan {
    let n_bi = 1 + rng.below(2) as usize;
    let n_uni = rng.below(3) as usize;
    let acts = [Act::Write, Act::Stopped, Act::Finish, Act::SetPriority, Act::Reset];
    let racts = [RAct::Read, RAct::Stop, RAct::ReceivedReset];
    let items = (0..n_bi + n_uni)
        .map(|i| {
            let bi = i < n_bi;
            let park = if bi { *rng.pick(&[Park::Read, Park::Read, Park::Write, Park::Stopped]) } else { *rng.pick(&[Park::Write, Park::Stopped]) };
            let mut order = if rng.chance(1, 4) { vec![StepK::N, StepK::E, StepK::P] } else { vec![StepK::N, StepK::P, StepK::E] };
            // (the position between the parked operation and the peer event is the dangerous one: half of the cases)
            let at = if rng.chance(1, 2) { 2 } else { rng.below(4) as usize };
            order.insert(at, StepK::S);
            Item {
                park,
                order,
                send_acts: (0..rng.below(3)).map(|_| *rng.pick(&acts)).collect(),
                recv_acts: (0..rng.below(3)).map(|_| *rng.pick(&racts)).collect(),
                recv_first: rng.chance(1, 2),
                early_len: 1 + rng.below(900) as usize,
                len: 6000 + rng.below(6000) as usize,
                back_len: 1 + rng.below(3000) as usize,
            }
        })
        .collect();
    StalePlan { n_bi, n_uni, items, sig: Sig::default() }
}

fn plan_of(ctx: &Ctx) -> StalePlan {
    match ctx.plan.x4.as_ref() {
        Some(x4::X4Plan::Stale(p)) => p.clone(),
        _ => unreachable!("stale task without a stale plan"),
    }
}

/// reads `recv` to its end; the content must be `exp[from..]`
async fn read_all(ctx: &Ctx, who: &str, recv: &mut RecvStream, exp: &[u8], from: usize, early: &[u8]) -> bool {
    let mut got = from;
    let mut buf = vec![0u8; 3000];
    loop {
        match recv.read(&mut buf).await {
            Ok(Some(n)) => {
                if got + n > exp.len() || buf[..n] != exp[got..got + n] {
                    if !ctx.closing() {
                        let is_early = n >= 4 && got + n <= early.len() && buf[..n] == early[got..got + n];
                        ctx.fail(if is_early { "c18-0rtt-rejected-data-visible" } else { KEY_0RTT_EFFECT }, format!("{who}: {n} bytes at offset {got} differ from what was written to the stream opened after the rejection"));
                    }
                    return false;
                }
                got += n;
            }
            Ok(None) => break,
            Err(e) => {
                if !ctx.closing() {
                    ctx.fail(KEY_0RTT_EFFECT, format!("{who}: read failed with {e:?} after {got} of {} bytes although nobody reset or stopped the NEW stream", exp.len()));
                } else {
                    ctx.count("result:error-after-close");
                }
                return false;
            }
        }
    }
    if got != exp.len() && !ctx.closing() {
        ctx.fail(KEY_0RTT_EFFECT, format!("{who}: the stream ended after {got} of the {} bytes written to the NEW stream before it was finished", exp.len()));
        return false;
    }
    true
}

type Cell = Arc<Mutex<Option<(u64, String)>>>;

pub(super) async fn client_main(mut ctx: Ctx, ep: Endpoint, cfg: ClientConfig, server: SocketAddr, scfg2: quinn::ServerConfig) {
    let z = plan_of(&ctx);
    let n = z.n_bi + z.n_uni;
    // ---- first connection: obtain a session ticket
    ctx.set_op("connect (first connection)");
    let c1 = match ep.connect_with(cfg.clone(), server, "localhost") {
        Ok(c) => c.await,
        Err(e) => {
            ctx.fail("c18-unexpected-error", format!("connect_with: {e:?}"));
            return;
        }
    };
    let c1 = match c1 {
        Ok(c) => c,
        Err(e) => {
            ctx.conn_err("connect (first connection)", err_kind(&e));
            return;
        }
    };
    ctx.set_op("handshake_confirmed (first connection)");
    let _ = c1.handshake_confirmed().await;
    ctx.set_op("waiting for the session ticket");
    let d = 30 * MS + ctx.rng.below(100 * MS);
    zsleep(&mut ctx, d).await;
    c1.close(VarInt::from_u32(0), b"");
    ctx.set_op("closed (first connection)");
    let _ = c1.closed().await;
    drop(c1);
    zsleep(&mut ctx, 5 * MS).await;
    // ---- the server loses its TLS state
    let e = ctx.h.lock().unwrap().endpoint[SERVER].clone();
    if let Some(e) = e {
        e.set_server_config(Some(scfg2));
    }
    // ---- second connection
    ctx.set_op("connect (second connection)");
    let connecting = match ep.connect_with(cfg.clone(), server, "localhost") {
        Ok(c) => c,
        Err(e) => {
            if !ctx.closing() {
                ctx.fail("c18-unexpected-error", format!("connect_with: {e:?}"));
            }
            return;
        }
    };
    drop(ep);
    let conn = match connecting.into_0rtt() {
        Ok(c) => c,
        Err(connecting) => {
            ctx.count("stale:no-early-keys");
            if let Ok(c) = connecting.await {
                register_conn(&mut ctx, CLIENT, &c);
            }
            return;
        }
    };
    register_conn(&mut ctx, CLIENT, &conn);
    // ---- early streams, written before the handshake completes; every handle is kept
    let mut sends: Vec<Option<SendStream>> = Vec::new();
    let mut recvs: Vec<Option<RecvStream>> = Vec::new();
    for i in 0..n {
        ctx.set_op(&format!("open early stream {i}"));
        let r = if i < z.n_bi { conn.open_bi().await.map(|(s, r)| (s, Some(r))) } else { conn.open_uni().await.map(|s| (s, None)) };
        let (mut s, r) = match r {
            Ok(x) => x,
            Err(e) => {
                ctx.conn_err("open (early)", err_kind(&e));
                return;
            }
        };
        if let Err(e) = s.write_all(&x4::data(Z_EARLY + i as u64, z.items[i].early_len)).await {
            ctx.conn_err("write (early)", format!("{e:?}"));
            return;
        }
        sends.push(Some(s));
        recvs.push(r);
    }
    ctx.set_op("authenticated");
    if let Err(e) = conn.authenticated().await {
        ctx.conn_err("authenticated", err_kind(&e));
        return;
    }
    if sends[0].as_ref().unwrap().priority().is_ok() {
        // (the early data was accepted after all: nothing to examine)
        ctx.count("stale:not-rejected");
        return;
    }
    ctx.count("zrtt:rejected");
    let ids: Vec<quinn::StreamId> = sends.iter().map(|s| s.as_ref().unwrap().id()).collect();

    // ---- one early stream after the other
    for i in 0..n {
        let it = z.items[i].clone();
        let bi = i < z.n_bi;
        let tag = format!("stream {i} ({}, id {}, order {:?}, parked: {:?})", if bi { "bi" } else { "uni" }, ids[i], it.order, it.park);
        let newdata = x4::data(Z_NEW + i as u64, it.len);
        let back = x4::data(Z_BACK + i as u64, it.back_len);
        let mut ns: Option<SendStream> = None;
        let mut nr: Option<RecvStream> = None;
        let cell: Cell = Arc::default();
        let mut parked_before_event = false;
        let mut parked = false;
        for step in it.order.iter() {
            if ctx.closing() {
                return;
            }
            match step {
                StepK::N => {
                    ctx.set_op(&format!("stale {tag}: N open the new stream"));
                    let fut = async {
                        if bi {
                            conn.open_bi().await.map(|(s, r)| (s, Some(r)))
                        } else {
                            conn.open_uni().await.map(|s| (s, None))
                        }
                    };
                    let (mut s, r) = match within(&ctx, SETUP, fut).await {
                        Some(Ok(x)) => x,
                        Some(Err(e)) => {
                            ctx.conn_err("open (after rejection)", err_kind(&e));
                            return;
                        }
                        None => {
                            if !ctx.closing() {
                                ctx.fail("c18-lost-wakeup", format!("stale {tag}: open after the rejection still pending after {} s (limit 100)", SETUP / SEC));
                            }
                            return;
                        }
                    };
                    if s.id() != ids[i] {
                        ctx.fail("c18-0rtt-numbering-not-restarted", format!("stale {tag}: the stream opened after the rejection has id {}", s.id()));
                        return;
                    }
                    match within(&ctx, SETUP, s.write_all(&newdata[..HDR])).await {
                        Some(Ok(())) => {}
                        other => {
                            if !ctx.closing() {
                                ctx.fail(KEY_0RTT_EFFECT, format!("stale {tag}: writing the 16-byte header to the new stream gave {other:?}"));
                            }
                            return;
                        }
                    }
                    ns = Some(s);
                    nr = r;
                    ctx.count("stale:step:N");
                }
                StepK::P => {
                    ctx.set_op(&format!("stale {tag}: P park the operation"));
                    parked_before_event = !z.sig.is(&format!("ev:{i}"));
                    parked = true;
                    let cl = cell.clone();
                    match it.park {
                        Park::Read => {
                            let mut r = nr.take().expect("bidirectional");
                            let (exp, early, tg) = (back.clone(), x4::data(Z_EARLY + i as u64, it.early_len), tag.clone());
                            ctx.spawn(format!("app:client:stale_read{i}"), Class::Job, move |c| async move {
                                c.set_op(&format!("read on the NEW stream (parked) {tg}"));
                                let ok = read_all(&c, &format!("stale {tg}: client reading the server's answer on the NEW stream"), &mut r, &exp, 0, &early).await;
                                *cl.lock().unwrap() = Some((c.w.now(), format!("read to the end: {ok}")));
                            });
                        }
                        Park::Write => {
                            let mut s = ns.take().expect("opened");
                            let (d, tg) = (newdata.clone(), tag.clone());
                            ctx.spawn(format!("app:client:stale_write{i}"), Class::Job, move |c| async move {
                                c.set_op(&format!("write_all on the NEW stream beyond its window (parked) {tg}"));
                                let r = s.write_all(&d[HDR..]).await;
                                *cl.lock().unwrap() = Some((c.w.now(), format!("{r:?}")));
                                if r.is_err() {
                                    if !c.closing() {
                                        c.fail(KEY_0RTT_EFFECT, format!("stale {tg}: write_all on the NEW stream failed with {r:?} although nobody stopped, finished or reset it"));
                                    }
                                    return;
                                }
                                match s.priority() {
                                    Ok(0) => {}
                                    other => {
                                        if !c.closing() {
                                            c.fail(KEY_0RTT_EFFECT, format!("stale {tg}: priority() of the NEW stream = {other:?}, nobody changed it"));
                                        }
                                    }
                                }
                                if let Err(e) = s.finish() {
                                    if !c.closing() {
                                        c.fail(KEY_0RTT_EFFECT, format!("stale {tg}: finish() of the NEW stream failed with {e:?}: somebody else finished or reset it"));
                                    }
                                    return;
                                }
                                c.set_op(&format!("stopped (after finish) on the NEW stream {tg}"));
                                match s.stopped().await {
                                    Ok(None) => c.count("stale:new-stream-written"),
                                    other => {
                                        if !c.closing() {
                                            c.fail(KEY_0RTT_EFFECT, format!("stale {tg}: stopped() after finish of the NEW stream yielded {other:?}"));
                                        }
                                    }
                                }
                            });
                        }
                        Park::Stopped => {
                            let fut = ns.as_ref().expect("opened").stopped();
                            let tg = tag.clone();
                            ctx.spawn(format!("app:client:stale_stopped{i}"), Class::Job, move |c| async move {
                                c.set_op(&format!("stopped() of the NEW stream (parked) {tg}"));
                                let r = fut.await;
                                *cl.lock().unwrap() = Some((c.w.now(), format!("{r:?}")));
                            });
                        }
                    }
                    zsleep(&mut ctx, SETTLE).await;
                    ctx.count("stale:step:P");
                }
                StepK::E => {
                    ctx.set_op(&format!("stale {tag}: E peer event"));
                    z.sig.raise(&ctx, &format!("ev:{i}"));
                    zsleep(&mut ctx, SETTLE).await;
                    ctx.count("stale:step:E");
                }
                StepK::S => {
                    let still_parked = parked && cell.lock().unwrap().is_none();
                    ctx.count(if still_parked { "stale:step:S-while-parked" } else { "stale:step:S" });
                    let mut s = sends[i].take().expect("kept");
                    let mut r = recvs[i].take();
                    for half in if it.recv_first { [1, 0] } else { [0, 1] } {
                        if half == 0 {
                            for a in it.send_acts.iter() {
                                ctx.set_op(&format!("stale {tag}: S early SendStream {a:?}"));
                                ctx.count(&format!("stale:act:send:{a:?}"));
                                match a {
                                    Act::Write => match within(&ctx, BOUND, s.write(&[0xEE; 10])).await {
                                        Some(Err(WriteError::ZeroRttRejected)) => {}
                                        other => {
                                            if !ctx.closing() {
                                                ctx.fail(if matches!(other, Some(Ok(_))) { KEY_0RTT_EFFECT } else { KEY_0RTT_REPORT }, format!("stale {tag}: write() on the early SendStream after the rejection yielded {other:?}"));
                                            }
                                        }
                                    },
                                    Act::Stopped => match within(&ctx, BOUND, s.stopped()).await {
                                        Some(Err(quinn::StoppedError::ZeroRttRejected)) => {}
                                        other => {
                                            if !ctx.closing() {
                                                ctx.fail(KEY_0RTT_REPORT, format!("stale {tag}: stopped() on the early SendStream after the rejection yielded {other:?}"));
                                            }
                                        }
                                    },
                                    // (these cannot report the rejection through their error type: judged by their effect)
                                    Act::Finish => {
                                        let _ = s.finish();
                                    }
                                    Act::SetPriority => {
                                        let _ = s.set_priority(7);
                                    }
                                    Act::Reset => {
                                        let _ = s.reset(VarInt::from_u32(5));
                                    }
                                }
                            }
                        } else if let Some(r) = r.as_mut() {
                            for a in it.recv_acts.iter() {
                                ctx.set_op(&format!("stale {tag}: S early RecvStream {a:?}"));
                                ctx.count(&format!("stale:act:recv:{a:?}"));
                                match a {
                                    RAct::Read => {
                                        let mut b = [0u8; 50];
                                        match within(&ctx, BOUND, r.read(&mut b)).await {
                                            Some(Err(quinn::ReadError::ZeroRttRejected)) => {}
                                            other => {
                                                if !ctx.closing() {
                                                    ctx.fail(if matches!(other, Some(Ok(Some(_)))) { KEY_0RTT_EFFECT } else { KEY_0RTT_REPORT }, format!("stale {tag}: read() on the early RecvStream after the rejection yielded {other:?}"));
                                                }
                                            }
                                        }
                                    }
                                    RAct::Stop => {
                                        let _ = r.stop(VarInt::from_u32(4));
                                    }
                                    RAct::ReceivedReset => match within(&ctx, BOUND, r.received_reset()).await {
                                        Some(Err(quinn::ResetError::ZeroRttRejected)) => {}
                                        other => {
                                            if !ctx.closing() {
                                                ctx.fail(KEY_0RTT_REPORT, format!("stale {tag}: received_reset() on the early RecvStream after the rejection yielded {other:?}"));
                                            }
                                        }
                                    },
                                }
                            }
                        }
                    }
                    // ---- and the drops, in the same order
                    ctx.set_op(&format!("stale {tag}: S dropping the early handles"));
                    if it.recv_first {
                        drop(r);
                        drop(s);
                    } else {
                        drop(s);
                        drop(r);
                    }
                    ctx.count("stale:early-handles-dropped");
                }
            }
        }
        // ---- the parked operation must complete, with the result of a fresh connection
        ctx.set_op(&format!("stale {tag}: waiting for the parked operation"));
        let until = ctx.w.now() + BOUND;
        while cell.lock().unwrap().is_none() && ctx.w.now() < until && !ctx.closing() {
            zsleep(&mut ctx, MS).await;
        }
        let res = cell.lock().unwrap().clone();
        match res {
            None => {
                if !ctx.closing() {
                    ctx.fail(
                        "c18-lost-wakeup",
                        format!(
                            "stale {tag}: the operation parked on the stream opened AFTER the 0-RTT rejection (same id as the rejected early stream) is still pending {} ms after its condition was made true by the peer (loss-free network); the stale early handles were used ({:?} / {:?}) and dropped {}",
                            BOUND / MS,
                            it.send_acts,
                            it.recv_acts,
                            if parked_before_event { "around it" } else { "before it was issued" }
                        ),
                    );
                }
                return;
            }
            Some((_, r)) => {
                let want = match it.park {
                    Park::Read => "read to the end: true",
                    Park::Write => "Ok(())",
                    Park::Stopped => "Ok(Some(11))",
                };
                // (a failed read was reported with its own text already)
                if r != want && it.park != Park::Read && !ctx.closing() {
                    ctx.fail(KEY_0RTT_EFFECT, format!("stale {tag}: the operation on the NEW stream yielded {r}, a fresh connection gives {want}"));
                }
                ctx.count(if parked_before_event { "stale:parked-op-completed" } else { "stale:op-after-event-completed" });
            }
        }
        if let Some(s) = ns.as_ref() {
            match s.priority() {
                Ok(0) => {}
                other => {
                    if !ctx.closing() {
                        ctx.fail(KEY_0RTT_EFFECT, format!("stale {tag}: priority() of the NEW stream = {other:?}, nobody changed it"));
                    }
                }
            }
        }
        drop(ns);
        drop(nr);
    }
    drop(sends);
    drop(recvs);
    drop(conn);
    ctx.count("stale:script-completed");
    ctx.set_op("idle after drop");
    ctx.idle_gap().await;
}

pub(super) async fn server_main(mut ctx: Ctx, ep: Endpoint) {
    let z = plan_of(&ctx);
    let mut nconn = 0usize;
    loop {
        let inc = cancelable!(ctx, "endpoint.accept", None, true, ep.accept());
        let Some(inc) = inc else {
            ctx.count("result:accept-none");
            break;
        };
        nconn += 1;
        match nconn {
            // (not judged: when the client's CONNECTION_CLOSE is lost this connection lives until its idle timeout)
            1 => ctx.spawn("app:server:first_conn".into(), Class::EndpointLevel, move |c| async move {
                c.set_op("first connection: handshake");
                let conn = match inc.accept() {
                    Ok(x) => x.await,
                    Err(e) => Err(e),
                };
                if let Ok(conn) = conn {
                    c.set_op("first connection: closed");
                    let _ = conn.closed().await;
                }
            }),
            2 => {
                let z = z.clone();
                ctx.spawn("app:server:handshake".into(), Class::Job, move |mut c| async move {
                    c.set_op("second connection: handshake");
                    let conn = match inc.accept() {
                        Ok(x) => x.await,
                        Err(e) => Err(e),
                    };
                    let conn = match conn {
                        Ok(c) => c,
                        Err(e) => {
                            c.conn_err("server handshake", err_kind(&e));
                            return;
                        }
                    };
                    register_conn(&mut c, SERVER, &conn);
                    for bi in [true, false] {
                        let conn = conn.clone();
                        let z = z.clone();
                        let count = if bi { z.n_bi } else { z.n_uni };
                        c.spawn(format!("app:server:stale_accept_{}", if bi { "bi" } else { "uni" }), Class::UntilClose, move |mut c| async move {
                            for _ in 0..count {
                                c.set_op(if bi { "accept_bi" } else { "accept_uni" });
                                let (s, r) = if bi {
                                    match conn.accept_bi().await {
                                        Ok((s, r)) => (Some(s), r),
                                        Err(e) => {
                                            c.conn_err("accept_bi", err_kind(&e));
                                            return;
                                        }
                                    }
                                } else {
                                    match conn.accept_uni().await {
                                        Ok(r) => (None, r),
                                        Err(e) => {
                                            c.conn_err("accept_uni", err_kind(&e));
                                            return;
                                        }
                                    }
                                };
                                let idx = r.id().index() as usize;
                                if idx >= count {
                                    c.fail("c18-accept-order", format!("server accepted stream index {idx} ({}), the client uses only {count}", if bi { "bi" } else { "uni" }));
                                    return;
                                }
                                let i = if bi { idx } else { z.n_bi + idx };
                                c.unit(format!("stale-accept:{bi}:{idx}"));
                                let z = z.clone();
                                c.spawn(format!("app:server:stale_stream{i}"), Class::Job, move |c| handler(c, z, i, s, r));
                            }
                        });
                    }
                });
            }
            _ => {
                ctx.count("op:incoming-refuse");
                inc.refuse();
            }
        }
    }
}

/// the server's side of stream `i`: nothing is read or written before the event
async fn handler(mut ctx: Ctx, z: StalePlan, i: usize, send: Option<SendStream>, mut recv: RecvStream) {
    let it = z.items[i].clone();
    ctx.set_op(&format!("stale stream {i}: waiting for the event"));
    if !z.sig.wait(&mut ctx, &format!("ev:{i}"), 120 * SEC).await {
        return;
    }
    let newdata = x4::data(Z_NEW + i as u64, it.len);
    let early = x4::data(Z_EARLY + i as u64, it.early_len);
    match it.park {
        Park::Read => {
            let mut s = send.expect("bidirectional");
            ctx.set_op(&format!("stale stream {i}: event = write the answer and finish"));
            let back = x4::data(Z_BACK + i as u64, it.back_len);
            if let Err(e) = s.write_all(&back).await {
                if !ctx.closing() {
                    ctx.fail(KEY_0RTT_EFFECT, format!("stale stream {i}: the server's write on the NEW stream failed with {e:?} although the client neither stopped nor dropped its receive half"));
                }
                return;
            }
            let _ = s.finish();
            drop(s);
            // the client's half: the header, then the end once the client dropped its SendStream
            ctx.set_op(&format!("stale stream {i}: reading the client's half"));
            read_all(&ctx, &format!("stale stream {i}: server reading the client's half of the NEW stream"), &mut recv, &newdata[..HDR], 0, &early).await;
        }
        Park::Write => {
            drop(send);
            ctx.set_op(&format!("stale stream {i}: event = read everything"));
            if read_all(&ctx, &format!("stale stream {i}: server reading the NEW stream"), &mut recv, &newdata, 0, &early).await {
                ctx.count("stale:new-stream-read");
            }
        }
        Park::Stopped => {
            ctx.set_op(&format!("stale stream {i}: event = stop(11)"));
            let _ = recv.stop(VarInt::from_u32(11));
            drop(send);
        }
    }
    drop(recv);
}
