//! op classes (see opclass.rs) of the group `data`: `sbuf` (SendBuffer), `asm` (Assembler), `dedup`
//! (packet-number window), `ackfreq` (AckFrequencyState), `pathresp` (PathResponses).
//!
//! Every rule names the real call site in quinn-proto/src that justifies it.  Reasoning in long form, the
//! panics found and their verdicts: NOTES of the `panics` delivery (sub/data/NOTES.md).
use crate::opclass::*;

pub fn tracker(comp: &str) -> Option<Box<dyn Tracker>> {
    let t: Box<dyn Tracker> = match comp {
        "sbuf" => Box::<Sbuf>::default(),
        "asm" => Box::<Asm>::default(),
        "dedup" => Box::new(Dedup),
        "ackfreq" => Box::<AckFreq>::default(),
        "pathresp" => Box::new(PathResp),
        _ => return None,
    };
    Some(trace(t))
}

/// the op kind (`""` for a line that has none: Contract everywhere)
fn kind<'a>(w: &[&'a str]) -> &'a str {
    w.get(1).copied().unwrap_or("")
}

// ------------------------------------------------------------------------------------------------
// sbuf: connection/send_buffer.rs, owned by streams/send.rs::Send (`pending`)
// ------------------------------------------------------------------------------------------------

/// Ghost state: the STREAM frames in flight (multiset of the ranges `poll` answered and that were neither
/// acknowledged nor declared lost yet) and the buffered window `[offset - unacked_len, offset)` as last
/// reported by the executor (`o=` / `ul=`).
///
/// Why "exactly a frame in flight, once": `StreamsState::write_stream_frames` stores the `StreamMeta` of
/// every `poll_transmit` answer in `SentPacket::stream_frames`; `Connection::on_packet_acked` hands each of
/// them to `received_ack_of -> Send::ack -> SendBuffer::ack`, loss detection (`detect_lost_packets`) to
/// `StreamsState::retransmit -> SendBuffer::retransmit`, in both cases after `PacketSpace::take(pn)` REMOVED
/// the packet, so every frame instance is acknowledged or lost at most once, with exactly its own range
/// (PTO probes re-queue only `retransmits`, never `stream_frames`).  A peer's ACK frame can name packet
/// numbers that were never sent, but those are not found in `sent_packets` and reach nothing.
#[derive(Default)]
struct Sbuf {
    inflight: Vec<(u64, u64)>,
    offset: u64,
    unacked_len: u64,
    /// an ack / retransmit / zrtt happened: `retransmit_all_for_0rtt` is no longer reachable
    past_0rtt: bool,
}

impl Sbuf {
    fn take_frame(&mut self, w: &[&str]) -> bool {
        let (Some(a), Some(b)) = (n(w, 2), n(w, 3)) else { return false };
        match self.inflight.iter().position(|&f| f == (a, b)) {
            Some(i) => {
                self.inflight.swap_remove(i);
                true
            }
            None => false,
        }
    }
}

impl Tracker for Sbuf {
    fn classify(&mut self, w: &[&str]) -> Class {
        match (kind(w), w.len()) {
            // Local: `SendStream::write*` -> `Send::write` -> `SendBuffer::write(chunk)`; the executor caps a
            // chunk at 65536 bytes (else bad-op).  `write 0`: `Send::write` never passes an empty chunk
            // (`if chunk.is_empty() { break }`), but an empty segment is inert in every SendBuffer method
            // (ack: popped or left with to_advance == 0; get: never matches; poll: does not look at
            // segments), so it cannot cause a false alarm and is kept Local instead of tainting most cases.
            ("write", 3) => when(matches!(n(w, 2), Some(x) if x <= 65536), Class::Local),
            // Local (the connection sending the application's data): `write_stream_frames` loops `while
            // buf.len() + Stream::SIZE_BOUND(25) < max_buf_size` and passes `max_buf_size - buf.len() - 1 -
            // size(id)` >= 26 - 1 - 8 = 17; documented contract (debug_assert) `max_len >= 16`; never more
            // than one datagram.  max_len < 16 underflows `max_len -= 8`: Contract.
            ("poll", 3) => when(matches!(n(w, 2), Some(m) if (16..=MAX_UDP).contains(&m)), Class::Local),
            // `get` is `&self`: Local inside the buffered window (the copy loop of `write_stream_frames`
            // only asks for sub-ranges of the frame `poll_transmit` just returned, which lie inside it),
            // Probe (pure, not judged) for anything else (a > b slices backwards, b < segment start
            // underflows: both impossible for the real caller).
            ("get", 4) => match (n(w, 2), n(w, 3)) {
                (Some(a), Some(b)) if a <= b && a >= self.offset - self.unacked_len && b <= self.offset => Class::Local,
                (Some(_), Some(_)) => Class::Probe,
                _ => Class::Contract,
            },
            // Peer: ACK frame -> on_ack_received -> on_packet_acked -> received_ack_of, for a frame in flight
            ("ack", 4) => {
                self.past_0rtt = true;
                when(self.take_frame(w), Class::Peer)
            }
            // Peer (missing ACKs / time): detect_lost_packets -> StreamsState::retransmit, for a frame in flight
            ("retransmit", 4) => {
                self.past_0rtt = true;
                when(self.take_frame(w), Class::Peer)
            }
            // Peer: only caller `Connection::handle_packet` for a Retry packet, accepted once and only as the
            // very first authenticated packet (`total_authed_packets > 0` -> discarded): nothing can have been
            // acknowledged or declared lost before (no ACK for 0-RTT data without 1-RTT keys).  The packets in
            // flight are dropped (`mem::take(sent_packets)`) without ack/retransmit calls.
            ("zrtt", 2) => {
                let ok = !self.past_0rtt;
                self.past_0rtt = true;
                self.inflight.clear();
                when(ok, Class::Peer)
            }
            // Local observers: `Send::is_pending`, `Send::offset`, `SendStream::reset` (unacked)
            ("q", 2) | ("unacked", 2) => Class::Local,
            _ => Class::Contract,
        }
    }

    fn observe(&mut self, w: &[&str], resp: &str) {
        let r: Vec<&str> = resp.split_ascii_whitespace().collect();
        if kind(w) == "poll" && r.first() == Some(&"ok") {
            if let (Some(a), Some(b)) = (n(&r, 1), n(&r, 2)) {
                self.inflight.push((a, b));
            }
        }
        for kv in &r {
            if let Some(v) = kv.strip_prefix("o=") {
                self.offset = v.parse().unwrap_or(self.offset);
            } else if let Some(v) = kv.strip_prefix("ul=") {
                self.unacked_len = v.parse().unwrap_or(self.unacked_len);
            }
        }
        self.unacked_len = self.unacked_len.min(self.offset);
    }
}

// ------------------------------------------------------------------------------------------------
// asm: connection/assembler.rs, owned by streams/recv.rs::Recv and PacketSpace::crypto_stream
// ------------------------------------------------------------------------------------------------

/// Two real owners with different guards in front of `insert`:
///  * STREAM: `StreamsState::received -> Recv::ingest`: `offset + len < 2^62` (else FLOW_CONTROL_ERROR), flow
///    control (window up to VarInt::MAX with `receive_window(VarInt::MAX)`), then `insert(offset, data,
///    payload_len)` where `payload_len` is the length of the decrypted packet payload the frame was cut out
///    of, hence `len <= alloc <= one datagram`.  `clear` comes from `Recv::stop` (application) or
///    `Recv::reset` (RESET_STREAM); afterwards `ingest` no longer reaches `insert` (`stopped`, resp.
///    `is_receiving()` in `received`).  Reads: `Chunks::new` (ensure_ordering) / `Chunks::next(max_length)`.
///  * CRYPTO: `Connection::read_crypto`: offset is a varint, `offset + len - bytes_read <=
///    crypto_buffer_size` (a `usize` setter without bound), so `offset + len` may exceed 2^62 - 1 by at
///    most a datagram; only ordered reads, never `clear`.
#[derive(Default)]
struct Asm {
    cleared: bool,
    /// saw what only a stream does (clear, unordered mode)
    stream_only: bool,
    /// saw what only the crypto stream allows (offset + len >= 2^62)
    crypto_only: bool,
}

impl Tracker for Asm {
    fn classify(&mut self, w: &[&str]) -> Class {
        let mode = |i: usize| w.get(i).copied();
        match kind(w) {
            // Peer: STREAM / CRYPTO frame (see above).  Contract: offset not a varint, length / allocation
            // above a datagram, alloc < len (debug_assert in insert; impossible: the frame is a slice of the
            // payload), insert after clear, end >= 2^62 on something that is known to be a stream.
            "insert" if w.len() >= 5 => {
                let (Some(off), Some(len), Some(alloc)) = (n(w, 2), n(w, 3), n(w, 4)) else { return Class::Contract };
                let mut ok = off <= VARINT_MAX && len <= alloc && alloc <= MAX_UDP && !self.cleared;
                if ok && off + len > VARINT_MAX {
                    ok = !self.stream_only;
                    self.crypto_only = true;
                }
                when(ok, Class::Peer)
            }
            // Local: RecvStream::read(ordered) -> Chunks::new + Chunks::next(max_length: usize, any value);
            // read_crypto uses (usize::MAX, ordered).  Unordered mode does not exist on the crypto stream.
            "read" | "ensure" => {
                let m = if kind(w) == "read" { mode(3) } else { mode(2) };
                let args_ok = if kind(w) == "read" { w.len() >= 4 && n(w, 2).is_some() } else { w.len() == 3 };
                match m {
                    Some("ord") => when(args_ok, Class::Local),
                    Some("unord") => {
                        self.stream_only = true;
                        when(args_ok && !self.crypto_only, Class::Local)
                    }
                    _ => Class::Contract,
                }
            }
            // Peer: RESET_STREAM -> Recv::reset (also Local: RecvStream::stop); any time, repeatable
            // (stop after reset and reset after stop both clear again)
            "clear" if w.len() == 2 => {
                self.cleared = true;
                self.stream_only = true;
                when(!self.crypto_only, Class::Peer)
            }
            // Local observer (bytes_read)
            "q" if w.len() == 2 => Class::Local,
            _ => Class::Contract,
        }
    }

    /// `TooManyChunks` becomes `TransportError::INTERNAL_ERROR` in both callers: the connection closes.
    fn closes(&self, w: &[&str], resp: &str) -> bool {
        kind(w) == "insert" && resp.starts_with("err TooManyChunks")
    }
}

// ------------------------------------------------------------------------------------------------
// dedup: connection/spaces.rs::Dedup
// ------------------------------------------------------------------------------------------------

/// `insert <pn>`: Peer for every value the executor accepts (< u64::MAX).  Call sites: `Connection::
/// handle_decode` / `handle_first_packet`, with `pn = PacketNumber::expand(rx_packet + 1)` of a packet whose
/// AEAD tag verified.  `expand` yields any value in `(expected - 2^31, expected + 2^31]`; nothing bounds
/// received packet numbers by 2^62 - 1 (audit SD-10), so a peer that spends k authenticated packets reaches
/// k * 2^31.  A jump larger than 2^31 in one op is not literally reachable, but leaves the same Dedup state
/// as the chain of <= 2^31 jumps (any shift >= 128 empties the window), and a value far left of the window
/// takes the same branch as one just left of it: judging them cannot produce a false alarm.
/// u64::MAX (`packet + 1` overflows) is refused by the executor (bad-op -> Contract); see NOTES.
/// `new`: Local (a fresh PacketSpace, e.g. after Retry).
struct Dedup;

impl Tracker for Dedup {
    fn classify(&mut self, w: &[&str]) -> Class {
        match (kind(w), w.len()) {
            ("new", 2) => Class::Local,
            ("insert", 3) => when(matches!(n(w, 2), Some(p) if p < u64::MAX), Class::Peer),
            _ => Class::Contract,
        }
    }
}

// ------------------------------------------------------------------------------------------------
// ackfreq: connection/ack_frequency.rs::AckFrequencyState
// ------------------------------------------------------------------------------------------------

const NS_25MS: u64 = 25_000_000;
/// the executor refuses durations of 2^62 ns and more (bad-op)
const DUR_MAX: u64 = 1 << 62;

#[derive(Default)]
struct AckFreq {
    /// the connection is past its set-up: config and transport parameters no longer change
    running: bool,
    /// peer's min_ack_delay (ns) from the last accepted `peer`
    min_ns: u64,
    last_sent_pn: Option<u64>,
}

impl Tracker for AckFreq {
    fn classify(&mut self, w: &[&str]) -> Class {
        let dur = |i: usize| n(w, i).filter(|&d| d < DUR_MAX);
        let class = match (kind(w), w.len()) {
            // Local only with the one value `Connection::new` passes: get_max_ack_delay(default params) = 25 ms
            ("new", 3) => {
                *self = Self::default();
                return when(n(w, 2) == Some(NS_25MS), Class::Local);
            }
            // Peer: transport parameters (two varints or absent), run through the real
            // `TransportParameters::read` by the executor; `set_peer_params` runs before any 1-RTT traffic
            ("peer", 4) => return when(!self.running && varints(w, &[2]) && (w[3] == "none" || varints(w, &[3])), Class::Peer),
            // Local: `AckFrequencyConfig::max_ack_delay(Option<Duration>)` accepts every Duration; the
            // TransportConfig is frozen once the connection exists
            ("cfg", 3) => return when(!self.running && (w[2] == "none" || dur(2).is_some()), Class::Local),
            // Local, pure: rtt = `self.path.rtt.get()` = `initial_rtt` config (any Duration) or a measurement
            ("cand", 3) | ("should", 3) => when(dur(2).is_some(), Class::Local),
            // Local: `populate_packet` when `pending.ack_frequency`
            ("nextseq", 2) => Class::Local,
            // Local: `ack_frequency_sent(pn, candidate_max_ack_delay(..))` right after the frame was written:
            // pn from `get_tx_number` (< 2^62, strictly increasing), the delay a `clamp(min_ack_delay, ..)`
            // result, hence >= the peer's min_ack_delay
            ("sent", 4) => {
                let ok = matches!((n(w, 2), dur(3)), (Some(pn), Some(d))
                    if pn <= VARINT_MAX && self.last_sent_pn.map_or(true, |l| pn > l) && d >= self.min_ns);
                if ok {
                    self.last_sent_pn = n(w, 2);
                }
                when(ok, Class::Local)
            }
            // Peer: `on_ack_received` calls `on_acked(pn)` for every newly acknowledged sent packet (any space)
            ("acked", 3) => when(varints(w, &[2]), Class::Peer),
            // Local observer (`pto_time_and_space`)
            ("pto", 2) => Class::Local,
            // Peer: ACK_FREQUENCY frame, four varints (`frame.rs` Iter: `self.bytes.get()?` x4), no other guard
            ("recv", 6) => when(varints(w, &[2, 3, 4, 5]), Class::Peer),
            _ => Class::Contract,
        };
        self.running = true;
        class
    }

    fn observe(&mut self, w: &[&str], resp: &str) {
        if kind(w) == "peer" && resp.starts_with("ok") {
            self.min_ns = n(w, 3).unwrap_or(0).saturating_mul(1000);
        }
    }

    /// TRANSPORT_PARAMETER_ERROR / PROTOCOL_VIOLATION close the connection
    fn closes(&self, w: &[&str], resp: &str) -> bool {
        matches!(kind(w), "peer" | "recv") && resp.starts_with("err")
    }
}

// ------------------------------------------------------------------------------------------------
// pathresp: connection/paths.rs::PathResponses
// ------------------------------------------------------------------------------------------------

/// `push <packet> <token> <remote>`: Peer - `Frame::PathChallenge(token)` in `process_payload`: packet = the
/// authenticated packet number (any u64, see `dedup`), token = 8 arbitrary bytes, remote = source address of
/// the datagram (anything, also spoofed).  `pop_on` / `pop_off <remote>`: Local - `poll_transmit` with
/// `self.path.remote`.  `new`, `empty`: Local (constructor / observer).  Remotes >= 65536 are bad-op.
struct PathResp;

impl Tracker for PathResp {
    fn classify(&mut self, w: &[&str]) -> Class {
        let remote = |i: usize| matches!(n(w, i), Some(r) if r < 65536);
        match (kind(w), w.len()) {
            ("new", 2) | ("empty", 2) => Class::Local,
            ("push", 5) => when(n(w, 2).is_some() && n(w, 3).is_some() && remote(4), Class::Peer),
            ("pop_on", 3) | ("pop_off", 3) => when(remote(2), Class::Local),
            _ => Class::Contract,
        }
    }
}

// ------------------------------------------------------------------------------------------------
// diagnostics: with OPCLASS_TRACE=1 every `panic` response is reported on stderr together with its class and
// whether it was judged (used for the panic-by-class counts of the NOTES); no effect otherwise.
// ------------------------------------------------------------------------------------------------

struct Trace {
    inner: Box<dyn Tracker>,
    last: Class,
    unjudged: bool,
}

fn trace(inner: Box<dyn Tracker>) -> Box<dyn Tracker> {
    if std::env::var_os("OPCLASS_TRACE").is_none() {
        return inner;
    }
    Box::new(Trace { inner, last: Class::Contract, unjudged: false })
}

impl Tracker for Trace {
    fn classify(&mut self, w: &[&str]) -> Class {
        self.last = self.inner.classify(w);
        if kind(w) == "new" && matches!(self.last, Class::Local | Class::Peer) {
            self.unjudged = false;
        }
        self.last
    }
    fn observe(&mut self, w: &[&str], resp: &str) {
        if resp == "panic" {
            let how = if self.unjudged { "after-taint".to_string() } else { format!("{:?}", self.last) };
            eprintln!("OPCLASS-PANIC {} {} {how} [{}]", w[0], kind(w), w.join(" "));
        }
        self.unjudged |= resp == "panic" || self.last == Class::Contract || self.inner.closes(w, resp);
        self.inner.observe(w, resp);
    }
    fn closes(&self, w: &[&str], resp: &str) -> bool {
        self.inner.closes(w, resp)
    }
}
