//! C08 oracle keys for `ConnectionLost` reports that involve `Reset` (builder `findaudit`).
//!
//! Three findings are recorded (known_findings.txt): `lost-after-local-close:reset`,
//! `lost-reported-twice:ApplicationClosed+Reset`, `lost-reported-twice:ConnectionClosed+Reset`.  All three are the
//! HISTORY "a stateless reset of the peer's endpoint was handed to a connection that had already left the open
//! states (by its own close(), or by the peer's close), and it reported ConnectionLost(Reset) on top".  The keys used
//! to be built from the SYMPTOM alone (the kinds of the reports), so a `Reset` report with no stateless reset behind it
//! - a forged datagram taken for a reset, a close() that reports Reset by itself - was printed as the known finding.
//! The discriminating fact is supplied by the simulator's ledger (`DestLedger::stateless_resets_handled`: datagrams,
//! byte for byte, that an ENDPOINT of the simulation built in short-header form and that this connection handled).

/// `ConnectionLost(Reset)` -> `Reset`, `ConnectionLost(ApplicationClosed(..))` -> `ApplicationClosed`
pub fn kind_of(l: &str) -> String {
    l.trim_start_matches("ConnectionLost(").split(|c| c == '(' || c == ')' || c == ' ').next().unwrap_or("").to_string()
}

/// key of "reported more than once" for the reports `lost` of one connection that handled `resets` stateless resets
pub fn twice_key(lost: &[String], resets: u32) -> String {
    let kinds: Vec<String> = lost.iter().map(|x| kind_of(x)).collect();
    let n_reset = kinds.iter().filter(|k| *k == "Reset").count() as u32;
    let base = format!("lost-reported-twice:{}", kinds.join("+"));
    if n_reset > resets {
        // more Reset reports than stateless resets handled: something else produced (one of) them
        format!("{base}-without-stateless-reset")
    } else {
        base
    }
}

/// key of "ConnectionLost after the connection's own close()" when the first report is `first`
pub fn after_local_close_key(first: &str, resets: u32, otherwise: &'static str) -> &'static str {
    if kind_of(first) == "Reset" {
        if resets > 0 {
            "lost-after-local-close:reset"
        } else {
            "lost-after-local-close:reset-without-stateless-reset"
        }
    } else {
        otherwise
    }
}
