//! Scenario `tokflow` (C14): address-validation tokens flowing through REAL endpoints over several connection attempts.
//!
//! One server endpoint under test (sometimes a second server with another token key behind the same names), one or
//! two client endpoints behind a NAT the harness controls (the address the servers see), a RECORDING `TokenStore`
//! around the real `TokenMemoryCache`, 3..10 connection attempts over virtual time, many of which fail.
//!
//! Everything the oracles need is taken from places the code under test does not control:
//!  * issue ledger: the bytes of every NEW_TOKEN frame a server connection writes (hook `verif_take_new_tokens`), with
//!    the virtual time and the destination address of the datagram that carries it; the bytes of every Retry packet the
//!    harness makes the server send (`Endpoint::retry`), with time and destination;
//!  * presentation ledger, client side: the token field of every Initial packet a client connection transmits (long
//!    header, unprotected), per attempt;
//!  * presentation ledger, server side: the token field of every datagram handed to `Endpoint::handle`, its source
//!    address, the time, and what the endpoint did with it (`Incoming::remote_address_validated()` / `may_retry()`, or a
//!    stateless response);
//!  * store ledger: every `insert` / `take` of the client's token store, with the call it happened in.
//!
//! Oracles (RFC 9000 8.1 and the text of C14):
//!  * `token-presented-twice`: the same token bytes in the Initials of two different attempts;
//!  * `token-presented-from-nowhere`: an Initial carries bytes that are neither what the store handed to this attempt
//!    nor a Retry token sent to it;
//!  * `token-store-insert-without-new-token` / `-insert-unissued` / `-reinserted` / `-wrong-server-name`: the store may
//!    be written only while a packet is handled, with bytes a server issued in a NEW_TOKEN frame, once;
//!  * `token-store-handed-out-twice` / `-take-unknown` / `-take-outside-connect`;
//!  * `token-validated-without-token` / `-wrong-address` / `-expired` / `-replayed` / `-foreign-key` / `-altered`;
//!  * `token-altered-not-absent`: an altered / foreign token made the endpoint answer instead of creating an attempt;
//!  * `token-invalid-retry-not-rejected` / `-wrong-code`: a stale or misplaced Retry token must end the attempt with
//!    INVALID_TOKEN;
//!  * `token-genuine-not-honoured`: a fresh, unused, unexpired token from the right address is not honoured although
//!    the log is exact (large budget: the filter stays a hash set, no false positives) and no younger token was
//!    presented before it (`TokenLog` may refuse; a period log necessarily forgets the past).
use std::cell::RefCell;
use std::collections::{BTreeMap, HashMap, HashSet, VecDeque};
use std::net::{IpAddr, Ipv4Addr, Ipv6Addr, SocketAddr};
use std::rc::Rc;
use std::sync::{Arc, Mutex};
use std::time::Duration;

use bytes::Bytes;
use quinn_proto::{
    BloomTokenLog, ClientConfig, ConnectionError, ConnectionId, Endpoint, Event, IdleTimeout, Incoming, NoneTokenLog, ServerConfig,
    TokenMemoryCache, TokenStore, TransportConfig, TransportErrorCode, ValidationTokenConfig, VarInt,
};

use crate::scenarios::Outcome;
use crate::sim::*;
use crate::Rng;

pub const TOKFLOW_RULE: &str = "one execution = one server endpoint under test (validation_token.sent 0..4, lifetime 3 s / 20 s / 2 weeks, log BloomTokenLog default budget / BloomTokenLog 32-byte budget / NoneTokenLog, retry_token_lifetime 2 s / 15 s), in 1 of 3 runs a second server with another token key reachable under the same names, 1 or 2 client endpoints sharing one recording TokenStore around TokenMemoryCache (server names 0/1/2/256, tokens per name 0/1/2/8; names localhost, alpha.test, beta.test), each client behind a NAT of the harness (public address = what servers see: 5 IPs incl. IPv4, IPv6 and the IPv4-mapped form, fresh port per rebinding), 3..10 attempts with virtual-time gaps 0 .. 45 s (rarely 15 days); attempt kinds: ok (accept at once / Retry first / Retry although validated), server unreachable (client->server lost), return path lost, refused, ignored, version negotiation, Retry then silence, local close before / after the first flight, Retry answered from a rebound address, Retry delivered after retry_token_lifetime; harness-made tokens put into the store before attempts (exact replays of used tokens and Retry tokens, bit flips, truncations, extensions, splices, random bytes); successful attempts are closed by client / server or left open. Oracles: see harness/src/scen_token.rs header (token-*). non-trivial = a NEW_TOKEN token was honoured by the server, >= 1 attempt failed with a token on the wire and another attempt followed";

// ---------------------------------------------------------------------------------------------------------------------
// recording token store

#[derive(Clone, Debug)]
enum SEv {
    Insert { name: String, tok: Vec<u8> },
    Take { name: String, tok: Option<Vec<u8>> },
}

/// The real `TokenMemoryCache`, with every call recorded
pub struct RecStore {
    inner: TokenMemoryCache,
    log: Mutex<Vec<SEv>>,
}

impl TokenStore for RecStore {
    fn insert(&self, server_name: &str, token: Bytes) {
        self.log.lock().unwrap().push(SEv::Insert { name: server_name.to_string(), tok: token.to_vec() });
        self.inner.insert(server_name, token)
    }
    fn take(&self, server_name: &str) -> Option<Bytes> {
        let t = self.inner.take(server_name);
        self.log.lock().unwrap().push(SEv::Take { name: server_name.to_string(), tok: t.as_ref().map(|b| b.to_vec()) });
        t
    }
}

impl RecStore {
    fn drain(&self) -> Vec<SEv> {
        std::mem::take(&mut *self.log.lock().unwrap())
    }
    /// the harness (a misbehaving application) puts bytes of its own making into the cache
    fn inject(&self, name: &str, tok: &[u8]) {
        self.inner.insert(name, Bytes::copy_from_slice(tok));
    }
}

// ---------------------------------------------------------------------------------------------------------------------
// long-header parsing (RFC 8999 / RFC 9000 17.2): version independent up to the CIDs, version 1 layout after

fn varint(b: &[u8], p: &mut usize) -> Option<u64> {
    let f = *b.get(*p)?;
    let n = 1usize << (f >> 6);
    if b.len() < *p + n {
        return None;
    }
    let mut v = (f & 0x3f) as u64;
    for i in 1..n {
        v = (v << 8) | b[*p + i] as u64;
    }
    *p += n;
    Some(v)
}

#[derive(Debug, Clone)]
struct LongPkt {
    /// 0 Initial, 1 0-RTT, 2 Handshake, 3 Retry; 255 Version Negotiation
    ty: u8,
    version: u32,
    dcid: Vec<u8>,
    scid: Vec<u8>,
    token: Vec<u8>,
    /// bytes this packet occupies in the datagram
    total: usize,
}

fn parse_long(b: &[u8]) -> Option<LongPkt> {
    let b0 = *b.first()?;
    if b0 & 0x80 == 0 || b.len() < 7 {
        return None;
    }
    let version = u32::from_be_bytes([b[1], b[2], b[3], b[4]]);
    let mut p = 5;
    let dl = *b.get(p)? as usize;
    p += 1;
    let dcid = b.get(p..p + dl)?.to_vec();
    p += dl;
    let sl = *b.get(p)? as usize;
    p += 1;
    let scid = b.get(p..p + sl)?.to_vec();
    p += sl;
    if version == 0 {
        return Some(LongPkt { ty: 255, version, dcid, scid, token: Vec::new(), total: b.len() });
    }
    let ty = (b0 >> 4) & 3;
    match ty {
        0 => {
            let tl = varint(b, &mut p)? as usize;
            let token = b.get(p..p + tl)?.to_vec();
            p += tl;
            let len = varint(b, &mut p)? as usize;
            Some(LongPkt { ty, version, dcid, scid, token, total: (p + len).min(b.len()) })
        }
        1 | 2 => {
            let len = varint(b, &mut p)? as usize;
            Some(LongPkt { ty, version, dcid, scid, token: Vec::new(), total: (p + len).min(b.len()) })
        }
        _ => {
            // Retry: token, then the 16-byte integrity tag
            let rest = b.get(p..)?;
            if rest.len() < 16 {
                return None;
            }
            Some(LongPkt { ty, version, dcid, scid, token: rest[..rest.len() - 16].to_vec(), total: b.len() })
        }
    }
}

/// every long-header packet coalesced in one datagram
fn long_packets(d: &[u8]) -> Vec<LongPkt> {
    let mut out = Vec::new();
    let mut off = 0;
    while off < d.len() {
        let Some(p) = parse_long(&d[off..]) else { break };
        let step = p.total.max(1);
        out.push(p);
        off += step;
    }
    out
}

fn hx(b: &[u8]) -> String {
    if b.is_empty() {
        return "-".into();
    }
    let h = |x: &[u8]| -> String { x.iter().map(|x| format!("{x:02x}")).collect() };
    if b.len() > 14 {
        // head, tail (the nonce end) and a checksum of the whole: altered copies of one token stay distinguishable
        let sum = b.iter().fold(0u32, |a, x| a.wrapping_mul(131).wrapping_add(*x as u32)) & 0xffff;
        format!("{}..{}({}B#{sum:04x})", h(&b[..8]), h(&b[b.len() - 4..]), b.len())
    } else {
        h(b)
    }
}

/// IPv4-mapped IPv6 addresses and IPv4 addresses name the same host
fn canon(ip: IpAddr) -> IpAddr {
    match ip {
        IpAddr::V6(v) => v.to_ipv4_mapped().map_or(IpAddr::V6(v), IpAddr::V4),
        x => x,
    }
}

// ---------------------------------------------------------------------------------------------------------------------
// ledgers

#[derive(Clone, Debug)]
struct Issue {
    server: usize,
    t: u64,
    dest: SocketAddr,
}

#[derive(Clone, Debug)]
struct RetryIssue {
    server: usize,
    t: u64,
    dest: SocketAddr,
    /// the source CID of the Retry packet = destination CID of the Initials that echo the token
    scid: Vec<u8>,
}

#[derive(Clone, Debug, PartialEq, Eq)]
enum Made {
    /// exact copy of a genuine token that was already on the wire
    Replay,
    /// flipped / truncated / extended / spliced / random
    Altered(&'static str),
}

/// state the simulator taps write (`wire_filter`, `tx_tap`, `rx_tap` are owned by the `Sim`)
#[derive(Default)]
struct Shared {
    /// public address of every client node (what the servers see), and the real one
    nat: HashMap<usize, SocketAddr>,
    real: HashMap<usize, SocketAddr>,
    /// client nodes whose outgoing / incoming datagrams are lost
    drop_out: HashSet<usize>,
    drop_in: HashSet<usize>,
    servers: Vec<usize>,
    issued: HashMap<Vec<u8>, Issue>,
    issue_order: Vec<Vec<u8>>,
    /// (node, handle) -> attempt
    handle_attempt: HashMap<(usize, usize), usize>,
    /// client transmit tap: (attempt, token bytes, time) for every Initial packet built
    initials: Vec<(usize, Vec<u8>, u64)>,
    /// store events: (inside the packet-handling window of (node, handle)?, event)
    store_evs: Vec<(Option<(usize, usize)>, SEv)>,
    window: Option<(usize, usize)>,
    new_token_frames: u64,
}

#[derive(Clone, Copy, Debug, PartialEq, Eq)]
enum Kind {
    Ok,
    UnreachOut,
    UnreachIn,
    Refuse,
    Ignore,
    VersionNeg,
    RetrySilence,
    LocalCloseEarly,
    LocalCloseAfterFlight,
    RetryMoved,
    RetryStale,
}

#[derive(Clone, Copy, Debug, PartialEq, Eq)]
enum LogKind {
    BloomBig,
    BloomSmall,
    NoneLog,
}

struct Srv {
    node: usize,
    lifetime: u64,
    retry_lifetime: u64,
    log: LogKind,
    sent: u32,
    /// NEW_TOKEN tokens this server treated as validating, ever
    accepted: HashSet<Vec<u8>>,
    /// NEW_TOKEN tokens of this server's making that reached it, whatever it decided
    seen: HashSet<Vec<u8>>,
    /// youngest issue second among them
    max_issue_sec: u64,
}

struct Attempt {
    id: usize,
    node: usize,
    ch: usize,
    server: usize,
    name: String,
    kind: Kind,
    retry_first: bool,
    retry_anyway: bool,
    taken: Option<Vec<u8>>,
    retry_tokens: Vec<Vec<u8>>,
    presented: Vec<Vec<u8>>,
    started: u64,
    connected_at: Option<u64>,
    ended: bool,
    outcome: String,
    /// a stale / misplaced Retry token of this attempt reached the server, which answered statelessly
    expect_invalid: bool,
    retried: u32,
    linger: u64,
    after: u8,
    closed_locally: bool,
    sconns: Vec<usize>,
    flight_seen: bool,
}

struct St {
    rng: Rng,
    seed: u64,
    sh: Rc<RefCell<Shared>>,
    store: Arc<RecStore>,
    srvs: Vec<Srv>,
    clients: Vec<usize>,
    ccfg: HashMap<usize, ClientConfig>,
    attempts: Vec<Attempt>,
    planned: usize,
    dcid_attempt: HashMap<Vec<u8>, usize>,
    retry_issued: HashMap<Vec<u8>, RetryIssue>,
    made: HashMap<Vec<u8>, Made>,
    /// legitimate stores per token bytes (NEW_TOKEN inserts + harness injections) and takes
    inserts: HashMap<Vec<u8>, u32>,
    takes: HashMap<Vec<u8>, u32>,
    /// first attempt that had the bytes in an Initial
    first_presenter: HashMap<Vec<u8>, usize>,
    initials_seen: usize,
    route_seen: usize,
    nat_epoch: u32,
    ips: Vec<IpAddr>,
    names: Vec<&'static str>,
    /// delayed deliveries of the harness: (at, datagram)
    // statistics
    evals: u64,
    honoured: u64,
    honoured_retry: u64,
    failed_with_token: u64,
    followed_after_failure: bool,
    hist: BTreeMap<String, u64>,
    trace: Vec<String>,
    verbose: bool,
}

const SEC: u64 = 1_000_000_000;
const MS: u64 = 1_000_000;

fn tokflow_cert() -> (rustls::pki_types::CertificateDer<'static>, rustls::pki_types::PrivateKeyDer<'static>) {
    let cert: &'static [u8] = include_bytes!("../certs/cert3.der");
    let key: &'static [u8] = include_bytes!("../certs/key3.der");
    (rustls::pki_types::CertificateDer::from(cert), rustls::pki_types::PrivateKeyDer::Pkcs8(rustls::pki_types::PrivatePkcs8KeyDer::from(key)))
}

fn tok_server_config(seed: u64, transport: TransportConfig, clock: &SimClock) -> ServerConfig {
    let (cert, key) = tokflow_cert();
    let mut tls = rustls::ServerConfig::builder_with_provider(Arc::new(rustls::crypto::ring::default_provider()))
        .with_protocol_versions(&[&rustls::version::TLS13])
        .unwrap()
        .with_no_client_auth()
        .with_single_cert(vec![cert], key)
        .unwrap();
    tls.max_early_data_size = u32::MAX;
    let crypto: quinn_proto::crypto::rustls::QuicServerConfig = tls.try_into().unwrap();
    let mut mk = [0u8; 64];
    Rng::new(seed ^ 0x70ce).bytes(64).iter().enumerate().for_each(|(i, b)| mk[i] = *b);
    let prk = ring::hkdf::Salt::new(ring::hkdf::HKDF_SHA256, &[]).extract(&mk);
    let mut cfg = ServerConfig::new(Arc::new(crypto), Arc::new(prk));
    cfg.transport_config(Arc::new(transport));
    cfg.time_source(Arc::new(clock.clone()));
    cfg
}

fn tok_client_config(transport: TransportConfig) -> ClientConfig {
    let (cert, _) = tokflow_cert();
    let mut roots = rustls::RootCertStore::empty();
    roots.add(cert).unwrap();
    let mut tls = rustls::ClientConfig::builder_with_provider(Arc::new(rustls::crypto::ring::default_provider()))
        .with_protocol_versions(&[&rustls::version::TLS13])
        .unwrap()
        .with_root_certificates(roots)
        .with_no_client_auth();
    tls.enable_early_data = true;
    let crypto: quinn_proto::crypto::rustls::QuicClientConfig = tls.try_into().unwrap();
    let mut cfg = ClientConfig::new(Arc::new(crypto));
    cfg.transport_config(Arc::new(transport));
    cfg
}

fn tc(idle_ms: u64) -> TransportConfig {
    let mut t = TransportConfig::default();
    t.max_idle_timeout(Some(IdleTimeout::try_from(Duration::from_millis(idle_ms)).unwrap()));
    t
}

fn mk_node(ep: Endpoint, a: SocketAddr) -> Node {
    Node {
        ep,
        addr: a,
        conns: BTreeMap::new(),
        policy: IncomingPolicy::Accept,
        accepted: Vec::new(),
        accept_errors: Vec::new(),
        recv_from: HashMap::new(),
        sent_to: HashMap::new(),
        max_datagrams: 10,
        server_config_for_accept: None,
        ep_tx: 0,
        amp_epoch: HashMap::new(),
    }
}

fn wake(sim: &mut Sim, at: u64) {
    let to = sim.nodes[SERVER].addr;
    let from = SocketAddr::new(IpAddr::V4(Ipv4Addr::new(192, 0, 2, 1)), 9);
    sim.push_wire(Dgram { at, seq: 0, from, to, ecn: None, data: Vec::new(), origin: usize::MAX, genuine: false });
}

impl St {
    fn count(&mut self, k: &str) {
        *self.hist.entry(k.to_string()).or_default() += 1;
    }

    fn note(&mut self, sim: &Sim, s: String) {
        if self.verbose {
            eprintln!("[tokflow t={} ms] {s}", sim.now / MS);
        }
        if self.trace.len() < 400 {
            self.trace.push(format!("t={}ms {s}", sim.now / MS));
        }
    }

    fn srv(&mut self, node: usize) -> &mut Srv {
        self.srvs.iter_mut().find(|s| s.node == node).unwrap()
    }

    /// what an attempt looked like, for failure reports
    fn adesc(&self, a: usize) -> String {
        let x = &self.attempts[a];
        format!("attempt #{} ({:?}, client node {} handle {}, server node {}, name {}, started t={} ms, outcome {})", x.id, x.kind, x.node, x.ch, x.server, x.name, x.started / MS, if x.outcome.is_empty() { "running" } else { &x.outcome })
    }

    // ---- NAT ------------------------------------------------------------------------------------------------------

    fn rebind(&mut self, sim: &Sim, node: usize, how: u64) {
        let cur = self.sh.borrow().nat[&node];
        self.nat_epoch += 1;
        let port = 20000 + (node as u16) * 4000 + self.nat_epoch as u16;
        let ip = match how {
            // same IP, other port
            0 => cur.ip(),
            // the other representation of the same IPv4 address
            1 => match cur.ip() {
                IpAddr::V4(v) => IpAddr::V6(v.to_ipv6_mapped()),
                IpAddr::V6(v) => v.to_ipv4_mapped().map_or(IpAddr::V6(v), IpAddr::V4),
            },
            // another IP
            _ => {
                let others: Vec<IpAddr> = self.ips.iter().copied().filter(|i| canon(*i) != canon(cur.ip())).collect();
                *self.rng.pick(&others)
            }
        };
        let a = SocketAddr::new(ip, port);
        self.sh.borrow_mut().nat.insert(node, a);
        self.note(sim, format!("NAT of client node {node}: {cur} -> {a}"));
    }

    // ---- store ledger ---------------------------------------------------------------------------------------------

    /// store calls found outside `Endpoint::connect` (takes) are judged here; `in_connect` = attempt being created
    fn judge_store(&mut self, sim: &mut Sim, in_connect: Option<usize>) {
        // whatever the store log holds now happened outside a packet-handling window, unless the tap moved it already
        let rest = self.store.drain();
        let mut evs: Vec<(Option<(usize, usize)>, SEv)> = std::mem::take(&mut self.sh.borrow_mut().store_evs);
        evs.extend(rest.into_iter().map(|e| (None, e)));
        for (win, ev) in evs {
            self.evals += 1;
            match ev {
                SEv::Insert { name, tok } => {
                    let was_taken = self.takes.get(&tok).copied().unwrap_or(0);
                    let presenter = self.first_presenter.get(&tok).copied();
                    let Some((node, ch)) = win else {
                        let whose = presenter.map_or("never seen on the wire".to_string(), |a| format!("already sent in the Initials of {}", self.adesc(a)));
                        sim.fail(
                            "token-store-insert-without-new-token",
                            format!("TokenStore::insert({name}, {}) was called while no packet was being handled (timer / transmit / close path): only a received NEW_TOKEN frame may store a token; these bytes were handed out by take {was_taken} time(s) before and were {whose}", hx(&tok)),
                        );
                        continue;
                    };
                    let a = self.sh.borrow().handle_attempt.get(&(node, ch)).copied();
                    let issue = self.sh.borrow().issued.get(&tok).cloned();
                    match issue {
                        None => {
                            sim.fail("token-store-insert-unissued", format!("client node {node} handle {ch} stored {} under {name}: no server wrote these bytes into a NEW_TOKEN frame", hx(&tok)));
                            continue;
                        }
                        Some(_) => {
                            if self.inserts.get(&tok).copied().unwrap_or(0) > 0 {
                                sim.fail("token-store-reinserted", format!("client node {node} handle {ch} stored {} under {name} a second time (taken {was_taken} time(s) so far)", hx(&tok)));
                                continue;
                            }
                        }
                    }
                    if let Some(a) = a {
                        if self.attempts[a].name != name {
                            sim.fail("token-store-wrong-server-name", format!("{} stored a token under {name}", self.adesc(a)));
                        }
                    }
                    *self.inserts.entry(tok).or_default() += 1;
                    self.count("store-insert-by-new-token");
                }
                SEv::Take { name, tok } => {
                    if in_connect.is_none() || win.is_some() {
                        sim.fail("token-store-take-outside-connect", format!("TokenStore::take({name}) -> {} was called outside Endpoint::connect", tok.as_ref().map_or("None".into(), |t| hx(t))));
                    }
                    let Some(tok) = tok else {
                        self.count("store-take-none");
                        continue;
                    };
                    self.count("store-take-some");
                    let ins = self.inserts.get(&tok).copied().unwrap_or(0);
                    let tk = self.takes.entry(tok.clone()).or_default();
                    *tk += 1;
                    if ins == 0 && !self.made.contains_key(&tok) {
                        sim.fail("token-store-take-unknown", format!("take({name}) returned {} which was never stored", hx(&tok)));
                    } else if *tk > ins.max(1) {
                        sim.fail("token-store-handed-out-twice", format!("take({name}) returned {} for the {}. time but it was stored {ins} time(s) (by a NEW_TOKEN frame or by the harness)", hx(&tok), *tk));
                    }
                    if let Some(a) = in_connect {
                        self.attempts[a].taken = Some(tok);
                    }
                }
            }
        }
    }

    // ---- client Initials ------------------------------------------------------------------------------------------

    fn judge_initials(&mut self, sim: &mut Sim) {
        let new: Vec<(usize, Vec<u8>, u64)> = {
            let sh = self.sh.borrow();
            sh.initials[self.initials_seen..].to_vec()
        };
        self.initials_seen += new.len();
        for (a, tok, _t) in new {
            self.attempts[a].flight_seen = true;
            if tok.is_empty() || self.attempts[a].presented.contains(&tok) {
                continue;
            }
            self.evals += 1;
            self.attempts[a].presented.push(tok.clone());
            let from_store = self.attempts[a].taken.as_ref() == Some(&tok);
            let from_retry = self.attempts[a].retry_tokens.contains(&tok);
            if !from_store && !from_retry {
                sim.fail("token-presented-from-nowhere", format!("{} sent an Initial with token {}: neither what TokenStore::take returned for it ({}) nor a Retry token sent to it", self.adesc(a), hx(&tok), self.attempts[a].taken.as_ref().map_or("None".into(), |t| hx(t))));
            }
            match self.first_presenter.get(&tok).copied() {
                None => {
                    self.first_presenter.insert(tok, a);
                }
                Some(b) if b != a => {
                    if self.made.get(&tok) == Some(&Made::Replay) {
                        self.count("presented-again-by-harness-replay");
                    } else {
                        let kind = if self.retry_issued.contains_key(&tok) { "Retry" } else { "NEW_TOKEN" };
                        sim.fail("token-presented-twice", format!("the {kind} token {} is in the Initials of {} and again in the Initials of {} (RFC 9000 8.1.3: a client MUST NOT reuse a token)", hx(&tok), self.adesc(b), self.adesc(a)));
                    }
                }
                _ => {}
            }
        }
    }

    // ---- server side ----------------------------------------------------------------------------------------------

    /// every datagram the server endpoints were handed since the last call, and the attempts they created
    fn judge_routes(&mut self, sim: &mut Sim) {
        let recs: Vec<RouteRec> = sim.route_log.as_mut().map(std::mem::take).unwrap_or_default();
        let mut held: VecDeque<(usize, u64, Incoming)> = std::mem::take(&mut sim.held).into();
        for rec in recs {
            if !self.srvs.iter().any(|s| s.node == rec.node) {
                continue;
            }
            let pk = long_packets(&rec.data);
            let first = pk.iter().find(|p| p.ty == 0).cloned();
            match rec.to {
                Routed::New => {
                    let Some((node, _t, inc)) = held.pop_front() else {
                        sim.fail("panic-in-tokflow-harness", "an attempt was created but not handed to the harness".into());
                        continue;
                    };
                    debug_assert_eq!(node, rec.node);
                    let Some(p) = first else {
                        sim.fail("panic-in-tokflow-harness", "attempt created by a datagram that does not parse as an Initial".into());
                        sim.nodes[node].ep.ignore(inc);
                        continue;
                    };
                    self.judge_incoming(sim, &rec, &p, inc);
                }
                Routed::Response(_) => {
                    let Some(p) = first else { continue };
                    if p.version != 1 {
                        // Version Negotiation: sent before any token is looked at
                        self.count("server-version-negotiation");
                        continue;
                    }
                    self.judge_stateless(sim, &rec, &p);
                }
                _ => {}
            }
        }
        for (node, _, inc) in held {
            sim.fail("panic-in-tokflow-harness", "attempt without a routing record".into());
            sim.nodes[node].ep.ignore(inc);
        }
    }

    /// classification of token bytes from the harness' own ledgers
    fn classify(&self, tok: &[u8]) -> (&'static str, Option<Issue>, Option<RetryIssue>) {
        if tok.is_empty() {
            return ("empty", None, None);
        }
        if let Some(i) = self.sh.borrow().issued.get(tok) {
            return ("newtoken", Some(i.clone()), None);
        }
        if let Some(r) = self.retry_issued.get(tok) {
            return ("retry", None, Some(r.clone()));
        }
        match self.made.get(tok) {
            Some(Made::Altered(k)) => (k, None, None),
            _ => ("unknown", None, None),
        }
    }

    /// the endpoint answered an Initial by itself (connection close in an Initial packet)
    fn judge_stateless(&mut self, sim: &mut Sim, rec: &RouteRec, p: &LongPkt) {
        self.evals += 1;
        let (class, _iss, riss) = self.classify(&p.token);
        let now = sim.now;
        let a = self.dcid_attempt.get(&p.dcid).copied();
        match (class, riss) {
            ("retry", Some(r)) if r.server == rec.node => {
                let moved = rec.from != r.dest;
                let stale = now > r.t + self.srv(rec.node).retry_lifetime;
                let fresh = now + SEC <= r.t + self.srv(rec.node).retry_lifetime;
                if moved || stale {
                    self.count(if moved { "retry-token-misplaced-rejected" } else { "retry-token-stale-rejected" });
                    if let Some(a) = a {
                        self.attempts[a].expect_invalid = true;
                    }
                } else if fresh {
                    sim.fail("token-genuine-not-honoured", format!("server node {} answered an Initial from {} carrying its own Retry token {} (issued to {} {} ms ago, retry_token_lifetime {} ms) with a stateless response instead of treating the address as validated", rec.node, rec.from, hx(&p.token), r.dest, (now - r.t) / MS, self.srv(rec.node).retry_lifetime / MS));
                } else {
                    self.count("retry-token-within-a-second-of-expiry");
                }
            }
            _ => {
                // anything else must be treated as absent: an attempt is created (or the datagram is dropped), never answered
                sim.fail("token-altered-not-absent", format!("server node {} answered an Initial from {} statelessly although its token {} ({class}) is not a Retry token of this server: altered / foreign tokens must be treated as absent", rec.node, rec.from, hx(&p.token)));
            }
        }
    }

    fn judge_incoming(&mut self, sim: &mut Sim, rec: &RouteRec, p: &LongPkt, inc: Incoming) {
        self.evals += 1;
        let node = rec.node;
        let now = sim.now;
        let validated = inc.remote_address_validated();
        let may_retry = inc.may_retry();
        let (class, iss, riss) = self.classify(&p.token);
        let a = self.dcid_attempt.get(&p.dcid).copied();
        let who = a.map_or("an unknown attempt".to_string(), |a| self.adesc(a));
        let (lifetime, retry_lifetime, log) = {
            let s = self.srv(node);
            (s.lifetime, s.retry_lifetime, s.log)
        };
        self.note(sim, format!("server node {node}: Initial from {} dcid {} token {} ({class}) -> validated {validated} may_retry {may_retry} [{who}]", rec.from, hx(&p.dcid), hx(&p.token)));
        match class {
            "empty" => {
                if validated {
                    sim.fail("token-validated-without-token", format!("server node {node} reports the address {} of {who} as validated although the Initial carries no token", rec.from));
                }
            }
            "newtoken" => {
                let i = iss.unwrap();
                if i.server != node {
                    self.count("foreign-newtoken-presented");
                    if validated {
                        sim.fail("token-validated-foreign-key", format!("server node {node} validated {} by the NEW_TOKEN token {} that server node {} (another token key) issued", rec.from, hx(&p.token), i.server));
                    }
                } else {
                    let wrong_ip = canon(rec.from.ip()) != canon(i.dest.ip());
                    let same_repr = rec.from.ip() == i.dest.ip();
                    let expired = now > i.t + lifetime;
                    let fresh = now + SEC <= i.t + lifetime;
                    let replay = self.srv(node).accepted.contains(&p.token);
                    let seen_before = self.srv(node).seen.contains(&p.token);
                    let in_order = i.t / SEC >= self.srv(node).max_issue_sec;
                    if validated {
                        if wrong_ip {
                            sim.fail("token-validated-wrong-address", format!("server node {node} validated {} of {who} by the NEW_TOKEN token {} that was issued to {}", rec.from, hx(&p.token), i.dest));
                        }
                        if expired {
                            sim.fail("token-validated-expired", format!("server node {node} validated {} of {who} by the NEW_TOKEN token {} issued {} ms ago (lifetime {} ms)", rec.from, hx(&p.token), (now - i.t) / MS, lifetime / MS));
                        }
                        if replay {
                            sim.fail("token-validated-replayed", format!("server node {node} validated {} of {who} by the NEW_TOKEN token {} which it had accepted before (log {log:?})", rec.from, hx(&p.token)));
                        }
                        if !(wrong_ip || expired || replay) {
                            self.honoured += 1;
                            self.count("newtoken-honoured");
                            if rec.from.port() != i.dest.port() {
                                self.count("newtoken-honoured-from-another-port");
                            }
                        }
                        self.srv(node).accepted.insert(p.token.clone());
                    } else {
                        let why = if wrong_ip {
                            "wrong-ip"
                        } else if expired {
                            "expired"
                        } else if replay {
                            "replay"
                        } else if seen_before {
                            "seen-before"
                        } else if !same_repr {
                            "mapped-representation"
                        } else if !fresh {
                            "within-a-second-of-expiry"
                        } else if log == LogKind::NoneLog {
                            "none-log"
                        } else if log == LogKind::BloomSmall {
                            "small-bloom-budget"
                        } else if !in_order {
                            "out-of-order"
                        } else {
                            ""
                        };
                        if why.is_empty() {
                            sim.fail("token-genuine-not-honoured", format!("server node {node} did not validate {} of {who} although its NEW_TOKEN token {} was issued to {} {} ms ago (lifetime {} ms), was never presented before, no younger token was presented before it, and the log (default budget: still an exact set) has room", rec.from, hx(&p.token), i.dest, (now - i.t) / MS, lifetime / MS));
                        } else {
                            self.count(&format!("newtoken-not-honoured:{why}"));
                            if why == "out-of-order" {
                                // observation O1 (allowed by the TokenLog contract): kept findable
                                let seed = self.seed;
                                self.count(&format!("observation-O1-out-of-order-refusal-seed-{seed}"));
                                let m = self.srv(node).max_issue_sec;
                                self.note(sim, format!("O1: token {} issued at t={} ms refused; youngest issue second presented before: {m}", hx(&p.token), i.t / MS));
                            }
                        }
                    }
                    if !wrong_ip && !expired {
                        // reached the log (by the property: right address, in lifetime)
                        let s = self.srv(node);
                        s.seen.insert(p.token.clone());
                        s.max_issue_sec = s.max_issue_sec.max(i.t / SEC);
                    }
                }
            }
            "retry" => {
                let r = riss.unwrap();
                if r.server != node {
                    if validated {
                        sim.fail("token-validated-foreign-key", format!("server node {node} validated {} by the Retry token {} of server node {}", rec.from, hx(&p.token), r.server));
                    }
                } else {
                    let moved = rec.from != r.dest;
                    let stale = now > r.t + retry_lifetime;
                    let fresh = now + SEC <= r.t + retry_lifetime;
                    if moved || stale {
                        if validated {
                            let key = if moved { "token-validated-wrong-address" } else { "token-validated-expired" };
                            sim.fail(key, format!("server node {node} validated {} of {who} by the Retry token {} issued to {} {} ms ago (retry_token_lifetime {} ms)", rec.from, hx(&p.token), r.dest, (now - r.t) / MS, retry_lifetime / MS));
                        } else {
                            sim.fail("token-invalid-retry-not-rejected", format!("server node {node} created an attempt for {who} from {} although its Retry token {} is {} (issued to {} {} ms ago, retry_token_lifetime {} ms): the attempt must end with INVALID_TOKEN", rec.from, hx(&p.token), if moved { "misplaced" } else { "stale" }, r.dest, (now - r.t) / MS, retry_lifetime / MS));
                        }
                    } else if validated {
                        self.honoured_retry += 1;
                        self.count("retry-token-honoured");
                    } else if fresh && r.scid == p.dcid {
                        sim.fail("token-genuine-not-honoured", format!("server node {node} did not validate {} of {who} although the Initial echoes the Retry token {} sent to that address {} ms ago (retry_token_lifetime {} ms)", rec.from, hx(&p.token), (now - r.t) / MS, retry_lifetime / MS));
                    }
                }
            }
            k => {
                self.count(&format!("made-token-presented:{k}"));
                if validated {
                    sim.fail("token-validated-altered", format!("server node {node} validated {} of {who} by the token {} which no server issued ({k})", rec.from, hx(&p.token)));
                }
            }
        }
        self.decide(sim, node, a, validated, may_retry, inc);
    }

    /// the server application's decision for one attempt
    fn decide(&mut self, sim: &mut Sim, node: usize, a: Option<usize>, validated: bool, may_retry: bool, inc: Incoming) {
        let now = sim.t();
        let mut buf = Vec::new();
        let Some(a) = a else {
            sim.nodes[node].ep.ignore(inc);
            return;
        };
        let kind = self.attempts[a].kind;
        let from = sim.nodes[node].addr;
        let send = |sim: &mut Sim, t: quinn_proto::Transmit, buf: &[u8], delay: u64| {
            let d = Dgram { at: sim.now + sim.net.latency_ns + delay, seq: 0, from, to: t.destination, ecn: t.ecn, data: buf[..t.size].to_vec(), origin: node, genuine: true };
            // through the NAT / blackhole filter, but with the harness' own delay
            let mut d = d;
            if let Some(mut f) = sim.wire_filter.take() {
                let keep = f(&mut d, &mut sim.rng);
                sim.wire_filter = Some(f);
                if !keep {
                    return;
                }
            }
            sim.push_wire(d);
        };
        let want_retry = match kind {
            Kind::RetrySilence | Kind::RetryMoved | Kind::RetryStale => self.attempts[a].retried == 0,
            Kind::Ok | Kind::UnreachIn => (!validated && self.attempts[a].retry_first) || (validated && self.attempts[a].retry_anyway && self.attempts[a].retried == 0),
            _ => false,
        };
        if matches!(kind, Kind::RetrySilence | Kind::RetryStale) && self.attempts[a].retried > 0 && !validated {
            // further copies of the first Initial while the Retry is under way
            sim.nodes[node].ep.ignore(inc);
            self.count("server-ignored-late-copy");
            return;
        }
        if kind == Kind::Refuse {
            let t = sim.nodes[node].ep.refuse(inc, &mut buf);
            send(sim, t, &buf, 0);
            self.count("server-refused");
            return;
        }
        if kind == Kind::Ignore {
            sim.nodes[node].ep.ignore(inc);
            self.count("server-ignored");
            return;
        }
        if want_retry && may_retry {
            let dest = inc.remote_address();
            match sim.nodes[node].ep.retry(inc, &mut buf) {
                Ok(t) => {
                    let pk = parse_long(&buf[..t.size]);
                    let Some(pk) = pk.filter(|p| p.ty == 3) else {
                        sim.fail("panic-in-tokflow-harness", "Retry packet does not parse".into());
                        return;
                    };
                    self.retry_issued.insert(pk.token.clone(), RetryIssue { server: node, t: sim.now, dest, scid: pk.scid.clone() });
                    self.dcid_attempt.insert(pk.scid.clone(), a);
                    self.attempts[a].retry_tokens.push(pk.token.clone());
                    self.attempts[a].retried += 1;
                    self.count("server-retry");
                    let retry_lifetime = self.srv(node).retry_lifetime;
                    let delay = if kind == Kind::RetryStale { retry_lifetime + 1_200 * MS } else { 0 };
                    send(sim, t, &buf, delay);
                    if kind == Kind::RetryStale {
                        wake(sim, sim.now + sim.net.latency_ns + delay);
                    }
                    if kind == Kind::RetryMoved {
                        // the client's NAT binding changes while the Retry is on its way back: the Initial that echoes
                        // the token comes from another port or another address
                        let cn = self.attempts[a].node;
                        let how = *self.rng.pick(&[0u64, 2]);
                        // the Retry must still reach the client: it is addressed to the old binding
                        let old = self.sh.borrow().nat[&cn];
                        self.rebind(sim, cn, how);
                        let real = self.sh.borrow().real[&cn];
                        for d in sim.wire.iter_mut() {
                            if d.to == old {
                                d.to = real;
                            }
                        }
                    }
                    if kind == Kind::RetrySilence {
                        let cn = self.attempts[a].node;
                        // everything the client sends from now on is lost (the Retry itself arrives)
                        self.sh.borrow_mut().drop_out.insert(cn);
                    }
                }
                Err(e) => {
                    sim.nodes[node].ep.ignore(e.into_incoming());
                }
            }
            return;
        }
        match sim.nodes[node].ep.accept(inc, now, &mut buf, None) {
            Ok((ch, mut conn)) => {
                conn.verif_txlog_enable();
                sim.nodes[node].conns.insert(ch.0, NodeConn { conn, events: VecDeque::new(), app_events: VecDeque::new(), obs: ConnObs::default(), removed: false });
                sim.nodes[node].accepted.push(ch.0);
                self.attempts[a].sconns.push(ch.0);
                self.count("server-accepted");
            }
            Err(e) => {
                self.count("server-accept-error");
                if let Some(t) = e.response {
                    send(sim, t, &buf, 0);
                }
            }
        }
    }

    // ---- attempts -------------------------------------------------------------------------------------------------

    /// bytes of the harness' own making go into the client's cache
    fn inject(&mut self, sim: &Sim, name: &str) {
        let pool: Vec<Vec<u8>> = {
            let sh = self.sh.borrow();
            sh.issue_order.iter().filter(|t| self.first_presenter.contains_key(*t)).cloned().chain(self.retry_issued.keys().cloned()).collect()
        };
        let mut pool = pool;
        pool.sort();
        let how = self.rng.below(7);
        let (tok, made) = if pool.is_empty() || how == 6 {
            let n = self.rng.range(1, 80) as usize;
            (self.rng.bytes(n), Made::Altered("random"))
        } else {
            let base = self.rng.pick(&pool).clone();
            match how {
                0 | 1 => (base, Made::Replay),
                2 => {
                    let mut t = base;
                    let i = self.rng.below(t.len() as u64) as usize;
                    t[i] ^= 1 << self.rng.below(8);
                    (t, Made::Altered("bit-flip"))
                }
                3 => {
                    let mut t = base;
                    let n = self.rng.range(1, t.len() as u64 - 1) as usize;
                    t.truncate(n);
                    (t, Made::Altered("truncated"))
                }
                4 => {
                    let mut t = base;
                    let n = self.rng.range(1, 6) as usize;
                    t.extend(self.rng.bytes(n));
                    (t, Made::Altered("extended"))
                }
                _ => {
                    let other = self.rng.pick(&pool).clone();
                    let cut = self.rng.range(1, base.len().min(other.len()) as u64 - 1) as usize;
                    let mut t = base[..cut].to_vec();
                    t.extend_from_slice(&other[cut..]);
                    (t, Made::Altered("spliced"))
                }
            }
        };
        if let Made::Altered(_) = made {
            // must really differ from everything genuine, and be new
            if self.sh.borrow().issued.contains_key(&tok) || self.retry_issued.contains_key(&tok) || self.made.contains_key(&tok) {
                return;
            }
        } else if matches!(self.made.get(&tok), Some(Made::Altered(_))) {
            return;
        }
        self.note(sim, format!("harness stores {} ({made:?}) under {name}", hx(&tok)));
        self.count(&format!("injected:{}", match &made { Made::Replay => "replay", Made::Altered(k) => k }));
        self.made.insert(tok.clone(), made);
        *self.inserts.entry(tok.clone()).or_default() += 1;
        self.store.inject(name, &tok);
    }

    fn start_attempt(&mut self, sim: &mut Sim) {
        let id = self.attempts.len();
        let node = *self.rng.pick(&self.clients.clone());
        let server = if self.srvs.len() > 1 && self.rng.chance(1, 3) { self.srvs[1].node } else { self.srvs[0].node };
        let name = (*self.rng.pick(&self.names.clone())).to_string();
        let kind = if id == 0 {
            Kind::Ok
        } else {
            match self.rng.below(20) {
                0..=7 => Kind::Ok,
                8 | 9 => Kind::UnreachOut,
                10 => Kind::UnreachIn,
                11 => Kind::Refuse,
                12 => Kind::Ignore,
                13 => Kind::VersionNeg,
                14 => Kind::RetrySilence,
                15 => Kind::LocalCloseEarly,
                16 => Kind::LocalCloseAfterFlight,
                17 => Kind::RetryMoved,
                18 => Kind::RetryStale,
                _ => Kind::UnreachOut,
            }
        };
        // address changes between attempts
        if id > 0 {
            match self.rng.below(12) {
                0 | 1 => self.rebind(sim, node, 0),
                2 => self.rebind(sim, node, 1),
                3 | 4 => self.rebind(sim, node, 2),
                _ => {}
            }
        }
        if id > 0 && self.rng.chance(1, 3) {
            self.inject(sim, &name);
        }
        self.judge_store(sim, None);
        let dl = 8 + self.rng.below(13) as usize;
        let mut dcid = self.rng.bytes(dl);
        dcid[0] = id as u8 + 1;
        let mut cfg = self.ccfg[&node].clone();
        let d2 = dcid.clone();
        cfg.initial_dst_cid_provider(Arc::new(move || ConnectionId::new(&d2)));
        if kind == Kind::RetryStale {
            // the client must still be there when the late Retry arrives
            let rl = self.srv(server).retry_lifetime;
            cfg.transport_config(Arc::new(tc((rl + 6 * SEC) / MS)));
        }
        if kind == Kind::VersionNeg {
            // draft-29: known to the client's crypto layer, not offered by the servers
            cfg.version(0xff00_001d);
        }
        let now = sim.t();
        let saddr = sim.nodes[server].addr;
        let (ch, mut conn) = sim.nodes[node].ep.connect(now, cfg, saddr, &name).expect("connect");
        conn.verif_txlog_enable();
        sim.nodes[node].conns.insert(ch.0, NodeConn { conn, events: VecDeque::new(), app_events: VecDeque::new(), obs: ConnObs::default(), removed: false });
        self.sh.borrow_mut().handle_attempt.insert((node, ch.0), id);
        self.dcid_attempt.insert(dcid.clone(), id);
        let linger = self.rng.range(30, 400) * MS;
        let after = self.rng.below(4) as u8;
        self.attempts.push(Attempt {
            id,
            node,
            ch: ch.0,
            server,
            name,
            kind,
            retry_first: self.rng.chance(1, 2),
            retry_anyway: self.rng.chance(1, 5),
            taken: None,
            retry_tokens: Vec::new(),
            presented: Vec::new(),
            started: sim.now,
            connected_at: None,
            ended: false,
            outcome: String::new(),
            expect_invalid: false,
            retried: 0,
            linger,
            after,
            closed_locally: false,
            sconns: Vec::new(),
            flight_seen: false,
        });
        self.judge_store(sim, Some(id));
        match kind {
            Kind::UnreachOut => {
                self.sh.borrow_mut().drop_out.insert(node);
            }
            Kind::UnreachIn => {
                self.sh.borrow_mut().drop_in.insert(node);
            }
            Kind::LocalCloseEarly => {
                sim.nodes[node].conns.get_mut(&ch.0).unwrap().conn.close(now, VarInt::from_u32(7), Bytes::from_static(b"early"));
                self.attempts[id].closed_locally = true;
                wake(sim, sim.now + 50 * MS);
            }
            _ => {}
        }
        let d = self.adesc(id);
        let pa = self.sh.borrow().nat[&node];
        self.note(sim, format!("START {d} from public address {pa}, store gave {}", self.attempts[id].taken.as_ref().map_or("None".into(), |t| hx(t))));
        self.count(&format!("attempt:{kind:?}"));
    }

    /// events of the client connection of attempt `a`; returns true when the attempt is over
    fn watch(&mut self, sim: &mut Sim, a: usize) -> bool {
        let (node, ch, kind) = (self.attempts[a].node, self.attempts[a].ch, self.attempts[a].kind);
        let now = sim.t();
        let evs: Vec<Event> = sim.nodes[node].conns.get_mut(&ch).map(|nc| nc.app_events.drain(..).collect()).unwrap_or_default();
        for e in evs {
            match e {
                Event::Connected => {
                    if self.attempts[a].connected_at.is_none() {
                        self.attempts[a].connected_at = Some(sim.now);
                        // come back when the application is done with the connection
                        wake(sim, sim.now + self.attempts[a].linger);
                    }
                    if self.attempts[a].expect_invalid {
                        let d = self.adesc(a);
                        sim.fail("token-invalid-retry-not-rejected", format!("{d} presented a stale / misplaced Retry token and completed the handshake nevertheless"));
                    }
                }
                Event::ConnectionLost { reason } => {
                    let r = format!("{reason:?}");
                    self.attempts[a].outcome = format!("lost: {}", &r[..r.len().min(120)]);
                    self.attempts[a].ended = true;
                    if self.attempts[a].expect_invalid {
                        self.evals += 1;
                        match &reason {
                            ConnectionError::ConnectionClosed(cc) if cc.error_code == TransportErrorCode::INVALID_TOKEN => self.count("attempt-ended-with-INVALID_TOKEN"),
                            ConnectionError::ConnectionClosed(cc) => {
                                let d = self.adesc(a);
                                sim.fail("token-invalid-retry-wrong-code", format!("{d} presented a stale / misplaced Retry token; the server closed it with {:?} instead of INVALID_TOKEN", cc.error_code));
                            }
                            _ => self.count("attempt-with-invalid-retry-token-ended-otherwise"),
                        }
                    }
                }
                _ => {}
            }
        }
        if self.attempts[a].ended {
            return true;
        }
        if kind == Kind::LocalCloseAfterFlight && self.attempts[a].flight_seen && !self.attempts[a].closed_locally {
            sim.nodes[node].conns.get_mut(&ch).unwrap().conn.close(now, VarInt::from_u32(8), Bytes::from_static(b"after flight"));
            self.attempts[a].closed_locally = true;
            wake(sim, self.attempts[a].started + 50 * MS);
        }
        if self.attempts[a].closed_locally {
            // the application gets no event for its own close: the attempt is over once the close went out
            if sim.now >= self.attempts[a].started + 50 * MS {
                self.attempts[a].outcome = "closed locally".into();
                self.attempts[a].ended = true;
                return true;
            }
            return false;
        }
        if let Some(c) = self.attempts[a].connected_at {
            if sim.now >= c + self.attempts[a].linger {
                let server = self.attempts[a].server;
                match self.attempts[a].after {
                    0 => {
                        sim.nodes[node].conns.get_mut(&ch).unwrap().conn.close(now, VarInt::from_u32(1), Bytes::from_static(b"done"));
                        self.attempts[a].outcome = "connected, closed by client".into();
                    }
                    1 => {
                        for s in self.attempts[a].sconns.clone() {
                            if let Some(nc) = sim.nodes[server].conns.get_mut(&s) {
                                nc.conn.close(now, VarInt::from_u32(2), Bytes::from_static(b"bye"));
                            }
                        }
                        self.attempts[a].outcome = "connected, closed by server".into();
                    }
                    _ => self.attempts[a].outcome = "connected, left open".into(),
                }
                self.attempts[a].ended = true;
                return true;
            }
        }
        false
    }

    fn end_attempt(&mut self, sim: &mut Sim, a: usize) {
        let node = self.attempts[a].node;
        {
            let mut sh = self.sh.borrow_mut();
            sh.drop_out.remove(&node);
            sh.drop_in.remove(&node);
        }
        let x = &self.attempts[a];
        let on_wire = x.presented.iter().any(|t| x.taken.as_ref() == Some(t));
        let failed = x.connected_at.is_none();
        if failed && on_wire {
            self.failed_with_token += 1;
        }
        let d = self.adesc(a);
        self.note(sim, format!("END {d}; tokens in its Initials: {:?}", self.attempts[a].presented.iter().map(|t| hx(t)).collect::<Vec<_>>()));
        let o = self.attempts[a].outcome.split(':').next().unwrap_or("").to_string();
        self.count(&format!("outcome:{o}"));
    }

    /// connections nobody watches any more: drop their events, forget drained ones
    fn sweep(&mut self, sim: &mut Sim, current: Option<usize>) {
        let cur = current.map(|a| (self.attempts[a].node, self.attempts[a].ch));
        for n in 0..sim.nodes.len() {
            for (ch, nc) in sim.nodes[n].conns.iter_mut() {
                if Some((n, *ch)) != cur {
                    nc.app_events.clear();
                }
                if nc.obs.drained_events > 0 {
                    nc.removed = true;
                }
            }
        }
    }
}

pub fn tokflow(seed: u64, out: &mut Outcome) {
    let mut rng = Rng::new(seed ^ 0x70cf10);
    let clock = SimClock(Arc::new(Mutex::new(std::time::UNIX_EPOCH + Duration::from_secs(1_700_000_000))));
    let verbose = std::env::var("VERIF_SIM_VERBOSE").is_ok();
    // ---- servers
    let n_srv = if rng.chance(1, 3) { 2 } else { 1 };
    let mut srvs = Vec::new();
    let mut server_eps = Vec::new();
    for k in 0..n_srv {
        let lifetime = *rng.pick(&[3 * SEC, 20 * SEC, 14 * 24 * 3600 * SEC]);
        let retry_lifetime = *rng.pick(&[2 * SEC, 15 * SEC]);
        let log = *rng.pick(&[LogKind::BloomBig, LogKind::BloomBig, LogKind::BloomBig, LogKind::BloomSmall, LogKind::BloomSmall, LogKind::NoneLog]);
        let sent = rng.below(5) as u32;
        let mut scfg = tok_server_config(seed ^ (0x5e00 + k as u64), tc(6_000), &clock);
        let mut v = ValidationTokenConfig::default();
        v.lifetime(Duration::from_nanos(lifetime)).sent(sent);
        match log {
            LogKind::BloomBig => v.log(Arc::new(BloomTokenLog::default())),
            LogKind::BloomSmall => v.log(Arc::new(BloomTokenLog::new_expected_items(32, 4))),
            LogKind::NoneLog => v.log(Arc::new(NoneTokenLog)),
        };
        scfg.validation_token_config(v);
        scfg.retry_token_lifetime(Duration::from_nanos(retry_lifetime));
        let mut ecfg = endpoint_config(seed ^ (0x11 + k as u64), 8, None);
        ecfg.supported_versions(vec![1]);
        server_eps.push(Endpoint::new(Arc::new(ecfg), Some(Arc::new(scfg)), true));
        srvs.push(Srv { node: if k == 0 { SERVER } else { usize::MAX }, lifetime, retry_lifetime, log, sent, accepted: HashSet::new(), seen: HashSet::new(), max_issue_sec: 0 });
    }
    // ---- clients
    let n_cli = 1 + rng.below(2) as usize;
    let max_names = *rng.pick(&[0u32, 1, 2, 256, 256, 256]);
    let max_tokens = *rng.pick(&[0usize, 1, 2, 2, 2, 8, 8, 8]);
    let store = Arc::new(RecStore { inner: TokenMemoryCache::new(max_names, max_tokens), log: Mutex::new(Vec::new()) });
    let client0 = Endpoint::new(Arc::new(endpoint_config(seed ^ 2, 8, None)), None, true);
    let mut server_eps = server_eps.into_iter();
    let mut sim = Sim::new(seed, client0, server_eps.next().unwrap(), clock.clone());
    sim.nodes[CLIENT].addr = SocketAddr::new(IpAddr::V4(Ipv4Addr::new(10, 0, 0, 1)), 5001);
    sim.nodes[SERVER].addr = SocketAddr::new(IpAddr::V6(Ipv6Addr::new(0x2001, 0xdb8, 0, 0, 0, 0, 0, 0x53)), 4433);
    let mut clients = vec![CLIENT];
    if n_cli == 2 {
        let ep = Endpoint::new(Arc::new(endpoint_config(seed ^ 3, 8, None)), None, true);
        sim.nodes.push(mk_node(ep, SocketAddr::new(IpAddr::V4(Ipv4Addr::new(10, 0, 0, 2)), 5002)));
        clients.push(sim.nodes.len() - 1);
    }
    if let Some(ep) = server_eps.next() {
        sim.nodes.push(mk_node(ep, SocketAddr::new(IpAddr::V6(Ipv6Addr::new(0x2001, 0xdb8, 0, 0, 0, 0, 0, 0x54)), 4433)));
        srvs[1].node = sim.nodes.len() - 1;
    }
    for s in &srvs {
        sim.nodes[s.node].policy = IncomingPolicy::Hold;
    }
    sim.check_amp = false;
    sim.route_log = Some(Vec::new());
    sim.net = NetCfg {
        latency_ns: rng.range(2, 30) * MS,
        jitter_ns: *rng.pick(&[0u64, 0, 3 * MS]),
        drop_permille: *rng.pick(&[0u64, 0, 20]),
        dup_permille: *rng.pick(&[0u64, 0, 30]),
        corrupt_permille: 0,
        truncate_permille: 0,
        replay_permille: 0,
        max_consecutive_drops: 2,
        path_mtu: 1452,
        ce: false,
    };
    let ips: Vec<IpAddr> = vec![
        IpAddr::V4(Ipv4Addr::new(192, 0, 2, 10)),
        IpAddr::V6(Ipv4Addr::new(192, 0, 2, 10).to_ipv6_mapped()),
        IpAddr::V4(Ipv4Addr::new(198, 51, 100, 7)),
        IpAddr::V6(Ipv6Addr::new(0x2001, 0xdb8, 0, 1, 0, 0, 0, 0xa)),
        IpAddr::V6(Ipv6Addr::new(0x2001, 0xdb8, 0, 2, 0, 0, 0, 0xb)),
    ];
    let sh = Rc::new(RefCell::new(Shared::default()));
    {
        let mut s = sh.borrow_mut();
        s.servers = srvs.iter().map(|x| x.node).collect();
        // two clients: same IP and different ports, or different IPs
        let same_ip = rng.chance(1, 2);
        let ip0 = *rng.pick(&ips);
        for (k, c) in clients.iter().enumerate() {
            let ip = if k == 0 || same_ip { ip0 } else { *rng.pick(&ips.iter().copied().filter(|i| canon(*i) != canon(ip0)).collect::<Vec<_>>()) };
            s.nat.insert(*c, SocketAddr::new(ip, 20000 + (*c as u16) * 4000));
            s.real.insert(*c, sim.nodes[*c].addr);
        }
    }
    let mut ccfg = HashMap::new();
    for c in &clients {
        let mut cfg = tok_client_config(tc(6_000));
        cfg.token_store(store.clone());
        ccfg.insert(*c, cfg);
    }
    // ---- taps
    let sh1 = sh.clone();
    sim.wire_filter = Some(Box::new(move |d: &mut Dgram, _r: &mut Rng| {
        let s = sh1.borrow();
        if let Some(pa) = s.nat.get(&d.origin) {
            if s.drop_out.contains(&d.origin) {
                return false;
            }
            d.from = *pa;
            return true;
        }
        if s.servers.contains(&d.origin) {
            for (c, pa) in s.nat.iter() {
                if *pa == d.to {
                    if s.drop_in.contains(c) {
                        return false;
                    }
                    d.to = s.real[c];
                    return true;
                }
            }
        }
        true
    }));
    let sh2 = sh.clone();
    sim.tx_tap = Some(Box::new(move |sim: &mut Sim, node: usize, ch: usize, _b, t: &quinn_proto::Transmit, buf: &[u8]| {
        let mut s = sh2.borrow_mut();
        let now = sim.now;
        let conn = &mut sim.nodes[node].conns.get_mut(&ch).unwrap().conn;
        let _ = conn.verif_take_txlog();
        if s.servers.contains(&node) {
            for tok in conn.verif_take_new_tokens() {
                s.new_token_frames += 1;
                s.issue_order.push(tok.clone());
                s.issued.insert(tok, Issue { server: node, t: now, dest: t.destination });
            }
        } else if let Some(a) = s.handle_attempt.get(&(node, ch)).copied() {
            let seg = t.segment_size.unwrap_or(t.size.max(1));
            let mut off = 0;
            while off < t.size {
                let end = (off + seg).min(t.size);
                for p in long_packets(&buf[off..end]) {
                    if p.ty == 0 {
                        s.initials.push((a, p.token, now));
                    }
                }
                off = end;
            }
        }
    }));
    let sh3 = sh.clone();
    let store3 = store.clone();
    sim.rx_tap = Some(Box::new(move |_sim: &mut Sim, node: usize, ch: usize, _len: usize, post: bool| {
        let mut s = sh3.borrow_mut();
        if s.servers.contains(&node) {
            return;
        }
        // before the packet is handled: whatever the log holds was not done by packet handling; after: it was
        let win = if post { Some((node, ch)) } else { None };
        for e in store3.drain() {
            s.store_evs.push((win, e));
        }
        s.window = if post { None } else { Some((node, ch)) };
    }));
    let planned = rng.range(3, 10) as usize;
    let mut names = vec!["localhost"];
    match rng.below(3) {
        0 => {}
        1 => names.push("alpha.test"),
        _ => {
            names.push("alpha.test");
            names.push("beta.test");
        }
    }
    let mut st = St {
        rng: Rng::new(seed ^ 0x51ab),
        seed,
        sh: sh.clone(),
        store: store.clone(),
        srvs,
        clients,
        ccfg,
        attempts: Vec::new(),
        planned,
        dcid_attempt: HashMap::new(),
        retry_issued: HashMap::new(),
        made: HashMap::new(),
        inserts: HashMap::new(),
        takes: HashMap::new(),
        first_presenter: HashMap::new(),
        initials_seen: 0,
        route_seen: 0,
        nat_epoch: 0,
        ips,
        names,
        evals: 0,
        honoured: 0,
        honoured_retry: 0,
        failed_with_token: 0,
        followed_after_failure: false,
        hist: BTreeMap::new(),
        trace: Vec::new(),
        verbose,
    };
    // ---- main loop: gap, attempt, gap, attempt, ..., settle
    let mut current: Option<usize> = None;
    let mut next_at: u64 = 0;
    let mut settle_until: Option<u64> = None;
    let end = sim.run_until(u64::MAX / 2, 400_000, |sim| {
        st.judge_store(sim, None);
        st.judge_initials(sim);
        st.judge_routes(sim);
        st.sweep(sim, current);
        if let Some(a) = current {
            let over = st.watch(sim, a) || sim.now > st.attempts[a].started + 40 * SEC;
            if over {
                if !st.attempts[a].ended {
                    st.attempts[a].outcome = "stuck".into();
                }
                st.end_attempt(sim, a);
                current = None;
                let gap = match st.rng.below(16) {
                    0..=2 => 0,
                    3..=5 => 200 * MS,
                    6 | 7 => 900 * MS,
                    8 | 9 => 2_500 * MS,
                    10 | 11 => 7 * SEC,
                    12 => 12 * SEC,
                    13 => 25 * SEC,
                    14 => 45 * SEC,
                    _ => {
                        if st.rng.chance(1, 4) {
                            15 * 24 * 3600 * SEC
                        } else {
                            SEC
                        }
                    }
                };
                next_at = sim.now + gap;
                if gap > 0 {
                    wake(sim, next_at);
                }
            }
            return false;
        }
        if st.attempts.len() < st.planned {
            if sim.now >= next_at {
                if st.failed_with_token > 0 {
                    st.followed_after_failure = true;
                }
                st.start_attempt(sim);
                current = Some(st.attempts.len() - 1);
            }
            return false;
        }
        if settle_until.is_none() {
            settle_until = Some(sim.now + 2 * SEC);
            wake(sim, sim.now + 2 * SEC + 1);
        }
        sim.now >= settle_until.unwrap()
    });
    st.judge_store(&mut sim, None);
    st.judge_initials(&mut sim);
    st.judge_routes(&mut sim);
    if end != RunEnd::Done {
        sim.fail("panic-in-tokflow-harness", format!("run ended {end:?} with {} of {} attempts", st.attempts.len(), st.planned));
    }
    for (node, _, inc) in std::mem::take(&mut sim.held) {
        sim.nodes[node].ep.ignore(inc);
    }
    out.runs += 1;
    out.evaluations += st.evals;
    if st.honoured > 0 && st.failed_with_token > 0 && st.followed_after_failure {
        out.nontrivial += 1;
    }
    for (k, v) in &st.hist {
        out.count(k, *v);
    }
    out.count("attempts", st.attempts.len() as u64);
    out.count("new-token-frames-sent", sh.borrow().new_token_frames);
    out.count("newtoken-honoured-total", st.honoured);
    out.count("retry-token-honoured-total", st.honoured_retry);
    out.count("attempts-failed-with-store-token-on-the-wire", st.failed_with_token);
    for s in &st.srvs {
        out.count(&format!("server-log:{:?}", s.log), 1);
        out.count(&format!("server-sent:{}", s.sent), 1);
        out.count(&format!("server-lifetime-s:{}", s.lifetime / SEC), 1);
    }
    out.count(&format!("cache:{max_names}x{max_tokens}"), 1);
    out.count(&format!("end:{end:?}"), 1);
    if out.samples.len() < 3 {
        out.samples.push(format!(
            "seed {seed}: {} server(s) {:?}, {} client(s), cache {max_names}x{max_tokens}, names {:?}, {} attempts [{}], NEW_TOKEN frames {}, honoured {}, end {end:?} at {} ms / {} steps",
            st.srvs.len(),
            st.srvs.iter().map(|s| (s.log, s.sent, s.lifetime / SEC, s.retry_lifetime / SEC)).collect::<Vec<_>>(),
            st.clients.len(),
            st.names,
            st.attempts.len(),
            st.attempts.iter().map(|a| format!("{:?}:{}", a.kind, a.outcome.split(':').next().unwrap_or(""))).collect::<Vec<_>>().join(", "),
            sh.borrow().new_token_frames,
            st.honoured,
            sim.now / MS,
            sim.steps
        ));
    }
    let _ = st.route_seen;
    if !sim.fails.is_empty() && verbose {
        for l in &st.trace {
            eprintln!("TRACE {l}");
        }
    }
    // the replay of a failure: the attempt history of the run, in the failure line itself
    let hist: String = st.attempts.iter().map(|a| format!("#{} {:?} node{}->{} {} [{}] tokens {:?}", a.id, a.kind, a.node, a.server, a.name, a.outcome.split(':').next().unwrap_or(""), a.presented.iter().map(|t| hx(t)).collect::<Vec<_>>())).collect::<Vec<_>>().join("; ");
    for f in sim.fails.drain(..) {
        if f.starts_with("key=token-") {
            out.fails.push(format!("{f} seed={seed} history: {hist}"));
        } else {
            out.fails.push(format!("{f} seed={seed}"));
        }
    }
}
