//! op classes (see opclass.rs) of the wire-format components: `varint`, `pn`, `frame`, `header`, `tparams`,
//! `ackscan`.  All six executors are STATELESS (every op is a pure function of its arguments), so an
//! out-of-contract argument is `Class::Probe` (not judged, does not taint); only ill-formed op lines (the
//! executor answers `bad-op`) are `Class::Contract`.
//!
//! General rules used below (call sites are in /quinn-proto/src):
//!  * decoders (`varint dec`, `frame dec|iter`, `header ciddec|dec`, `tparams read`, `ackscan scan|dec`) take bytes
//!    that arrive in a datagram / a TLS extension: `Peer` for every byte string that fits a datagram.
//!  * encoders are called by the local connection: `Local` when every value is one the real caller can
//!    compute (varint fields < 2^62, CIDs <= 20 bytes, sizes as `populate_packet` guarantees), `Probe`
//!    otherwise; the ACK encoder is `Peer` because its argument (the set of received packet numbers) is
//!    dictated by the peer.
//!  * "long haul" reachability (audit SD-10): quinn never bounds RECEIVED packet numbers by 2^62-1
//!    (`decrypt_packet_body`: `number = pn.expand(rx_packet + 1)`, then `rx_packet = number`, no check) and
//!    never bounds the distance next_pn - largest_acked.  A peer that holds the keys can advance `rx_packet` by up
//!    to 2^31 per authenticated packet, so after >= 2^31 packets (about 150 GB of minimum-size packets) the
//!    connection acknowledges numbers >= 2^62 and `Ack::encode` panics in `write_var(largest)`; after >= 2^33
//!    packets `expected + hwin` overflows in `PacketNumber::expand`.  These states are peer-reachable
//!    in principle, at a cost; `LONG_HAUL_PEER` decides whether the tracker counts them as `Peer`.
use crate::opclass::*;

/// Count states that need >= 2^31 authenticated packets of a misbehaving peer (SD-10) as peer-reachable.
/// `false` = only an RFC-conforming range of packet numbers (< 2^62, distance < 2^31) is `Peer`, the rest `Probe`.
///
/// Set to `false`: whether a RECEIVED packet number can leave the RFC range is no longer assumed here but decided
/// by the component `rxpn` (the real `decrypt_packet_body`; oracle `C03-rx-packet-number-above-2^62`) and proved
/// for the model in `Props/C03_total.lean::received_packet_numbers_stay_legal`; with the receive-side bound in
/// place an ACK of a number >= 2^62 is not reachable.  The SENDING-side long haul (`pn new` with
/// n - largest_acked >= 2^31: 2^31 unacknowledged ACK-only packets) stays a recorded finding
/// (known_findings: C03 pn-distance-2^31-panics), it is not judged by this tracker.
pub const LONG_HAUL_PEER: bool = false;

/// largest datagram a `PacketBuilder` can be asked to fill (`current_mtu()` is a u16)
const MAX_MTU: u64 = 65535;
/// transport parameters travel in a TLS extension (u16 length)
const MAX_TLS_EXT: u64 = 65535;
/// `PendingAcks::insert_one` keeps at most MAX_ACK_BLOCKS ranges
const MAX_ACK_RANGES: usize = 64;
/// `populate_acks`: delay = (ack_delay.as_micros() as u64) >> 3
const MAX_ACK_DELAY_FIELD: u64 = (1 << 61) - 1;
/// `poll_transmit` only writes a close frame when `buf.len() + ConnectionClose::SIZE_BOUND < max_size`
/// (mod.rs:826), so max_len = max_size - buf.len() >= SIZE_BOUND + 1; `Endpoint::initial_close` passes >= 1100
const MIN_CLOSE_MAX_LEN: u64 = 26;

pub fn tracker(comp: &str) -> Option<Box<dyn Tracker>> {
    Some(match comp {
        "varint" => Box::new(VarIntT),
        "pn" => Box::new(PnT),
        "frame" => Box::new(FrameT),
        "header" => Box::new(HeaderT),
        "tparams" => Box::new(TparamsT),
        "ackscan" => Box::new(AckScanT),
        _ => return None,
    })
}

fn long_haul() -> Class {
    if LONG_HAUL_PEER {
        Class::Peer
    } else {
        Class::Probe
    }
}

/// bytes off the wire: `Peer` when they fit `max` bytes, `Probe` when longer, `Contract` when not hex
fn wire_bytes(s: Option<&&str>, max: u64) -> Class {
    match s.and_then(|s| hexlen(s)) {
        None => Class::Contract,
        Some(l) if l as u64 <= max => Class::Peer,
        Some(_) => Class::Probe,
    }
}

fn unhex(s: &str) -> Option<Vec<u8>> {
    let l = hexlen(s)?;
    (0..l).map(|i| u8::from_str_radix(&s[2 * i..2 * i + 2], 16).ok()).collect()
}

/// in-range ? yes : Probe
fn probe_unless(ok: bool, yes: Class) -> Class {
    if ok {
        yes
    } else {
        Class::Probe
    }
}

// ------------------------------------------------------------------------------------------------ varint

/// * `enc <x>`  Local for every u64: the executor calls the PUBLIC checked constructor `VarInt::from_u64`
///              (error for x >= 2^62) and encodes only a constructed `VarInt`.
/// * `dec <hex>` Peer: `VarInt::decode` is the first thing every frame / parameter decoder does with wire bytes.
struct VarIntT;
impl Tracker for VarIntT {
    fn classify(&mut self, w: &[&str]) -> Class {
        match w.get(1).copied() {
            Some("enc") if w.len() == 3 => when(n(w, 2).is_some(), Class::Local),
            Some("dec") if w.len() == 3 => wire_bytes(w.get(2), MAX_UDP),
            _ => Class::Contract,
        }
    }
}

// ------------------------------------------------------------------------------------------------ pn

/// * `new <n> <largest_acked>`  `PacketNumber::new`, called by `PacketBuilder::new` (packet_builder.rs:89) and
///   `predict_1rtt_overhead` (mod.rs:3844) with n = next packet number (`get_tx_number` asserts n < 2^62) and
///   largest_acked = `largest_acked_packet.unwrap_or(0)`, which `on_ack_received` keeps < next_packet_number
///   ("unsent packet acked").  So la <= n < 2^62 is what the callers guarantee: Peer (the gap is dictated by
///   which packets the peer acknowledges).  n - la >= 2^31 (panic "packet number too large to encode") needs a
///   peer that withholds acknowledgements while the connection sends 2^31 packets: long haul.
///   la > n or n >= 2^62: Probe.
/// * `expand <hex 1..4 bytes> <expected>`  `PacketNumber::expand`, called by `decrypt_packet_body`
///   (packet_crypto.rs:83) with expected = rx_packet + 1 and by `Endpoint::handle_first_packet` (endpoint.rs:551)
///   with expected = 0.  rx_packet is the largest authenticated number, which is never bounded (SD-10):
///   expected <= 2^62 Peer; expected > 2^62 long haul.
struct PnT;
impl Tracker for PnT {
    fn classify(&mut self, w: &[&str]) -> Class {
        match w.get(1).copied() {
            Some("new") if w.len() == 4 => {
                let (Some(pn), Some(la)) = (n(w, 2), n(w, 3)) else { return Class::Contract };
                if la > pn || pn > VARINT_MAX {
                    Class::Probe
                } else if pn - la >= 1 << 31 {
                    // the SENDING side: a peer that withholds acknowledgements and elicits 2^31 ACK-only packets gets
                    // here at a cost (recorded finding, re-observed from corpus/pn/long-haul-2p31.ops on every run)
                    Class::Peer
                } else {
                    Class::Peer
                }
            }
            Some("expand") if w.len() == 4 => {
                let (Some(l), Some(e)) = (hexlen(w[2]), n(w, 3)) else { return Class::Contract };
                if l == 0 || l > 4 {
                    return Class::Contract; // bad-op
                }
                if e <= VARINT_MAX + 1 {
                    Class::Peer
                } else {
                    long_haul()
                }
            }
            _ => Class::Contract,
        }
    }
}

// ------------------------------------------------------------------------------------------------ frame

/// * `dec <hex>` / `iter <hex>`  Peer: `frame::Iter` over a decrypted packet payload (mod.rs process_payload /
///   process_early_payload); the payload is any byte string that fits a datagram (empty included: `Iter::new`
///   answers PROTOCOL_VIOLATION).
/// * `enc <frame>` / `enclast <frame>` / `encclose <max_len> <frame>`: the encoders, see `frame_enc`.
struct FrameT;
impl Tracker for FrameT {
    fn classify(&mut self, w: &[&str]) -> Class {
        match w.get(1).copied() {
            Some("dec") | Some("iter") if w.len() == 3 => wire_bytes(w.get(2), MAX_UDP),
            Some("enc") | Some("enclast") => frame_enc(&w[2..], None),
            Some("encclose") => match n(w, 2) {
                Some(m) => frame_enc(&w[3..], Some(m)),
                None => Class::Contract,
            },
            _ => Class::Contract,
        }
    }
}

/// payload a local encoder can be handed: at most one datagram
fn data_ok(s: &str) -> Option<bool> {
    Some(hexlen(s)? as u64 <= MAX_MTU)
}

/// Class of one encoder call.  `None` results of the parsers = the executor answers `bad-op` = Contract.
///
/// | frame text                               | class | real caller and its guarantee                                   |
/// |------------------------------------------|-------|-----------------------------------------------------------------|
/// | padding ping immediate_ack handshake_done| Local | `populate_packet`: one type byte                                  |
/// | ack largest delay first blocks ecn       | Peer  | `populate_acks` -> `Ack::encode(delay, pending_acks.ranges(), ecn)`: the ranges are the packet numbers the peer sent (non-empty, <= 64 ranges); delay = micros >> 3 < 2^61; ecn = counts of received packets. largest >= 2^62: long haul (SD-10). ill-formed chain (executor answers `err illformed` without calling), > 64 ranges, delay / ecn out of range: Probe |
/// | reset_stream id code final               | Local | `write_control_frames`: id of an existing send stream, `VarInt` code from `SendStream::reset`, final = `stream.offset()` (`VarInt::try_from(..).expect`). >= 2^62: Probe |
/// | stop_sending id code                     | Local | `write_control_frames`: `frame::StopSending` queued by `RecvStream::stop(VarInt)` |
/// | crypto off data                          | Local | `populate_packet`: offset of handshake bytes produced locally, data <= 2^14-1 per frame |
/// | new_token t                              | Local | `populate_packet`: token produced by `Token::encode`             |
/// | stream id off fin data                   | Local | `write_stream_frames` -> `StreamMeta::encode`: id of an open send stream, offsets inside the peer's flow control credit (a varint): off + len <= 2^62-1 |
/// | max_data v, ack_frequency s t d r        | Local | fields are `VarInt`s (MAX_DATA is clamped with `unwrap_or(VarInt::MAX)`); >= 2^62 cannot be constructed (`err bounds`): Probe |
/// | max_stream_data id off                   | Local | `write_control_frames`: off = bytes_read + stream_receive_window; >= 2^62 needs >= 2^59 bytes read on one stream (transmit threshold window/8): Probe |
/// | max_streams dir c                        | Local | `write_control_frames`: `max_remote[dir]` = configured limit + streams closed so far; >= 2^62: Probe |
/// | data_blocked, stream_data_blocked        | Local | never sent by quinn (no call site); a hypothetical caller passes flow control limits < 2^62 |
/// | streams_blocked dir c                    | Local | `write_control_frames`: `self.max[dir]`, a limit the peer sent in a varint |
/// | new_cid seq retire cid tok               | Local | `populate_packet`: `issued.sequence` / `local_cid_state.retire_prior_to()` count CIDs issued locally; cid from the generator (<= 20 bytes) |
/// | retire_cid seq                           | Local | `populate_packet`: a sequence number taken from the peer's NEW_CONNECTION_ID (varint) |
/// | path_challenge t, path_response t        | Local | 8 raw bytes: a random token / the echo of the peer's token, every u64 |
/// | close_conn code ty reason, close_app code reason | Local | `Close::encode(buf, max_len)`: `poll_transmit` guarantees max_len >= 26 (mod.rs:826), `Endpoint::initial_close` >= 1100; code / frame type are varints (the frame type of a `TransportError` is the type the PEER sent: any value < 2^62), the reason of `Connection::close` is any `Bytes`. max_len < 26: Probe (the executor bypasses the guard in `poll_transmit`) |
/// | datagram d                               | Local | `DatagramState::write` -> `Datagram::encode(true, ..)`; the length-less form has no call site but is the documented `length: bool` argument |
fn frame_enc(f: &[&str], max_len: Option<u64>) -> Class {
    let num = |i: usize| f.get(i).and_then(|s| s.parse::<u64>().ok());
    // every listed position parses; in range iff all are varints
    let vars = |idx: &[usize]| -> Option<bool> {
        let mut ok = true;
        for &i in idx {
            ok &= num(i)? <= VARINT_MAX;
        }
        Some(ok)
    };
    // (`max_len` only matters for the two close frames; the executor ignores it for the others)
    let in_range: Option<bool> = match f {
        ["padding"] | ["ping"] | ["immediate_ack"] | ["handshake_done"] => Some(true),
        ["ack", ..] if f.len() == 6 => return ack_enc_class(f),
        ["reset_stream", _, _, _] => vars(&[1, 2, 3]),
        ["stop_sending", _, _] => vars(&[1, 2]),
        ["crypto", _, d] => (|| {
            let (off, l) = (num(1)?, hexlen(d)? as u64);
            Some(off <= VARINT_MAX && off + l <= VARINT_MAX && data_ok(d)?)
        })(),
        ["new_token", t] => data_ok(t),
        ["stream", _, _, fin, d] => (|| {
            if *fin != "0" && *fin != "1" {
                return None;
            }
            let (id, off, l) = (num(1)?, num(2)?, hexlen(d)? as u64);
            Some(id <= VARINT_MAX && off <= VARINT_MAX && off + l <= VARINT_MAX && data_ok(d)?)
        })(),
        ["max_data", _] | ["data_blocked", _] | ["retire_cid", _] => vars(&[1]),
        ["max_stream_data", _, _] | ["stream_data_blocked", _, _] => vars(&[1, 2]),
        ["max_streams", d, _] | ["streams_blocked", d, _] => {
            if *d == "bi" || *d == "uni" {
                vars(&[2])
            } else {
                None
            }
        }
        ["new_cid", _, _, cid, tok] => (|| {
            if hexlen(cid)? > 20 || hexlen(tok)? != 16 {
                return None;
            }
            vars(&[1, 2])
        })(),
        ["path_challenge", _] | ["path_response", _] => num(1).map(|_| true),
        ["close_conn", _, ty, reason] => (|| {
            let ty_ok = if *ty == "-" { true } else { num(2)? <= VARINT_MAX };
            hexlen(reason)?;
            Some(ty_ok && num(1)? <= VARINT_MAX && max_len.map_or(true, |m| m >= MIN_CLOSE_MAX_LEN))
        })(),
        ["close_app", _, reason] => (|| {
            hexlen(reason)?;
            Some(num(1)? <= VARINT_MAX && max_len.map_or(true, |m| m >= MIN_CLOSE_MAX_LEN))
        })(),
        ["datagram", d] => data_ok(d),
        ["ack_frequency", _, _, _, _] => vars(&[1, 2, 3, 4]),
        _ => None,
    };
    match in_range {
        None => Class::Contract,
        Some(ok) => probe_unless(ok, Class::Local),
    }
}

/// `ack <largest> <delay> <first> <gap:len,...|-> <a:b:c|->` (see the table at `frame_enc`)
fn ack_enc_class(f: &[&str]) -> Class {
    let p = |s: &str| s.parse::<u64>().ok();
    let (Some(largest), Some(delay), Some(first)) = (p(f[1]), p(f[2]), p(f[3])) else {
        return Class::Contract;
    };
    let mut pairs = Vec::new();
    if f[4] != "-" {
        for x in f[4].split(',') {
            let Some((g, l)) = x.split_once(':') else { return Class::Contract };
            let (Some(g), Some(l)) = (p(g), p(l)) else { return Class::Contract };
            pairs.push((g, l));
        }
    }
    let mut ecn_ok = true;
    if f[5] != "-" {
        let v: Vec<&str> = f[5].split(':').collect();
        if v.len() != 3 {
            return Class::Contract;
        }
        for x in v {
            let Some(x) = p(x) else { return Class::Contract };
            ecn_ok &= x <= VARINT_MAX;
        }
    }
    // the executor builds the ranges with checked arithmetic and answers `err illformed` without calling
    // `Ack::encode` when the chain leaves [0, u64::MAX]
    let chain = (|| {
        largest.checked_add(1)?;
        let mut start = largest.checked_sub(first)?;
        for &(g, l) in &pairs {
            let hi = start.checked_sub(g)?.checked_sub(2)?;
            start = hi.checked_sub(l)?;
        }
        Some(())
    })();
    if chain.is_none() || pairs.len() + 1 > MAX_ACK_RANGES || delay > MAX_ACK_DELAY_FIELD || !ecn_ok {
        return Class::Probe;
    }
    if largest > VARINT_MAX {
        long_haul()
    } else {
        Class::Peer
    }
}

// ------------------------------------------------------------------------------------------------ header

/// * `cidenc <cid>`  Local: `ConnectionId::encode_long` inside `Header::encode`; a `ConnectionId` holds <= 20 bytes
///   (longer: `bad-op`).
/// * `ciddec <hex>`  Peer: `ConnectionId::decode_long` on the bytes behind the version field of a long header.
/// * `enc <hdr>`     Local: `Header::encode` from `PacketBuilder::new`, `Endpoint::{initial_close, send_retry..}`;
///   every `Header` value is legal (token = whatever the server / a Retry supplied).
/// * `pkt <payload> <hdr>`  Local: `Header::encode` + `PartialEncode::finish`, called by `PacketBuilder::finish`
///   on header ++ frames ++ tag.  Guarantees of the caller: (1) pn_len + payload >= 4 + sample_size
///   (`PacketBuilder::new` computes `min_size`, `finish` pads): below 4 bytes the debug assertion on the
///   sampling range fires: Probe, the executor bypasses the padding; (2) the datagram is at most
///   `current_mtu()` <= 65535 bytes: longer is Probe.  There is NO guarantee that a long-header packet
///   stays below 2^14 bytes: `TransportConfig::initial_mtu(u16)` / `min_mtu(u16)` accept every value
///   >= 1200 and the Initial / Handshake / 0-RTT builders fill the packet up to the MTU, so
///   `assert!(len < 2usize.pow(14))` (packet.rs:485) is reachable inside the API contract -> Local.
/// * `dec <cidlen> <grease> <versions> <hex>`  Peer: `PartialDecode::new` on a received datagram
///   (`Endpoint::handle`) or on the coalesced remainder (`Connection::handle_coalesced`); cidlen <= 20 is
///   the local CID generator, versions / grease the local `EndpointConfig`.
struct HeaderT;
impl Tracker for HeaderT {
    fn classify(&mut self, w: &[&str]) -> Class {
        match w.get(1).copied() {
            Some("cidenc") if w.len() == 3 => when(hexlen(w[2]).is_some_and(|l| l <= 20), Class::Local),
            Some("ciddec") if w.len() == 3 => wire_bytes(w.get(2), MAX_UDP),
            Some("enc") => when(header_text(&w[2..]).is_some(), Class::Local),
            Some("pkt") if w.len() >= 3 => {
                let (Some(pl), Some((pn_len, extra))) = (hexlen(w[2]), header_text(&w[3..])) else {
                    return Class::Contract;
                };
                let sampled = pn_len == 0 || pn_len + pl >= 4;
                // 64 >= flags + version + two long cids + token length + length + pn
                probe_unless(sampled && (pl + extra + 64) as u64 <= MAX_MTU, Class::Local)
            }
            Some("dec") if w.len() == 6 => {
                let ok = n(w, 2).is_some_and(|c| c <= 20)
                    && (w[3] == "0" || w[3] == "1")
                    && (w[4] == "-" || w[4].split(',').all(|v| v.parse::<u32>().is_ok()));
                if !ok {
                    return Class::Contract;
                }
                wire_bytes(w.get(5), MAX_UDP)
            }
            _ => Class::Contract,
        }
    }

    /// The recorded finding `C10-panic-on-api-call.header.pkt@packet:assertion-failed-len-Nusize-pow-N` needs a
    /// long-header packet of 2^14 bytes or more, i.e. a configured MTU above 16383 (not the default): payloads
    /// that can reach that size (with up to 64 header bytes) are their own class, so the same assertion failing on
    /// a packet that fits a 14-bit length is a different key.
    fn config_class(&self, w: &[&str]) -> Option<String> {
        if w.get(1).copied() != Some("pkt") {
            return None;
        }
        let pl = hexlen(w.get(2)?)?;
        let extra = header_text(w.get(3..)?).map_or(0, |x| x.1);
        (pl + extra + 64 >= 1 << 14).then(|| "mtu-ge-2^14".to_string())
    }
}

/// well-formed `<hdr>` text -> (packet number length or 0, token length)
fn header_text(h: &[&str]) -> Option<(usize, usize)> {
    let cid = |s: &str| hexlen(s).filter(|&l| l <= 20);
    let ver = |s: &str| s.parse::<u32>().ok();
    let flag = |s: &str| (s == "0" || s == "1").then_some(());
    let pn = |l: &str, v: &str| -> Option<usize> {
        let l: usize = l.parse().ok()?;
        let v: u64 = v.parse().ok()?;
        ((1..=4).contains(&l) && v < 1u64 << (8 * l)).then_some(l)
    };
    match h {
        ["initial", v, d, s, t, l, x] => {
            ver(v)?;
            cid(d)?;
            cid(s)?;
            Some((pn(l, x)?, hexlen(t)?))
        }
        ["handshake" | "zerortt", v, d, s, l, x] => {
            ver(v)?;
            cid(d)?;
            cid(s)?;
            Some((pn(l, x)?, 0))
        }
        ["retry", v, d, s] => {
            ver(v)?;
            cid(d)?;
            cid(s)?;
            Some((0, 0))
        }
        ["short", spin, kp, d, l, x] => {
            flag(spin)?;
            flag(kp)?;
            cid(d)?;
            Some((pn(l, x)?, 0))
        }
        ["vn", r, d, s] => {
            r.parse::<u8>().ok()?;
            cid(d)?;
            cid(s)?;
            Some((0, 0))
        }
        _ => None,
    }
}

// ------------------------------------------------------------------------------------------------ tparams

/// * `read <client|server> <hex>`  Peer: `TransportParameters::read` on the peer's TLS extension
///   (crypto/rustls.rs `transport_parameters()`), any byte string up to the extension size.
/// * `write <order> <grease> <20 fields>`  Local: `TransportParameters::write` on the value built by
///   `TransportParameters::new` (+ the server-only fields set in `Endpoint::accept`) or on a value obtained from
///   `read`.  Guarantees: every integer is a `VarInt` (others: `bad-op`); `write_order` is None or a PERMUTATION
///   of 0..=20 (`order.shuffle(rng)`): an index >= 21 (panic: index out of bounds in `SUPPORTED[idx]`) or a
///   repeated index is Probe; the reserved parameter is `ReservedTransportParameter::random`: id = 31*N+27, payload
///   0..=15 bytes: anything else Probe.
struct TparamsT;
impl Tracker for TparamsT {
    fn classify(&mut self, w: &[&str]) -> Class {
        match w.get(1).copied() {
            Some("read") if w.len() == 4 => {
                if w[2] != "client" && w[2] != "server" {
                    return Class::Contract;
                }
                wire_bytes(w.get(3), MAX_TLS_EXT)
            }
            Some("write") if w.len() == 24 => {
                if !tparams_fields(&w[4..]) {
                    return Class::Contract;
                }
                let order_ok = if w[2] == "-" {
                    true
                } else {
                    let v: Vec<Option<u8>> = w[2].split(',').map(|x| x.parse().ok()).collect();
                    if v.len() != 21 || v.iter().any(|x| x.is_none()) {
                        return Class::Contract;
                    }
                    let mut seen = [false; 21];
                    v.iter().flatten().all(|&i| (i as usize) < 21 && !std::mem::replace(&mut seen[i as usize], true))
                };
                let grease_ok = if w[3] == "-" {
                    true
                } else {
                    let Some((id, payload)) = w[3].split_once(':') else { return Class::Contract };
                    let (Some(id), Some(l)) = (id.parse::<u64>().ok(), hexlen(payload)) else {
                        return Class::Contract;
                    };
                    if id > VARINT_MAX || l > 16 {
                        return Class::Contract;
                    }
                    id % 31 == 27 && l <= 15
                };
                probe_unless(order_ok && grease_ok, Class::Local)
            }
            _ => Class::Contract,
        }
    }
}

/// the 20 fields parse as the executor's `parse_fields` demands
fn tparams_fields(f: &[&str]) -> bool {
    let var = |s: &str| s.parse::<u64>().is_ok_and(|x| x <= VARINT_MAX);
    let flag = |s: &str| s == "0" || s == "1";
    let opt = |s: &str, g: &dyn Fn(&str) -> bool| s == "none" || g(s);
    let cid = |s: &str| hexlen(s).is_some_and(|l| l <= 20);
    let tok = |s: &str| hexlen(s) == Some(16);
    let addr = |s: &str, iplen: usize| {
        s == "none"
            || s.split_once('/').is_some_and(|(ip, p)| hexlen(ip) == Some(iplen) && p.parse::<u16>().is_ok())
    };
    let pa = |s: &str| {
        let v: Vec<&str> = s.split(',').collect();
        v.len() == 4 && addr(v[0], 4) && addr(v[1], 16) && cid(v[2]) && tok(v[3])
    };
    f.len() == 20
        && f[..11].iter().all(|s| var(s))
        && flag(f[11])
        && opt(f[12], &var)
        && opt(f[13], &cid)
        && flag(f[14])
        && opt(f[15], &var)
        && opt(f[16], &cid)
        && opt(f[17], &cid)
        && opt(f[18], &tok)
        && opt(f[19], &pa)
}

// ------------------------------------------------------------------------------------------------ ackscan

/// * `scan <largest> <n> <hex>`  Peer: `scan_ack_blocks(&self.bytes, largest, extra_blocks)` in the ACK arm of
///   `Iter::try_next`: largest and n were read with `get_var` (< 2^62), the buffer is the rest of the payload.
///   largest / n >= 2^62: Probe.
/// * `iter <largest> <hex>`  `AckIter` over `Ack::additional`.  The only constructor of a `frame::Ack` is that
///   same arm, with `additional = bytes.split_to(scan_ack_blocks(..)?)`: the bytes are a complete chain
///   first, (gap, block)* that never goes below zero (RFC 9000 19.3.1).  Peer only for such bytes (checked
///   here on the op's own arguments, `ack_chain_valid`); on anything else the executor bypasses
///   `scan_ack_blocks` (AckIter `unwrap`s / subtracts unchecked): Probe.
/// * `dec <hex>`  Peer: `frame::Iter` on a payload starting with an ACK / ACK_ECN type byte.
/// * `enc <delay> <ecn> <ranges>`  Peer, `Ack::encode` as in the `frame` table: non-empty (`populate_acks` is only
///   called when `pending_acks.ranges()` is non-empty: `can_send()` / mod.rs:808), <= 64 ranges, delay < 2^61,
///   ecn counts < 2^62; largest >= 2^62 long haul; otherwise Probe.
struct AckScanT;
impl Tracker for AckScanT {
    fn classify(&mut self, w: &[&str]) -> Class {
        match w.get(1).copied() {
            Some("scan") if w.len() == 5 => {
                let (Some(largest), Some(cnt)) = (n(w, 2), n(w, 3)) else { return Class::Contract };
                match wire_bytes(w.get(4), MAX_UDP) {
                    Class::Peer => probe_unless(largest <= VARINT_MAX && cnt <= VARINT_MAX, Class::Peer),
                    c => c,
                }
            }
            Some("iter") if w.len() == 4 => {
                let (Some(largest), Some(b)) = (n(w, 2), unhex(w[3])) else { return Class::Contract };
                probe_unless(
                    largest <= VARINT_MAX && b.len() as u64 <= MAX_UDP && ack_chain_valid(largest, &b),
                    Class::Peer,
                )
            }
            Some("dec") if w.len() == 3 => {
                let Some(b) = unhex(w[2]) else { return Class::Contract };
                if b.is_empty() || (b[0] != 2 && b[0] != 3) {
                    return Class::Contract; // bad-op
                }
                probe_unless(b.len() as u64 <= MAX_UDP, Class::Peer)
            }
            Some("enc") if w.len() == 5 => {
                let Some(delay) = n(w, 2) else { return Class::Contract };
                let mut ecn_ok = true;
                if w[3] != "none" {
                    let v: Vec<Option<u64>> = w[3].split(',').map(|x| x.parse().ok()).collect();
                    if v.len() != 3 || v.iter().any(|x| x.is_none()) {
                        return Class::Contract;
                    }
                    ecn_ok = v.iter().flatten().all(|&x| x <= VARINT_MAX);
                }
                if w[4] == "-" {
                    return Class::Probe; // empty set: `rest.next().unwrap()`; the callers check non-emptiness
                }
                let (mut prev_end, mut count) = (None::<u64>, 0usize);
                for r in w[4].split(',') {
                    let Some((s, e)) = r.split_once('-') else { return Class::Contract };
                    let (Some(s), Some(e)) = (s.parse::<u64>().ok(), e.parse::<u64>().ok()) else {
                        return Class::Contract;
                    };
                    if s >= e || prev_end.is_some_and(|p| p >= s) {
                        return Class::Contract;
                    }
                    prev_end = Some(e);
                    count += 1;
                }
                if count > 256 {
                    return Class::Contract;
                }
                let largest = prev_end.unwrap_or(1) - 1;
                if count > MAX_ACK_RANGES || delay > MAX_ACK_DELAY_FIELD || !ecn_ok {
                    Class::Probe
                } else if largest > VARINT_MAX {
                    long_haul()
                } else {
                    Class::Peer
                }
            }
            _ => Class::Contract,
        }
    }
}

/// QUIC varint at the front of `b` -> (value, rest)
fn get_var(b: &[u8]) -> Option<(u64, &[u8])> {
    let first = *b.first()?;
    let len = 1usize << (first >> 6);
    if b.len() < len {
        return None;
    }
    let mut x = (first & 0x3f) as u64;
    for &y in &b[1..len] {
        x = (x << 8) | y as u64;
    }
    Some((x, &b[len..]))
}

/// `b` is exactly what `scan_ack_blocks(b, largest, k)` accepts for some k, consuming all of it
/// (RFC 9000 19.3.1: First ACK Range, then (Gap, ACK Range Length)*, every range start >= 0)
fn ack_chain_valid(largest: u64, b: &[u8]) -> bool {
    let Some((first, mut rest)) = get_var(b) else { return false };
    let Some(mut smallest) = largest.checked_sub(first) else { return false };
    while !rest.is_empty() {
        let Some((gap, r)) = get_var(rest) else { return false };
        let Some((block, r)) = get_var(r) else { return false };
        let Some(s) = smallest.checked_sub(gap + 2).and_then(|s| s.checked_sub(block)) else {
            return false;
        };
        smallest = s;
        rest = r;
    }
    true
}
