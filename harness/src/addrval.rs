//! C07: the harness' OWN notion of "this peer address is validated", per connection, for the generic anti-amplification
//! oracle of the simulator (`Sim::on_transmit`) and for the `amp` trace operations.
//!
//! Nothing here reads quinn's `PathData::validated`, `Incoming::remote_address_validated()` or any other state of the
//! endpoint whose sends are judged. RFC 9000 8.1 / the property text list the causes; each is OBSERVED from what the
//! PEER put on the wire (its plaintext transmit log, hooks `verif_txlog` + `verif_txmeta`, read without consuming
//! them) and from which datagrams the simulator handed to the connection:
//!   * Handshake packet: a packet that the peer's connection built in the Handshake packet number space (its own
//!     record: `TxPkt::space == 1`) is, byte for byte, inside a datagram handed to the connection (`handle_event`
//!     was called with it; coalesced packets are walked by their cleartext length fields). Possession of Handshake
//!     keys proves that the peer received the server's first flight, i.e. that it reads what is sent to the address
//!     the flight went to — whatever source address the proof itself arrives from (RFC 9000 8.1: "once an endpoint
//!     has successfully processed a Handshake packet from the peer, it can consider the peer address to have been
//!     validated"). So the address validated is the one the connection was CREATED from (the source of the datagram
//!     that `Endpoint::handle` turned into this connection), plus the datagram's own source.
//!   * Retry token: the Initial that creates the connection carries, in its cleartext token field, a token the endpoint
//!     put into a Retry packet addressed to that source (`crate::ledger::DestLedger` keeps the Retry packets seen on the
//!     wire).
//!   * NEW_TOKEN token: that Initial carries exactly the token bytes of a NEW_TOKEN frame which a connection of this
//!     node sent (the server's plaintext log) to the IP address the Initial comes from.
//!     Both are judged per datagram: a token validates the connection its Initial creates, nothing else.
//!   * path challenge: a packet of the peer carrying PATH_RESPONSE(x) (the peer's plaintext log) is inside a datagram
//!     handed to the connection, and this connection sent PATH_CHALLENGE(x) in a datagram to address D (its own
//!     plaintext log + the `Transmit::destination`): D is validated (RFC 9000 8.2.3: a response received on any path
//!     validates the path the challenge was sent on).
//!   * a client needs none: it chose the address (`client`).
//! The set only grows: returning to an address validated earlier needs no new proof (RFC 9000 8.2 allows skipping it).
use std::collections::{HashMap, HashSet, VecDeque};
use std::net::{IpAddr, SocketAddr};

use quinn_proto::Connection;

use crate::ledger::long_packet;

/// What the sender's own record says about one packet it built (only packets that can validate something are kept)
#[derive(Clone, Debug, Default)]
struct PktFact {
    node: usize,
    handshake: bool,
    responses: Vec<u64>,
}

/// What a datagram handed to a connection contains, according to the sender's record of the packets in it
#[derive(Clone, Debug, Default, PartialEq, Eq)]
pub struct RxFact {
    /// an authentic Handshake-space packet of the peer
    pub handshake: bool,
    /// tokens of the PATH_RESPONSE frames of authentic packets of the peer
    pub responses: Vec<u64>,
}

#[derive(Default)]
pub struct AddrVal {
    facts: HashMap<Vec<u8>, PktFact>,
    /// per connection: (token, destination of the datagram) of every PATH_CHALLENGE it sent
    challenges: HashMap<(usize, usize), Vec<(u64, SocketAddr)>>,
    /// per node: NEW_TOKEN tokens its connections sent, with the IP address they were sent to
    new_tokens: HashMap<usize, Vec<(Vec<u8>, IpAddr)>>,
    marks: HashMap<(usize, usize), VecDeque<RxFact>>,
    validated: HashMap<(usize, usize), HashSet<SocketAddr>>,
    created_from: HashMap<(usize, usize), SocketAddr>,
    clients: HashSet<(usize, usize)>,
    /// evidence: datagrams judged by the 3x oracle of `Sim::on_transmit`, and how many of them while the connection's own
    /// `path.validated` was already true (where the oracle used to be switched off)
    pub judged: u64,
    pub judged_code_validated: u64,
    /// evidence counters
    pub by_handshake: u64,
    pub by_response: u64,
    pub by_token: u64,
    pub misaligned: u64,
    /// Handshake packets known only from the header the sender wrote (no packet record: sent outside `on_tx`)
    pub by_header_bits_only: u64,
    records: u64,
}

fn numbers_after(line: &str, pat: &str) -> Vec<u64> {
    let mut out = Vec::new();
    let mut rest = line;
    while let Some(i) = rest.find(pat) {
        rest = &rest[i + pat.len()..];
        let n: String = rest.chars().take_while(|c| c.is_ascii_digit()).collect();
        if let Ok(v) = n.parse() {
            out.push(v);
        }
    }
    out
}

/// The packets of a datagram as a receiver finds them: long-header packets by their cleartext Length, the rest
/// (short header, or anything unparsable) as one slice
pub fn split_packets(d: &[u8]) -> Vec<&[u8]> {
    let mut out = Vec::new();
    let mut off = 0;
    while off < d.len() {
        match long_packet(&d[off..]) {
            Some((_, _, _, Some(end))) if end > 0 => {
                out.push(&d[off..off + end]);
                off += end;
            }
            _ => {
                out.push(&d[off..]);
                break;
            }
        }
    }
    out
}

impl AddrVal {
    /// Switch on the peer-side records this module reads (idempotent; recording never changes behaviour)
    pub fn enable(conn: &mut Connection) {
        conn.verif_txlog_enable();
        conn.verif_txmeta_enable();
    }

    /// `Endpoint::connect`: the connection chose its peer's address
    pub fn client(&mut self, node: usize, ch: usize) {
        self.clients.insert((node, ch));
    }

    /// `Endpoint::accept` of an `Incoming` whose first datagram came from `from`; `token`: that very datagram's Initial
    /// carried a token this endpoint had issued for the address (Retry token seen on the wire, `DestLedger`; NEW_TOKEN
    /// token, `initial_carries_new_token`)
    pub fn accepted(&mut self, node: usize, ch: usize, from: SocketAddr, token: bool) {
        self.created_from.insert((node, ch), from);
        if token {
            self.validated.entry((node, ch)).or_default().insert(from);
            self.by_token += 1;
        }
    }

    /// Does this datagram start with an Initial whose cleartext token field holds exactly the bytes of a NEW_TOKEN frame
    /// that a connection of `node` sent to the IP address the datagram comes from?
    pub fn initial_carries_new_token(&self, node: usize, from: SocketAddr, data: &[u8]) -> bool {
        match long_packet(data) {
            Some((0, v, token, _)) => v != 0 && !token.is_empty() && self.new_tokens.get(&node).is_some_and(|ts| ts.iter().any(|(t, ip)| *t == token && *ip == from.ip())),
            _ => false,
        }
    }

    /// Right after the `poll_transmit` of (node, ch) that returned `t` (before anything consumes the records)
    pub fn on_tx(&mut self, node: usize, ch: usize, conn: &Connection, t: &quinn_proto::Transmit, buf: &[u8]) {
        let pkts = conn.verif_peek_txpkts();
        let lines = conn.verif_peek_txlog();
        for tok in conn.verif_peek_new_tokens() {
            let e = self.new_tokens.entry(node).or_default();
            if !e.iter().any(|(x, ip)| x == tok && *ip == t.destination.ip()) {
                e.push((tok.clone(), t.destination.ip()));
            }
        }
        // lines and packet records are produced together, one per packet: pair them from the end (a record may be
        // present without a line when only the meta data hook was on before `enable`)
        let skew = lines.len() as isize - pkts.len() as isize;
        for (k, m) in pkts.iter().enumerate() {
            let line = usize::try_from(k as isize + skew).ok().and_then(|i| lines.get(i)).map(String::as_str).unwrap_or("");
            let line_ok = line.starts_with(&format!("{} {}:", m.space, m.pn));
            let aligned = m.len > 0 && m.start + m.len <= t.size && buf.get(m.start).is_some_and(|b| (b & 0x80 != 0) == m.long_header);
            if !aligned {
                self.misaligned += 1;
                continue;
            }
            self.records += 1;
            let challenges = if line_ok && m.frame_types.contains(&0x1a) { numbers_after(line, "PathChallenge(") } else { Vec::new() };
            for c in challenges {
                self.challenges.entry((node, ch)).or_default().push((c, t.destination));
            }
            let responses = if line_ok && m.frame_types.contains(&0x1b) { numbers_after(line, "PathResponse(") } else { Vec::new() };
            if m.space == 1 || !responses.is_empty() {
                self.facts.insert(buf[m.start..m.start + m.len].to_vec(), PktFact { node, handshake: m.space == 1, responses });
            }
        }
    }

    /// Every datagram a real endpoint of the simulation (`origin`) puts on the wire, including those a scenario obtains by
    /// calling `poll_transmit` itself (e.g. the closing datagram right after `close()`), which never pass `on_tx`: the
    /// packets the SENDER typed as Handshake in the cleartext long header it wrote are recorded as its Handshake packets
    /// (the property's own observation point: "cleartext long-header type bits, walking coalesced packets")
    pub fn on_wire(&mut self, origin: usize, data: &[u8]) {
        for p in split_packets(data) {
            if let Some((2, v, _, Some(_))) = long_packet(p) {
                if v != 0 && !self.facts.contains_key(p) {
                    self.facts.insert(p.to_vec(), PktFact { node: origin, handshake: true, responses: Vec::new() });
                    self.by_header_bits_only += 1;
                }
            }
        }
    }

    /// the datagram was routed to connection `ch` of `node` (its event was queued)
    pub fn routed(&mut self, node: usize, ch: usize, data: &[u8]) {
        let mut f = RxFact::default();
        for p in split_packets(data) {
            if let Some(x) = self.facts.get(p) {
                if x.node != node {
                    f.handshake |= x.handshake;
                    f.responses.extend(x.responses.iter().copied());
                }
            }
        }
        self.marks.entry((node, ch)).or_default().push_back(f);
    }

    /// the connection handled (`handle_event`) the oldest queued datagram, which came from `from`
    pub fn handled(&mut self, node: usize, ch: usize, from: SocketAddr) -> RxFact {
        let f = self.marks.get_mut(&(node, ch)).and_then(|q| q.pop_front()).unwrap_or_default();
        if f.handshake {
            let created = self.created_from.get(&(node, ch)).copied();
            let v = self.validated.entry((node, ch)).or_default();
            let mut grew = v.insert(from);
            if let Some(c) = created {
                grew |= v.insert(c);
            }
            if grew {
                self.by_handshake += 1;
            }
        }
        for r in &f.responses {
            let dsts: Vec<SocketAddr> = self.challenges.get(&(node, ch)).map(|cs| cs.iter().filter(|(t, _)| t == r).map(|(_, d)| *d).collect()).unwrap_or_default();
            for d in dsts {
                if self.validated.entry((node, ch)).or_default().insert(d) {
                    self.by_response += 1;
                }
            }
        }
        f
    }

    /// Has any sender's record been read yet (are the hooks on for the connections of this execution)?
    pub fn recording(&self) -> bool {
        self.records > 0
    }

    /// does `f` answer a PATH_CHALLENGE that connection (node, ch) sent to `dst`?
    pub fn answers_challenge_to(&self, node: usize, ch: usize, f: &RxFact, dst: &SocketAddr) -> bool {
        self.challenges.get(&(node, ch)).is_some_and(|cs| cs.iter().any(|(t, d)| d == dst && f.responses.contains(t)))
    }

    /// May connection (node, ch) treat `dst` as a validated address, by what the harness has seen?
    pub fn is_validated(&self, node: usize, ch: usize, dst: &SocketAddr) -> bool {
        self.clients.contains(&(node, ch)) || self.validated.get(&(node, ch)).is_some_and(|v| v.contains(dst))
    }
}
