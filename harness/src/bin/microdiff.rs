//! microdiff <component> <seed> <ncases> <maxops> <outprefix>
//! Writes <outprefix>.ops (request lines), <outprefix>.impl (implementation responses) and
//! <outprefix>.stats (key=value lines, consumed by tools/check.py).
use std::{env, fs, process::exit};

use verif_harness::{gen, Rng, Runner};

fn main() {
    let a: Vec<String> = env::args().collect();
    if a.len() == 3 && a[1] == "--replay" {
        // print the implementation's responses for the request lines of a file
        std::panic::set_hook(Box::new(|_| {}));
        let mut r = Runner::new();
        for line in fs::read_to_string(&a[2]).unwrap().lines() {
            if let Some(id) = line.strip_prefix("case ") {
                r.begin_case(id);
            } else if !line.trim().is_empty() {
                r.op(line);
            }
        }
        print!("{}", r.out);
        for f in &r.oracle_failures {
            eprintln!("oracle_fail={f}");
        }
        return;
    }
    if a.len() != 6 {
        eprintln!("usage: microdiff <component> <seed> <ncases> <maxops> <outprefix>");
        exit(2);
    }
    let comp = &a[1];
    let seed: u64 = a[2].parse().expect("seed");
    let ncases: u64 = a[3].parse().expect("ncases");
    let maxops: usize = a[4].parse().expect("maxops");
    let prefix = &a[5];
    let Some((rule, f)) = gen::lookup(comp) else {
        eprintln!("unknown component {comp}");
        exit(2);
    };
    std::panic::set_hook(Box::new(|_| {}));
    let mut r = Runner::new();
    // corpus first: files <corpus>/<component>/*.ops are replayed verbatim
    if let Ok(dir) = env::var("VERIF_CORPUS") {
        if let Ok(rd) = fs::read_dir(format!("{dir}/{comp}")) {
            let mut files: Vec<_> = rd.flatten().map(|e| e.path()).collect();
            files.sort();
            for p in files {
                if p.extension().map_or(false, |e| e == "ops") {
                    let name = p.file_stem().unwrap().to_string_lossy().to_string();
                    r.begin_case(&format!("corpus-{name}"));
                    for line in fs::read_to_string(&p).unwrap().lines() {
                        if !line.starts_with("case") && !line.trim().is_empty() {
                            r.op(line);
                        }
                    }
                }
            }
        }
    }
    for i in 0..ncases {
        let mut rng = Rng::new(seed.wrapping_mul(1_000_003).wrapping_add(i));
        r.begin_case(&format!("{comp}-{seed}-{i}"));
        let n = 1 + rng.below(maxops as u64) as usize;
        f(&mut rng, &mut r, n);
    }
    r.end_case();
    fs::write(format!("{prefix}.ops"), &r.ops).unwrap();
    fs::write(format!("{prefix}.impl"), &r.out).unwrap();
    let mut s = String::new();
    s += &format!("component={comp}\nrule={rule}\ncases={}\nevaluations={}\ndistinct_nontrivial={}\n", r.cases, r.evaluations, r.nontrivial);
    for (k, v) in &r.hist {
        s += &format!("op:{k}={v}\n");
    }
    for (k, v) in &r.resp_hist {
        s += &format!("resp:{k}={v}\n");
    }
    // reachability classes (audit TOP GAP 1): ops per (kind, class), cases left unjudged after a contract violation
    for (k, v) in &r.class_hist {
        s += &format!("class:{k}={v}\n");
    }
    s += &format!("tainted_cases={}\n", r.tainted_cases);
    for f in &r.unjudged_panics {
        s += &format!("unjudged_panic={f}\n");
    }
    for smp in &r.samples {
        s += &format!("sample={}\n", smp.join(" ; "));
    }
    for f in &r.oracle_failures {
        s += &format!("oracle_fail={f}\n");
    }
    fs::write(format!("{prefix}.stats"), s).unwrap();
}
