//! udploop <seed> <ncases> <outprefix>
//! C19: drives the real quinn-udp layer — `prepare_msg` control-message layout through the verif hook,
//! `effective_segment_size`, and real loopback sockets through `UdpSocketState::{send,recv}` — and writes
//! request lines for the Lean driver (component `udp`) together with the implementation's answers.
use std::io::IoSliceMut;
use std::net::{IpAddr, Ipv4Addr, Ipv6Addr, SocketAddr, UdpSocket};
use std::{env, fs, process::exit, time::Duration};

use quinn_udp::{EcnCodepoint, RecvMeta, Transmit, UdpSockRef, UdpSocketState};
use verif_harness::Rng;

struct Out {
    ops: Vec<String>,
    imp: Vec<String>,
    fails: Vec<String>,
    hist: std::collections::BTreeMap<String, u64>,
    samples: Vec<String>,
}

impl Out {
    fn rec(&mut self, op: String, imp: String) {
        let k = op.split_whitespace().take(2).collect::<Vec<_>>().join(" ");
        *self.hist.entry(k).or_default() += 1;
        if self.samples.len() < 6 {
            self.samples.push(format!("{op} => {imp}"));
        }
        self.ops.push(op);
        self.imp.push(imp);
    }
}

fn content(len: usize, salt: u64) -> Vec<u8> {
    (0..len as u64).map(|i| (i.wrapping_mul(131).wrapping_add(salt * 7) % 251) as u8).collect()
}

struct Pair {
    tx: UdpSocket,
    rx: UdpSocket,
    tx_state: UdpSocketState,
    rx_state: UdpSocketState,
    rx_addr: SocketAddr,
    tx_addr: SocketAddr,
}

fn pair(v6: bool) -> Option<Pair> {
    let lo: IpAddr = if v6 { Ipv6Addr::LOCALHOST.into() } else { Ipv4Addr::LOCALHOST.into() };
    let rx = UdpSocket::bind(SocketAddr::new(lo, 0)).ok()?;
    let tx = UdpSocket::bind(SocketAddr::new(lo, 0)).ok()?;
    rx.set_read_timeout(Some(Duration::from_millis(200))).ok()?;
    let rx_state = UdpSocketState::new(UdpSockRef::from(&rx)).ok()?;
    let tx_state = UdpSocketState::new(UdpSockRef::from(&tx)).ok()?;
    let _ = socket2::SockRef::from(&rx).set_recv_buffer_size(4 << 20);
    Some(Pair { rx_addr: rx.local_addr().ok()?, tx_addr: tx.local_addr().ok()?, tx, rx, tx_state, rx_state })
}

/// receive everything that arrives within the timeout, split by stride as quinn's poll_socket does
fn recv_all(p: &Pair, expect_bytes: usize) -> Vec<(Vec<u8>, RecvMeta)> {
    let mut got = Vec::new();
    let mut total = 0;
    let mut buf = vec![0u8; 65536 * 2];
    while total < expect_bytes {
        let mut meta = [RecvMeta::default()];
        let n = {
            let mut iov = [IoSliceMut::new(&mut buf)];
            match p.rx_state.recv(UdpSockRef::from(&p.rx), &mut iov, &mut meta) {
                Ok(n) => n,
                Err(_) => break,
            }
        };
        if n == 0 {
            break;
        }
        let m = meta[0];
        let mut data = &buf[..m.len];
        // the loop of quinn::endpoint::poll_socket
        while !data.is_empty() {
            let k = m.stride.min(data.len());
            got.push((data[..k].to_vec(), m));
            total += k;
            data = &data[k..];
        }
    }
    got
}

fn main() {
    let a: Vec<String> = env::args().collect();
    if a.len() != 4 {
        eprintln!("usage: udploop <seed> <ncases> <outprefix>");
        exit(2);
    }
    let seed: u64 = a[1].parse().unwrap();
    let n: u64 = a[2].parse().unwrap();
    let prefix = &a[3];
    let mut rng = Rng::new(seed ^ 0x0d9);
    let mut o = Out { ops: vec!["case udp".into()], imp: vec!["case udp".into()], fails: vec![], hist: Default::default(), samples: vec![] };

    // ---- libc layout constants against the model
    for payload in [0usize, 1, 2, 4, 8, 12, 16, 20, 24, 28] {
        let (len, space) = quinn_udp::verif_cmsg_consts(payload);
        o.rec(format!("udp cmsgspace {payload}"), format!("{space} {len}"));
    }
    // ---- every option combination of prepare_msg (exhaustive)
    let v4d: SocketAddr = "127.0.0.1:9".parse().unwrap();
    let v6d: SocketAddr = "[::1]:9".parse().unwrap();
    let mapped: SocketAddr = "[::ffff:127.0.0.1]:9".parse().unwrap();
    for (dst, v4) in [(v4d, true), (v6d, false), (mapped, true)] {
        for einval in [false, true] {
            for gso in [false, true] {
                for src in [None, Some(IpAddr::V4(Ipv4Addr::LOCALHOST)), Some(IpAddr::V6(Ipv6Addr::LOCALHOST))] {
                    for ecn in [None, Some(EcnCodepoint::Ect0), Some(EcnCodepoint::Ect1), Some(EcnCodepoint::Ce)] {
                        let contents = content(if gso { 3000 } else { 1000 }, 1);
                        let t = Transmit { destination: dst, ecn, contents: &contents, segment_size: if gso { Some(1200) } else { None }, src_ip: src };
                        let r = std::panic::catch_unwind(|| quinn_udp::verif_control_len(&t, einval));
                        let s = match src {
                            None => "-",
                            Some(IpAddr::V4(_)) => "4",
                            Some(IpAddr::V6(_)) => "6",
                        };
                        let imp = match r {
                            Ok((len, eff)) => format!("{len} {}", eff.map_or("-".to_string(), |x| x.to_string())),
                            Err(_) => {
                                o.fails.push(format!("key=udp-prepare-msg-panicked dst {dst} einval {einval} gso {gso} src {s}"));
                                "panic".to_string()
                            }
                        };
                        o.rec(format!("udp ctl {} {} {} {s} {}", v4 as u8, einval as u8, gso as u8, if gso { "1200 3000" } else { "- 1000" }), imp);
                    }
                }
            }
        }
    }
    // ---- effective_segment_size over boundary cases
    for _ in 0..200 {
        let len = *rng.pick(&[1usize, 2, 100, 1199, 1200, 1201, 2400, 2401, 65000]);
        let seg = match rng.below(4) {
            0 => None,
            1 => Some(len),
            2 => Some(len.saturating_sub(1).max(1)),
            _ => Some(rng.range(1, 70000) as usize),
        };
        let contents = vec![0u8; len];
        let t = Transmit { destination: v4d, ecn: None, contents: &contents, segment_size: seg, src_ip: None };
        let (_, eff) = quinn_udp::verif_control_len(&t, false);
        o.rec(format!("udp eff {} {len}", seg.map_or("-".to_string(), |x| x.to_string())), eff.map_or("-".to_string(), |x| x.to_string()));
    }

    // ---- real loopback sockets
    let mut sent_cases = 0u64;
    for v6 in [false, true] {
        let Some(p) = pair(v6) else {
            o.fails.push(format!("key=udp-loopback-unavailable v6={v6}"));
            continue;
        };
        let max_gso = p.tx_state.max_gso_segments();
        *o.hist.entry(format!("sockets with max_gso_segments {max_gso} gro_segments {}", p.rx_state.gro_segments())).or_default() += 1;
        for i in 0..n {
            let seg = *rng.pick(&[1usize, 7, 500, 1200, 1452]);
            let nseg = if max_gso > 1 && rng.chance(2, 3) { rng.range(1, (max_gso as u64).min(12)) as usize } else { 1 };
            let last = if nseg > 1 && rng.chance(1, 2) { rng.range(1, seg as u64) as usize } else { seg };
            let len = if nseg == 1 { match rng.below(3) { 0 => seg, 1 => rng.range(1, 1452) as usize, _ => *rng.pick(&[1usize, 1200, 1452, 9000, 65507 - 40 * v6 as usize]) } } else { seg * (nseg - 1) + last };
            // the caller contract: never more segments than max_gso_segments()
            let segment_size = if nseg > 1 || (rng.chance(1, 4) && len.div_ceil(seg) <= max_gso) { Some(seg) } else { None };
            let ecn = *rng.pick(&[None, Some(EcnCodepoint::Ect0), Some(EcnCodepoint::Ect1), Some(EcnCodepoint::Ce)]);
            let src_ip = if rng.chance(1, 3) { Some(p.tx_addr.ip()) } else { None };
            let contents = content(len, seed + i);
            let t = Transmit { destination: p.rx_addr, ecn, contents: &contents, segment_size, src_ip };
            if let Err(e) = p.tx_state.send(UdpSockRef::from(&p.tx), &t) {
                if len > 9000 {
                    continue; // EMSGSIZE on loopback MTU is the kernel's business
                }
                o.fails.push(format!("key=udp-send-failed len {len} seg {segment_size:?}: {e}"));
                continue;
            }
            sent_cases += 1;
            let got = recv_all(&p, len);
            let lens: Vec<String> = got.iter().map(|(d, _)| d.len().to_string()).collect();
            o.rec(format!("udp wire {} {len}", segment_size.map_or("-".to_string(), |x| x.to_string())), lens.join(","));
            // C19 oracles on the real sockets: bytes identical and in order, ECN and addresses conveyed
            let cat: Vec<u8> = got.iter().flat_map(|(d, _)| d.iter().copied()).collect();
            if cat != contents {
                o.fails.push(format!("key=udp-payload-altered len {len} seg {segment_size:?}: received {} bytes in {} datagrams", cat.len(), got.len()));
            }
            for (_, m) in &got {
                if m.addr != p.tx_addr {
                    o.fails.push(format!("key=udp-source-address-wrong {} != {}", m.addr, p.tx_addr));
                }
                if m.ecn != ecn {
                    o.fails.push(format!("key=udp-ecn-not-conveyed sent {ecn:?} got {:?} (v6 {v6}, len {len}, seg {segment_size:?}, src {src_ip:?})", m.ecn));
                }
                if let Some(d) = m.dst_ip {
                    if d != p.rx_addr.ip() {
                        o.fails.push(format!("key=udp-dst-ip-wrong {d} != {}", p.rx_addr.ip()));
                    }
                }
            }
        }
    }
    let mut s = String::new();
    s += &format!("component=udp\nrule=exhaustive option table of prepare_msg (3 destination families x einval x gso x source x ECN = 288 combinations) and libc CMSG_SPACE values against the model; effective_segment_size on boundary cases; real loopback sockets (v4 and v6) through UdpSocketState::send/recv: payload lengths 1..65507, segment sizes 1/7/500/1200/1452, 1..12 segments with short last segment, every ECN codepoint, explicit source or none; received buffers split by stride exactly as quinn's poll_socket does; non-trivial = a loopback transmission with more than one segment or an ECN codepoint\ncases={}\nevaluations={}\ndistinct_nontrivial={}\n", sent_cases + 1, o.ops.len(), sent_cases);
    for (k, v) in &o.hist {
        s += &format!("op:{k}={v}\n");
    }
    for x in o.samples.iter() {
        s += &format!("sample={x}\n");
    }
    let mut seen = std::collections::BTreeMap::new();
    for f in &o.fails {
        let k = f.split_whitespace().next().unwrap_or("").to_string();
        let c = seen.entry(k).or_insert(0);
        *c += 1;
        if *c <= 3 {
            s += &format!("oracle_fail={f}\n");
        }
    }
    fs::write(format!("{prefix}.stats"), s).unwrap();
    fs::write(format!("{prefix}.ops"), o.ops.join("\n") + "\n").unwrap();
    fs::write(format!("{prefix}.impl"), o.imp.join("\n") + "\n").unwrap();
}
