//! udploop <seed> <ncases> <outprefix>
//! C19: drives the real quinn-udp layer — `prepare_msg` control-message layout through the verif hook,
//! `effective_segment_size`, and real loopback sockets through `UdpSocketState::{send,recv}` — and writes
//! request lines for the Lean driver (component `udp`) together with the implementation's answers.
use std::io::IoSliceMut;
use std::net::{IpAddr, Ipv4Addr, Ipv6Addr, SocketAddr, UdpSocket};
use std::{env, fs, process::exit, time::Duration};

use quinn_udp::{EcnCodepoint, RecvMeta, Transmit, UdpSockRef, UdpSocketState};
use verif_harness::Rng;

struct Out {
    ops: Vec<String>,
    imp: Vec<String>,
    fails: Vec<String>,
    hist: std::collections::BTreeMap<String, u64>,
    samples: Vec<String>,
}

impl Out {
    fn rec(&mut self, op: String, imp: String) {
        let k = op.split_whitespace().take(2).collect::<Vec<_>>().join(" ");
        *self.hist.entry(k).or_default() += 1;
        if self.samples.len() < 6 {
            self.samples.push(format!("{op} => {imp}"));
        }
        self.ops.push(op);
        self.imp.push(imp);
    }
}

fn content(len: usize, salt: u64) -> Vec<u8> {
    (0..len as u64).map(|i| (i.wrapping_mul(131).wrapping_add(salt * 7) % 251) as u8).collect()
}

struct Pair {
    tx: UdpSocket,
    rx: UdpSocket,
    tx_state: UdpSocketState,
    rx_state: UdpSocketState,
    /// where transmits are addressed to (v4-mapped when the sending socket is dual-stack)
    rx_addr: SocketAddr,
    tx_addr: SocketAddr,
}

/// socket families of a loopback pair: plain IPv4, plain IPv6, and the three dual-stack arrangements
/// (an AF_INET6 socket with IPV6_V6ONLY off talking IPv4 through IPv4-mapped addresses)
#[derive(Clone, Copy, PartialEq, Debug)]
enum Kind {
    V4,
    V6,
    DualTx,
    DualRx,
    DualBoth,
}

fn bind(kind: u8) -> Option<UdpSocket> {
    match kind {
        4 => UdpSocket::bind(SocketAddr::new(Ipv4Addr::LOCALHOST.into(), 0)).ok(),
        6 => UdpSocket::bind(SocketAddr::new(Ipv6Addr::LOCALHOST.into(), 0)).ok(),
        _ => {
            let s = socket2::Socket::new(socket2::Domain::IPV6, socket2::Type::DGRAM, None).ok()?;
            s.set_only_v6(false).ok()?;
            s.bind(&SocketAddr::new(Ipv6Addr::UNSPECIFIED.into(), 0).into()).ok()?;
            Some(s.into())
        }
    }
}

fn canon(a: SocketAddr) -> SocketAddr {
    SocketAddr::new(a.ip().to_canonical(), a.port())
}

fn pair_kind(kind: Kind) -> Option<Pair> {
    let (t, r) = match kind {
        Kind::V4 => (4, 4),
        Kind::V6 => (6, 6),
        Kind::DualTx => (0, 4),
        Kind::DualRx => (4, 0),
        Kind::DualBoth => (0, 0),
    };
    let rx = bind(r)?;
    let tx = bind(t)?;
    rx.set_read_timeout(Some(Duration::from_millis(200))).ok()?;
    let rx_state = UdpSocketState::new(UdpSockRef::from(&rx)).ok()?;
    let tx_state = UdpSocketState::new(UdpSockRef::from(&tx)).ok()?;
    let _ = socket2::SockRef::from(&rx).set_recv_buffer_size(4 << 20);
    let rx_port = rx.local_addr().ok()?.port();
    let tx_port = tx.local_addr().ok()?.port();
    let v4lo = IpAddr::V4(Ipv4Addr::LOCALHOST);
    let mapped = IpAddr::V6(Ipv4Addr::LOCALHOST.to_ipv6_mapped());
    // destination as the SENDING socket must spell it; source as the receiver canonically sees it
    let (dst, src): (IpAddr, IpAddr) = match kind {
        Kind::V4 | Kind::DualRx => (v4lo, v4lo),
        Kind::V6 => (Ipv6Addr::LOCALHOST.into(), Ipv6Addr::LOCALHOST.into()),
        Kind::DualTx | Kind::DualBoth => (mapped, v4lo),
    };
    Some(Pair { rx_addr: SocketAddr::new(dst, rx_port), tx_addr: SocketAddr::new(src, tx_port), tx, rx, tx_state, rx_state })
}

fn pair(v6: bool) -> Option<Pair> {
    pair_kind(if v6 { Kind::V6 } else { Kind::V4 })
}

/// receive everything that arrives within the timeout, split by stride as quinn's poll_socket does
fn recv_all(p: &Pair, expect_bytes: usize) -> Vec<(Vec<u8>, RecvMeta)> {
    let mut got = Vec::new();
    let mut total = 0;
    let mut buf = vec![0u8; 65536 * 2];
    while total < expect_bytes {
        let mut meta = [RecvMeta::default()];
        let n = {
            let mut iov = [IoSliceMut::new(&mut buf)];
            match p.rx_state.recv(UdpSockRef::from(&p.rx), &mut iov, &mut meta) {
                Ok(n) => n,
                Err(_) => break,
            }
        };
        if n == 0 {
            break;
        }
        let m = meta[0];
        let mut data = &buf[..m.len];
        // the loop of quinn::endpoint::poll_socket
        while !data.is_empty() {
            let k = m.stride.min(data.len());
            got.push((data[..k].to_vec(), m));
            total += k;
            data = &data[k..];
        }
    }
    got
}

/// C19 "the source ... addresses are conveyed", explicit source address: a sender bound to the wildcard address names
/// a source other than the one the kernel would pick (127.0.0.2 / 127.0.0.3 on the loopback network) - plain IPv4 on an
/// IPv4 socket, and both the IPv4 and the IPv4-mapped spelling on a dual-stack socket talking to an IPv4-mapped peer
/// (the spelling `RecvMeta::dst_ip` reports there, which quinn feeds back as `src_ip`). The receiver must see it.
fn explicit_source(o: &mut Out) -> u64 {
    let mut n = 0u64;
    for dual in [false, true] {
        let tx = if dual {
            bind(0)
        } else {
            UdpSocket::bind(SocketAddr::new(Ipv4Addr::UNSPECIFIED.into(), 0)).ok()
        };
        let (Some(tx), Some(rx)) = (tx, bind(4)) else {
            o.fails.push(format!("key=udp-loopback-unavailable explicit-source dual={dual}"));
            continue;
        };
        let _ = rx.set_read_timeout(Some(Duration::from_millis(200)));
        let (Ok(rx_state), Ok(tx_state)) = (UdpSocketState::new(UdpSockRef::from(&rx)), UdpSocketState::new(UdpSockRef::from(&tx))) else { continue };
        let rx_port = rx.local_addr().unwrap().port();
        let tx_port = tx.local_addr().unwrap().port();
        let dst_ip: IpAddr = if dual { IpAddr::V6(Ipv4Addr::LOCALHOST.to_ipv6_mapped()) } else { Ipv4Addr::LOCALHOST.into() };
        let p = Pair { rx_addr: SocketAddr::new(dst_ip, rx_port), tx_addr: SocketAddr::new(Ipv4Addr::LOCALHOST.into(), tx_port), tx, rx, tx_state, rx_state };
        for last in [2u8, 3] {
            let v4 = Ipv4Addr::new(127, 0, 0, last);
            let spellings: Vec<IpAddr> = if dual { vec![IpAddr::V6(v4.to_ipv6_mapped()), IpAddr::V4(v4)] } else { vec![IpAddr::V4(v4)] };
            for src in spellings {
                for ecn in [None, Some(EcnCodepoint::Ect0), Some(EcnCodepoint::Ce)] {
                    let contents = content(300 + last as usize, 9);
                    let t = Transmit { destination: p.rx_addr, ecn, contents: &contents, segment_size: None, src_ip: Some(src) };
                    if let Err(e) = p.tx_state.send(UdpSockRef::from(&p.tx), &t) {
                        // an explicit source the kernel refuses is reported by send, never silently replaced
                        *o.hist.entry(format!("explicit-source send refused by the kernel ({} sender, source {src}): {}", if dual { "dual-stack" } else { "ipv4" }, e.kind())).or_default() += 1;
                        continue;
                    }
                    n += 1;
                    let got = recv_all(&p, contents.len());
                    match got.first() {
                        None => o.fails.push(format!("key=udp-explicit-source-datagram-lost dual={dual} src={src} ecn={ecn:?}")),
                        Some((d, m)) => {
                            if d.as_slice() != contents.as_slice() {
                                o.fails.push(format!("key=udp-payload-altered explicit-source dual={dual} src={src}"));
                            }
                            if m.addr.ip().to_canonical() != IpAddr::V4(v4) {
                                o.fails.push(format!("key=udp-explicit-source-not-conveyed transmit names source {src} (dual-stack sender: {dual}, destination {}), the receiver sees {} ecn={ecn:?}", p.rx_addr, m.addr));
                            }
                            if m.ecn != ecn {
                                o.fails.push(format!("key=udp-ecn-not-conveyed explicit-source dual={dual} src={src} sent {ecn:?} got {:?}", m.ecn));
                            }
                        }
                    }
                }
            }
        }
        *o.hist.entry(format!("explicit-source {} sender", if dual { "dual-stack" } else { "ipv4" })).or_default() += 1;
    }
    n
}

/// Send one transmit through `UdpSocketState::send`, receive what arrives, record the `udp wire` line and apply
/// the C19 oracles (derived from the property text): EACH SEGMENT of the transmit arrives as ONE datagram with
/// identical bytes (boundaries and payload), ECN codepoint, source and destination addresses conveyed.
/// Returns false when the kernel refused an over-MTU send.
fn exchange(o: &mut Out, p: &Pair, t: &Transmit<'_>, ctx: &str) -> bool {
    let len = t.contents.len();
    let segment_size = t.segment_size;
    if let Err(e) = p.tx_state.send(UdpSockRef::from(&p.tx), t) {
        if len > 9000 {
            return false; // EMSGSIZE on loopback MTU is the kernel's business
        }
        o.fails.push(format!("key=udp-send-failed len {len} seg {segment_size:?} ({ctx}): {e}"));
        return false;
    }
    let got = recv_all(p, len);
    let lens: Vec<String> = got.iter().map(|(d, _)| d.len().to_string()).collect();
    o.rec(format!("udp wire {} {len}", segment_size.map_or("-".to_string(), |x| x.to_string())), lens.join(","));
    // what the transmit DESCRIBES: consecutive datagrams of segment_size bytes, the last possibly shorter;
    // without a segment size one datagram (doc of quinn_udp::Transmit::segment_size)
    let expected: Vec<&[u8]> = match segment_size {
        Some(s) => t.contents.chunks(s).collect(),
        None => vec![t.contents],
    };
    let cat: Vec<u8> = got.iter().flat_map(|(d, _)| d.iter().copied()).collect();
    if cat != t.contents {
        o.fails.push(format!("key=udp-payload-altered len {len} seg {segment_size:?} ({ctx}): received {} bytes in {} datagrams", cat.len(), got.len()));
    } else if got.len() != expected.len() || got.iter().zip(&expected).any(|((d, _), e)| d.as_slice() != *e) {
        let want: Vec<String> = expected.iter().map(|e| e.len().to_string()).collect();
        let (wn, gn) = (want.len(), lens.len());
        let brief = |v: &[String]| if v.len() > 6 { format!("{},..,{}", v[..3].join(","), v[v.len() - 1]) } else { v.join(",") };
        o.fails.push(format!(
            "key=udp-datagram-boundaries-not-preserved transmit of {len} bytes with segment_size {segment_size:?} ({ctx}) describes {wn} datagram(s) [{}] but {gn} datagram(s) [{}] were received",
            brief(&want),
            brief(&lens)
        ));
    }
    for (_, m) in &got {
        if canon(m.addr) != p.tx_addr {
            o.fails.push(format!("key=udp-source-address-wrong {} != {} ({ctx})", m.addr, p.tx_addr));
        }
        if m.ecn != t.ecn {
            o.fails.push(format!("key=udp-ecn-not-conveyed sent {:?} got {:?} ({ctx}, len {len}, seg {segment_size:?}, src {:?})", t.ecn, m.ecn, t.src_ip));
        }
        if let Some(d) = m.dst_ip {
            if d.to_canonical() != p.rx_addr.ip().to_canonical() {
                o.fails.push(format!("key=udp-dst-ip-wrong {d} != {} ({ctx})", p.rx_addr.ip()));
            }
        }
    }
    true
}

/// Every boundary shape of a (possibly segmentation-offloaded) transmit on one socket family:
/// k full segments + a short last one of 1 / seg-1 / a random length in between (k = 1 .. max_gso_segments-1),
/// exactly k full segments (k = 1 .. max_gso_segments), a single datagram smaller than / equal to the segment
/// size (with the segment size given), and a single datagram larger than it (no segment size).
fn shapes(o: &mut Out, rng: &mut Rng, kind: Kind, seed: u64) -> u64 {
    let Some(p) = pair_kind(kind) else {
        o.fails.push(format!("key=udp-loopback-unavailable kind={kind:?}"));
        return 0;
    };
    let max_gso = p.tx_state.max_gso_segments();
    *o.hist.entry(format!("shapes {kind:?} max_gso_segments {max_gso}")).or_default() += 1;
    let ctx = format!("{kind:?}");
    let ecns = [None, Some(EcnCodepoint::Ect0), Some(EcnCodepoint::Ect1), Some(EcnCodepoint::Ce)];
    let mut n = 0u64;
    let mut i = 0u64;
    let mut go = |o: &mut Out, rng: &mut Rng, len: usize, segment_size: Option<usize>| {
        if len == 0 || len > 65000 {
            return;
        }
        i += 1;
        let contents = content(len, seed.wrapping_add(i));
        // explicit source (as quinn echoes the address a datagram was received on) on the plain families
        let src_ip = if matches!(kind, Kind::V4 | Kind::V6) && rng.chance(1, 3) { Some(p.tx_addr.ip()) } else { None };
        let t = Transmit { destination: p.rx_addr, ecn: ecns[(i % 4) as usize], contents: &contents, segment_size, src_ip };
        if exchange(o, &p, &t, &ctx) {
            n += 1;
        }
    };
    for seg in [2usize, 500, 1200, 1452] {
        // single datagrams around the segment size
        go(o, rng, 1, Some(seg));
        go(o, rng, seg - 1, Some(seg));
        go(o, rng, seg, Some(seg));
        go(o, rng, seg, None);
        go(o, rng, seg + 1, None);
        go(o, rng, 2 * seg, None);
        if max_gso < 2 {
            continue;
        }
        for k in 1..=max_gso {
            go(o, rng, k * seg, Some(seg));
            if k < max_gso {
                let mut tails = vec![1, seg - 1];
                if seg > 3 {
                    tails.push(rng.range(2, seg as u64 - 2) as usize);
                }
                tails.dedup();
                for tail in tails {
                    go(o, rng, k * seg + tail, Some(seg));
                }
            }
        }
    }
    n
}

extern "C" {
    fn setsockopt(fd: i32, level: i32, name: i32, val: *const core::ffi::c_void, len: u32) -> i32;
}

/// "when an offload is unsupported the layer degrades to plain sends without losing, merging or truncating
/// datagrams": SO_NO_CHECK (IPv4) / UDP_NO_CHECK6_TX (IPv6) make the Linux UDP stack answer EINVAL to every
/// sendmsg carrying UDP_SEGMENT (udp_send_skb / udp_v6_send_skb) while plain sends keep working — the same
/// answer a device without segmentation offload gives. The batch must still arrive datagram by datagram, and
/// ECN must still be conveyed by later sends on the socket.
fn refused(o: &mut Out, v6: bool, seed: u64) {
    use std::os::fd::AsRawFd;
    let Some(p) = pair(v6) else {
        return;
    };
    if p.tx_state.max_gso_segments() < 2 {
        return;
    }
    let on: i32 = 1;
    // linux generic ABI: SOL_SOCKET = 1, SO_NO_CHECK = 11; SOL_UDP = 17, UDP_NO_CHECK6_TX = 101
    let (level, name) = if v6 { (17, 101) } else { (1, 11) };
    let rc = unsafe { setsockopt(p.tx.as_raw_fd(), level, name, &on as *const i32 as *const _, 4) };
    // IPv6 receivers drop zero-checksum datagrams unless told otherwise (UDP_NO_CHECK6_RX = 102)
    let rc2 = if v6 { unsafe { setsockopt(p.rx.as_raw_fd(), 17, 102, &on as *const i32 as *const _, 4) } } else { 0 };
    if rc != 0 || rc2 != 0 {
        *o.hist.entry(format!("refused v6={v6}: checksum-off option unavailable")).or_default() += 1;
        return;
    }
    let ctx = format!("GSO-refusing socket v6 {v6}");
    for (k, (seg, len)) in [(100usize, 300usize), (1200, 1300), (500, 1499)].into_iter().enumerate() {
        let contents = content(len, seed + k as u64);
        let t = Transmit { destination: p.rx_addr, ecn: Some(EcnCodepoint::Ect0), contents: &contents, segment_size: Some(seg), src_ip: None };
        let (gso_before, einval_before) = (p.tx_state.max_gso_segments(), p.tx_state.verif_sendmsg_einval());
        let r = p.tx_state.send(UdpSockRef::from(&p.tx), &t);
        let got = recv_all(&p, len);
        let lens: Vec<String> = got.iter().map(|(d, _)| d.len().to_string()).collect();
        let lens = if lens.is_empty() { "-".to_string() } else { lens.join(",") };
        o.rec(
            format!("udp refused {} {gso_before} {} {seg} {len}", !v6 as u8, einval_before as u8),
            format!("{} {lens} {} {}", if r.is_ok() { "ok" } else { "err" }, p.tx_state.max_gso_segments(), p.tx_state.verif_sendmsg_einval() as u8),
        );
        let expected: Vec<&[u8]> = contents.chunks(seg).collect();
        if r.is_ok() && (got.len() != expected.len() || got.iter().zip(&expected).any(|((d, _), e)| d.as_slice() != *e)) {
            o.fails.push(format!(
                "key=udp-gso-refused-batch-lost send returned Ok for a transmit of {len} bytes in segments of {seg} on a socket whose kernel path answers EINVAL to UDP_SEGMENT ({ctx}), but the receiver got [{lens}] instead of {} datagrams: the batch was neither re-sent as plain datagrams nor reported",
                expected.len()
            ));
        }
        for (_, m) in &got {
            if m.ecn != t.ecn {
                o.fails.push(format!("key=udp-ecn-not-conveyed sent {:?} got {:?} ({ctx}, fallback datagrams)", t.ecn, m.ecn));
            }
        }
    }
    // later plain sends on the same socket must still convey ECN
    for ecn in [Some(EcnCodepoint::Ect0), Some(EcnCodepoint::Ce)] {
        let contents = content(900, seed + 77);
        let t = Transmit { destination: p.rx_addr, ecn, contents: &contents, segment_size: None, src_ip: None };
        let _ = p.tx_state.send(UdpSockRef::from(&p.tx), &t);
        let got = recv_all(&p, 900);
        if got.len() != 1 {
            o.fails.push(format!("key=udp-send-after-gso-fallback-lost {} datagrams received ({ctx})", got.len()));
        }
        for (_, m) in &got {
            if m.ecn != ecn {
                o.fails.push(format!(
                    "key=udp-ecn-disabled-after-gso-fallback after a refused GSO batch a plain send with {ecn:?} arrived with {:?} ({ctx}; sendmsg_einval={})",
                    m.ecn,
                    p.tx_state.verif_sendmsg_einval()
                ));
            }
        }
    }
}

fn main() {
    let a: Vec<String> = env::args().collect();
    if a.len() != 4 {
        eprintln!("usage: udploop <seed> <ncases> <outprefix>");
        exit(2);
    }
    let seed: u64 = a[1].parse().unwrap();
    let n: u64 = a[2].parse().unwrap();
    let prefix = &a[3];
    let mut rng = Rng::new(seed ^ 0x0d9);
    let mut o = Out { ops: vec!["case udp".into()], imp: vec!["case udp".into()], fails: vec![], hist: Default::default(), samples: vec![] };

    // ---- libc layout constants against the model
    for payload in [0usize, 1, 2, 4, 8, 12, 16, 20, 24, 28] {
        let (len, space) = quinn_udp::verif_cmsg_consts(payload);
        o.rec(format!("udp cmsgspace {payload}"), format!("{space} {len}"));
    }
    // ---- every option combination of prepare_msg (exhaustive)
    let v4d: SocketAddr = "127.0.0.1:9".parse().unwrap();
    let v6d: SocketAddr = "[::1]:9".parse().unwrap();
    let mapped: SocketAddr = "[::ffff:127.0.0.1]:9".parse().unwrap();
    for (dst, v4) in [(v4d, true), (v6d, false), (mapped, true)] {
        for einval in [false, true] {
            for gso in [false, true] {
                for src in [None, Some(IpAddr::V4(Ipv4Addr::LOCALHOST)), Some(IpAddr::V6(Ipv6Addr::LOCALHOST))] {
                    for ecn in [None, Some(EcnCodepoint::Ect0), Some(EcnCodepoint::Ect1), Some(EcnCodepoint::Ce)] {
                        let contents = content(if gso { 3000 } else { 1000 }, 1);
                        let t = Transmit { destination: dst, ecn, contents: &contents, segment_size: if gso { Some(1200) } else { None }, src_ip: src };
                        let r = std::panic::catch_unwind(|| quinn_udp::verif_control_len(&t, einval));
                        let s = match src {
                            None => "-",
                            Some(IpAddr::V4(_)) => "4",
                            Some(IpAddr::V6(_)) => "6",
                        };
                        let imp = match r {
                            Ok((len, eff)) => format!("{len} {}", eff.map_or("-".to_string(), |x| x.to_string())),
                            Err(_) => {
                                o.fails.push(format!("key=udp-prepare-msg-panicked dst {dst} einval {einval} gso {gso} src {s}"));
                                "panic".to_string()
                            }
                        };
                        o.rec(format!("udp ctl {} {} {} {s} {}", v4 as u8, einval as u8, gso as u8, if gso { "1200 3000" } else { "- 1000" }), imp);
                    }
                }
            }
        }
    }
    // ---- effective_segment_size over boundary cases
    for _ in 0..200 {
        let len = *rng.pick(&[1usize, 2, 100, 1199, 1200, 1201, 2400, 2401, 65000]);
        let seg = match rng.below(4) {
            0 => None,
            1 => Some(len),
            2 => Some(len.saturating_sub(1).max(1)),
            _ => Some(rng.range(1, 70000) as usize),
        };
        let contents = vec![0u8; len];
        let t = Transmit { destination: v4d, ecn: None, contents: &contents, segment_size: seg, src_ip: None };
        let (_, eff) = quinn_udp::verif_control_len(&t, false);
        o.rec(format!("udp eff {} {len}", seg.map_or("-".to_string(), |x| x.to_string())), eff.map_or("-".to_string(), |x| x.to_string()));
    }

    // ---- real loopback sockets
    let mut sent_cases = 0u64;
    for v6 in [false, true] {
        let Some(p) = pair(v6) else {
            o.fails.push(format!("key=udp-loopback-unavailable v6={v6}"));
            continue;
        };
        let max_gso = p.tx_state.max_gso_segments();
        *o.hist.entry(format!("sockets with max_gso_segments {max_gso} gro_segments {}", p.rx_state.gro_segments())).or_default() += 1;
        for i in 0..n {
            let seg = *rng.pick(&[1usize, 7, 500, 1200, 1452]);
            let nseg = if max_gso > 1 && rng.chance(2, 3) { rng.range(1, (max_gso as u64).min(12)) as usize } else { 1 };
            let last = if nseg > 1 && rng.chance(1, 2) { rng.range(1, seg as u64) as usize } else { seg };
            let len = if nseg == 1 { match rng.below(3) { 0 => seg, 1 => rng.range(1, 1452) as usize, _ => *rng.pick(&[1usize, 1200, 1452, 9000, 65507 - 40 * v6 as usize]) } } else { seg * (nseg - 1) + last };
            // the caller contract: never more segments than max_gso_segments()
            let segment_size = if nseg > 1 || (rng.chance(1, 4) && len.div_ceil(seg) <= max_gso) { Some(seg) } else { None };
            let ecn = *rng.pick(&[None, Some(EcnCodepoint::Ect0), Some(EcnCodepoint::Ect1), Some(EcnCodepoint::Ce)]);
            let src_ip = if rng.chance(1, 3) { Some(p.tx_addr.ip()) } else { None };
            let contents = content(len, seed + i);
            let t = Transmit { destination: p.rx_addr, ecn, contents: &contents, segment_size, src_ip };
            if exchange(&mut o, &p, &t, &format!("v6 {v6}")) {
                sent_cases += 1;
            }
        }
    }
    // ---- every boundary shape on every socket family (exhaustive, independent of <ncases>)
    for kind in [Kind::V4, Kind::V6, Kind::DualTx, Kind::DualRx, Kind::DualBoth] {
        sent_cases += shapes(&mut o, &mut rng, kind, seed);
    }
    // ---- an explicit source address other than the kernel's default, on IPv4 and dual-stack senders
    sent_cases += explicit_source(&mut o);
    // ---- a kernel that refuses segmentation offload for this socket (EINVAL on every UDP_SEGMENT send)
    for v6 in [false, true] {
        refused(&mut o, v6, seed);
    }
    let mut s = String::new();
    s += &format!("component=udp\nrule=exhaustive option table of prepare_msg (3 destination families x einval x gso x source x ECN = 288 combinations) and libc CMSG_SPACE values against the model; effective_segment_size on boundary cases; real loopback sockets (v4 and v6) through UdpSocketState::send/recv: payload lengths 1..65507, segment sizes 1/7/500/1200/1452, 1..12 segments with short last segment, every ECN codepoint, explicit source or none; received buffers split by stride exactly as quinn's poll_socket does; non-trivial = a loopback transmission with more than one segment or an ECN codepoint\ncases={}\nevaluations={}\ndistinct_nontrivial={}\n", sent_cases + 1, o.ops.len(), sent_cases);
    for (k, v) in &o.hist {
        s += &format!("op:{k}={v}\n");
    }
    for x in o.samples.iter() {
        s += &format!("sample={x}\n");
    }
    let mut seen = std::collections::BTreeMap::new();
    for f in &o.fails {
        let k = f.split_whitespace().next().unwrap_or("").to_string();
        let c = seen.entry(k).or_insert(0);
        *c += 1;
        if *c <= 3 {
            s += &format!("oracle_fail={f}\n");
        }
    }
    fs::write(format!("{prefix}.stats"), s).unwrap();
    fs::write(format!("{prefix}.ops"), o.ops.join("\n") + "\n").unwrap();
    fs::write(format!("{prefix}.impl"), o.imp.join("\n") + "\n").unwrap();
}
