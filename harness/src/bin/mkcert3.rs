//! one-off: writes certs/cert3.der and certs/key3.der: like mkcert, with three subject alternative names
//! (scenario `tokflow`: one server reachable under several server names, so the client's token store keeps
//! several per-name queues)
fn main() {
    let key = rcgen::KeyPair::generate_for(&rcgen::PKCS_ED25519).unwrap();
    let names = vec!["localhost".to_string(), "alpha.test".to_string(), "beta.test".to_string()];
    let mut params = rcgen::CertificateParams::new(names).unwrap();
    params.serial_number = Some(rcgen::SerialNumber::from(vec![0x43u8; 8]));
    let cert = params.self_signed(&key).unwrap();
    std::fs::create_dir_all("certs").unwrap();
    std::fs::write("certs/cert3.der", cert.der()).unwrap();
    std::fs::write("certs/key3.der", key.serialize_der()).unwrap();
    println!("cert {} bytes key {} bytes", cert.der().len(), key.serialize_der().len());
}
