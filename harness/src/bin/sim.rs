//! sim <scenario> <seed> <nseeds> <outprefix>
//! Runs `nseeds` seeded executions of a scenario family on real client/server endpoints over the
//! adversarial in-memory network, applying the property oracles to the implementation's behaviour.
//! Writes <outprefix>.stats (key=value lines; `oracle_fail=key=<k> …` for each failure).
use std::collections::BTreeMap;
use std::{env, fs, process::exit};

use verif_harness::scenarios;

fn main() {
    let a: Vec<String> = env::args().collect();
    if a.len() != 5 {
        eprintln!("usage: sim <scenario> <seed> <nseeds> <outprefix>");
        exit(2);
    }
    let scen = a[1].as_str();
    let seed: u64 = a[2].parse().expect("seed");
    let n: u64 = a[3].parse().expect("nseeds");
    let prefix = &a[4];
    let Some((rule, f)) = scenarios::lookup(scen) else {
        eprintln!("unknown scenario {scen}");
        exit(2);
    };
    let quiet = env::var("VERIF_SIM_VERBOSE").is_err();
    if quiet {
        std::panic::set_hook(Box::new(|_| {}));
    }
    let raw = env::var("VERIF_SIM_RAWSEED").is_ok();
    let threads: u64 = env::var("VERIF_SIM_THREADS").ok().and_then(|v| v.parse().ok()).unwrap_or(12).max(1);
    let run_one = move |i: u64| -> scenarios::Outcome {
        let s = if raw { seed + i } else { seed.wrapping_mul(1_000_003).wrapping_add(i) };
        let r = std::panic::catch_unwind(|| {
            let mut o = scenarios::Outcome::default();
            f(s, &mut o);
            o
        });
        match r {
            Ok(o) => o,
            Err(e) => {
                let msg = e.downcast_ref::<String>().cloned().or_else(|| e.downcast_ref::<&str>().map(|s| s.to_string())).unwrap_or_default();
                let mut o = scenarios::Outcome::default();
                o.fails.push(format!("key=panic-in-{scen} seed={s} {msg}"));
                o.runs += 1;
                o
            }
        }
    };
    // seeds are independent executions: run them on worker threads, merge in seed order
    let mut results: Vec<(u64, scenarios::Outcome)> = Vec::new();
    std::thread::scope(|sc| {
        let mut hs = Vec::new();
        for t in 0..threads.min(n.max(1)) {
            let run_one = &run_one;
            hs.push(sc.spawn(move || {
                let mut v = Vec::new();
                let mut i = t;
                while i < n {
                    v.push((i, run_one(i)));
                    i += threads;
                }
                v
            }));
        }
        for h in hs {
            results.extend(h.join().unwrap());
        }
    });
    results.sort_by_key(|r| r.0);
    let mut out = scenarios::Outcome::default();
    for (_, o) in results {
        out.merge(o);
    }
    let mut s = String::new();
    s += &format!("component=sim:{scen}\nrule={rule}\ncases={}\nevaluations={}\ndistinct_nontrivial={}\n", out.runs, out.evaluations, out.nontrivial);
    for (k, v) in &out.hist {
        s += &format!("op:{k}={v}\n");
    }
    for smp in out.samples.iter().take(4) {
        s += &format!("sample={smp}\n");
    }
    let mut seen = BTreeMap::new();
    for f in &out.fails {
        let key = f.split_whitespace().next().unwrap_or("").to_string();
        let c = seen.entry(key).or_insert(0);
        *c += 1;
        if *c <= 3 {
            s += &format!("oracle_fail={f}\n");
        }
    }
    fs::write(format!("{prefix}.stats"), s).unwrap();
    fs::write(format!("{prefix}.ops"), out.model_ops.join("\n") + "\n").unwrap();
    fs::write(format!("{prefix}.impl"), out.model_impl.join("\n") + "\n").unwrap();
}
