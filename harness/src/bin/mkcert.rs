//! one-off: writes certs/cert.der and certs/key.der (Ed25519: deterministic 64-byte signatures keep
//! handshake datagram sizes identical across runs)
fn main() {
    let key = rcgen::KeyPair::generate_for(&rcgen::PKCS_ED25519).unwrap();
    let mut params = rcgen::CertificateParams::new(vec!["localhost".to_string()]).unwrap();
    params.serial_number = Some(rcgen::SerialNumber::from(vec![0x42u8; 8]));
    let cert = params.self_signed(&key).unwrap();
    std::fs::create_dir_all("certs").unwrap();
    std::fs::write("certs/cert.der", cert.der()).unwrap();
    std::fs::write("certs/key.der", key.serialize_der()).unwrap();
    println!("cert {} bytes key {} bytes", cert.der().len(), key.serialize_der().len());
}
