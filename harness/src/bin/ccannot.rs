//! ccannot <file>: read raw `cc …` request lines (observed values omitted or stale), execute them on the
//! real controllers and print the lines completed with the observed values, each followed by ` => response`
//! when called with `-v`.  Tool for writing corpus files and for shrinking (tools/ccshrink.py).
use std::{env, fs};

fn main() {
    let a: Vec<String> = env::args().collect();
    let verbose = a.iter().any(|x| x == "-v");
    let file = a.iter().skip(1).find(|x| *x != "-v").expect("usage: ccannot [-v] <file>");
    std::panic::set_hook(Box::new(|_| {}));
    let lines: Vec<String> = fs::read_to_string(file)
        .unwrap()
        .lines()
        .filter(|l| l.starts_with("cc "))
        .map(str::to_string)
        .collect();
    let (out, resps) = verif_harness::gen::c12::cc_annotate(&lines);
    for (l, r) in out.iter().zip(resps.iter()) {
        if verbose {
            println!("{l} => {r}");
        } else {
            println!("{l}");
        }
    }
}
