//! asyncsim <seed> <ncases> <outprefix>
//! C18: drives the REAL async `quinn` crate (Endpoint / Connection / SendStream / RecvStream futures and the
//! spawned endpoint and connection drivers) under a fully deterministic environment built on quinn's public
//! extension points only: a custom `quinn::Runtime` (virtual clock, timers registered with the clock, `spawn`
//! into a task list owned by the harness), an in-memory `AsyncUdpSocket`/`UdpSender` pair with seeded
//! delay/reorder/loss (fair: never more than 3 consecutive drops), and a seeded scheduler that polls exactly one
//! ready task at a time. No tokio runtime, no threads, no OS sockets, no real time.
use std::collections::{BTreeMap, BTreeSet, VecDeque};
use std::future::Future;
use std::io::{self, IoSliceMut};
use std::net::SocketAddr;
use std::panic::{catch_unwind, AssertUnwindSafe};
use std::pin::Pin;
use std::sync::atomic::{AtomicBool, AtomicU64, Ordering::SeqCst};
use std::sync::{Arc, Mutex};
use std::task::{Context, Poll, Wake, Waker};
use std::time::{Duration, Instant};
use std::{env, fmt, fs, process::exit};

use bytes::Bytes;
use quinn::udp::{EcnCodepoint, RecvMeta, Transmit};
use quinn::{
    AsyncTimer, AsyncUdpSocket, ClientConfig, Connection, ConnectionError, Endpoint, IdleTimeout, RecvStream,
    Runtime, SendStream, TransportConfig, UdpSender, VarInt, WriteError,
};
use verif_harness::sim::{client_config, content_byte, endpoint_config, server_config, SimClock};
use verif_harness::Rng;

#[path = "../asyncsim/drvwake.rs"]
mod drvwake;
#[path = "../asyncsim/qev.rs"]
mod qev;

const CLIENT: usize = 0;
const SERVER: usize = 1;
const SIDE: [&str; 2] = ["client", "server"];
const MS: u64 = 1_000_000;
const SEC: u64 = 1_000_000_000;
/// "deep quiescence": no ready task and the next timer / delivery is further away than this
const DEEP_NS: u64 = 5 * SEC;

// ------------------------------------------------------------------------------------------------
// task wakers
// ------------------------------------------------------------------------------------------------

/// set while the harness itself wakes a task (sleep timer, yield): such wakes are not attributed to quinn
static HARNESS_WAKE: AtomicBool = AtomicBool::new(false);

#[derive(Clone, Copy, PartialEq, Eq, Debug)]
enum Mode {
    /// running, or awaiting a quinn operation
    Busy,
    /// inside a harness sleep / yield: nothing of quinn is being awaited by this task
    Idle,
    /// finished or killed: every handle it owned has been dropped
    Done,
}

#[derive(Clone, Copy, PartialEq, Eq, Debug)]
enum Class {
    Driver,
    /// must complete while the connection is open (workload)
    Job,
    /// may stay pending while the connection is open, must complete once it is closed or lost
    UntilClose,
    /// endpoint-level accept loop: may stay pending until killed or the endpoint is closed
    EndpointLevel,
    /// `wait_idle`: must complete in the teardown phase
    Teardown,
}

struct TaskInfo {
    op: String,
    mode: Mode,
    class: Class,
    /// stream-slot registrations (job id, 0 = read / 1 = write) possibly left behind in
    /// `blocked_readers`/`blocked_writers` by a future that returned Pending: each may produce ONE later wake
    credits: BTreeSet<(u64, u8)>,
    cancels: u64,
}

struct TaskWaker {
    ready: AtomicBool,
    wakes: AtomicU64,
    /// wakes attributed to quinn while the task was Idle/Done and no credit covered them
    stale: AtomicU64,
    covered: AtomicU64,
    info: Mutex<TaskInfo>,
}

impl TaskWaker {
    fn new(class: Class) -> Arc<Self> {
        Arc::new(Self {
            ready: AtomicBool::new(true),
            wakes: AtomicU64::new(0),
            stale: AtomicU64::new(0),
            covered: AtomicU64::new(0),
            info: Mutex::new(TaskInfo { op: String::new(), mode: Mode::Busy, class, credits: BTreeSet::new(), cancels: 0 }),
        })
    }
}

impl Wake for TaskWaker {
    fn wake(self: Arc<Self>) {
        self.wake_by_ref()
    }
    fn wake_by_ref(self: &Arc<Self>) {
        self.ready.store(true, SeqCst);
        if HARNESS_WAKE.load(SeqCst) {
            return;
        }
        self.wakes.fetch_add(1, SeqCst);
        let mut i = self.info.lock().unwrap();
        if i.class != Class::Driver && i.mode != Mode::Busy {
            if let Some(c) = i.credits.iter().next().copied() {
                i.credits.remove(&c);
                self.covered.fetch_add(1, SeqCst);
            } else {
                self.stale.fetch_add(1, SeqCst);
            }
        }
    }
}

// ------------------------------------------------------------------------------------------------
// world: virtual clock, timers, network, spawn queue
// ------------------------------------------------------------------------------------------------

type BoxFut = Pin<Box<dyn Future<Output = ()> + Send>>;

struct Dgram {
    from: SocketAddr,
    ecn: Option<EcnCodepoint>,
    data: Vec<u8>,
}

struct Flight {
    at: u64,
    seq: u64,
    to: usize,
    d: Dgram,
}

struct TimerEnt {
    deadline: u64,
    waker: Option<Waker>,
    harness: bool,
    oneshot: bool,
}

#[derive(Clone, Debug)]
struct NetCfg {
    loss_pct: u64,
    min_delay: u64,
    jitter: u64,
    send_block_pct: u64,
    segments: usize,
    /// seeded transient `ConnectionReset` errors of `poll_recv` (quinn ignores them: ICMP-induced, forgeable)
    recv_reset_pct: u64,
}

struct Spawn {
    name: String,
    tw: Arc<TaskWaker>,
    fut: BoxFut,
}

struct WorldInner {
    base: Instant,
    now: u64,
    tick: u64,
    timers: BTreeMap<u64, TimerEnt>,
    next_timer: u64,
    flights: Vec<Flight>,
    seq: u64,
    inbox: [VecDeque<Dgram>; 2],
    rx_waker: [Option<Waker>; 2],
    addrs: [SocketAddr; 2],
    drops_in_row: u32,
    net: NetCfg,
    rng: Rng,
    spawnq: Vec<Spawn>,
    nspawn: [u32; 2],
    sent: u64,
    dropped: u64,
    delivered: u64,
    send_blocks: u64,
    timer_fires: u64,
    /// fault injection: from now on `poll_recv` / `poll_send` of this side fail with a fatal I/O error
    recv_fail: [bool; 2],
    send_fail: [bool; 2],
    io_errors: u64,
    transient_errors: u64,
    /// every task ever absorbed by the executor (name, wake state, waker): lets the driver-wake oracle find the
    /// task behind the waker a connection driver left in `State::driver`
    registry: Vec<(String, Arc<TaskWaker>, Waker)>,
}

#[derive(Clone)]
struct World(Arc<Mutex<WorldInner>>);

impl fmt::Debug for World {
    fn fmt(&self, f: &mut fmt::Formatter<'_>) -> fmt::Result {
        f.write_str("World")
    }
}

impl World {
    fn l(&self) -> std::sync::MutexGuard<'_, WorldInner> {
        self.0.lock().unwrap()
    }
    fn now(&self) -> u64 {
        self.l().now
    }
    fn spawn(&self, name: String, class: Class, fut: BoxFut) -> Arc<TaskWaker> {
        let tw = TaskWaker::new(class);
        self.l().spawnq.push(Spawn { name, tw: tw.clone(), fut });
        tw
    }
    fn spawn_with(&self, name: String, tw: Arc<TaskWaker>, fut: BoxFut) {
        self.l().spawnq.push(Spawn { name, tw, fut });
    }
}

impl WorldInner {
    fn ns_of(&self, i: Instant) -> u64 {
        u64::try_from(i.saturating_duration_since(self.base).as_nanos()).unwrap_or(u64::MAX)
    }
    fn add_timer(&mut self, deadline: u64, waker: Option<Waker>, harness: bool, oneshot: bool) -> u64 {
        let id = self.next_timer;
        self.next_timer += 1;
        self.timers.insert(id, TimerEnt { deadline, waker, harness, oneshot });
        id
    }
    /// earliest instant at which something can happen by itself
    fn next_event(&self) -> Option<u64> {
        let t = self.timers.values().filter(|t| t.waker.is_some()).map(|t| t.deadline).min();
        let f = self.flights.iter().map(|f| f.at).min();
        match (t, f) {
            (Some(a), Some(b)) => Some(a.min(b)),
            (a, b) => a.or(b),
        }
    }
    /// fire every timer and deliver every datagram that is due at `now`
    fn fire_due(&mut self) {
        let now = self.now;
        // deliveries, in (time, sequence) order
        let mut due: Vec<Flight> = Vec::new();
        let mut i = 0;
        while i < self.flights.len() {
            if self.flights[i].at <= now {
                due.push(self.flights.swap_remove(i));
            } else {
                i += 1;
            }
        }
        due.sort_by_key(|f| (f.at, f.seq));
        for f in due {
            self.delivered += 1;
            self.inbox[f.to].push_back(f.d);
            if let Some(w) = self.rx_waker[f.to].take() {
                w.wake();
            }
        }
        let ids: Vec<u64> = self.timers.iter().filter(|(_, t)| t.waker.is_some() && t.deadline <= now).map(|(k, _)| *k).collect();
        for id in ids {
            let (w, harness, oneshot) = {
                let t = self.timers.get_mut(&id).unwrap();
                (t.waker.take(), t.harness, t.oneshot)
            };
            if oneshot {
                self.timers.remove(&id);
            }
            if let Some(w) = w {
                self.timer_fires += 1;
                if harness {
                    HARNESS_WAKE.store(true, SeqCst);
                    w.wake();
                    HARNESS_WAKE.store(false, SeqCst);
                } else {
                    w.wake();
                }
            }
        }
    }
}

// ---- Runtime

#[derive(Debug)]
struct SimRuntime {
    w: World,
    side: usize,
}

impl Runtime for SimRuntime {
    fn new_timer(&self, i: Instant) -> Pin<Box<dyn AsyncTimer>> {
        let mut w = self.w.l();
        let d = w.ns_of(i);
        let id = w.add_timer(d, None, false, false);
        Box::pin(SimTimer { w: self.w.clone(), id })
    }
    fn spawn(&self, future: Pin<Box<dyn Future<Output = ()> + Send>>) {
        let n = {
            let mut w = self.w.l();
            let n = w.nspawn[self.side];
            w.nspawn[self.side] += 1;
            n
        };
        let name = if n == 0 { format!("drv:{}:endpoint", SIDE[self.side]) } else { format!("drv:{}:conn{}", SIDE[self.side], n - 1) };
        self.w.spawn(name, Class::Driver, future);
    }
    fn wrap_udp_socket(&self, _t: std::net::UdpSocket) -> io::Result<Box<dyn AsyncUdpSocket>> {
        Err(io::Error::other("asyncsim: no OS sockets"))
    }
    fn now(&self) -> Instant {
        let mut w = self.w.l();
        w.now += w.tick;
        w.base + Duration::from_nanos(w.now)
    }
}

#[derive(Debug)]
struct SimTimer {
    w: World,
    id: u64,
}

impl AsyncTimer for SimTimer {
    fn reset(self: Pin<&mut Self>, i: Instant) {
        let mut w = self.w.l();
        let d = w.ns_of(i);
        if let Some(t) = w.timers.get_mut(&self.id) {
            t.deadline = d;
        }
    }
    fn poll(self: Pin<&mut Self>, cx: &mut Context<'_>) -> Poll<()> {
        let mut w = self.w.l();
        let now = w.now;
        let t = w.timers.get_mut(&self.id).expect("timer registered");
        if now >= t.deadline {
            t.waker = None;
            Poll::Ready(())
        } else {
            t.waker = Some(cx.waker().clone());
            Poll::Pending
        }
    }
}

impl Drop for SimTimer {
    fn drop(&mut self) {
        self.w.l().timers.remove(&self.id);
    }
}

// ---- sockets

#[derive(Debug)]
struct SimSocket {
    w: World,
    side: usize,
}

impl AsyncUdpSocket for SimSocket {
    fn create_sender(&self) -> Pin<Box<dyn UdpSender>> {
        let segments = self.w.l().net.segments;
        Box::pin(SimSender { w: self.w.clone(), side: self.side, blocked: None, segments })
    }
    fn poll_recv(&mut self, cx: &mut Context<'_>, bufs: &mut [IoSliceMut<'_>], meta: &mut [RecvMeta]) -> Poll<io::Result<usize>> {
        let mut w = self.w.l();
        if w.recv_fail[self.side] {
            w.io_errors += 1;
            return Poll::Ready(Err(io::Error::other("asyncsim: injected fatal receive error")));
        }
        if w.net.recv_reset_pct > 0 && !w.inbox[self.side].is_empty() && w.rng.below(100) < w.net.recv_reset_pct {
            w.transient_errors += 1;
            return Poll::Ready(Err(io::Error::from(io::ErrorKind::ConnectionReset)));
        }
        let mut n = 0;
        while n < bufs.len().min(meta.len()) {
            let Some(d) = w.inbox[self.side].pop_front() else { break };
            let len = d.data.len().min(bufs[n].len());
            bufs[n][..len].copy_from_slice(&d.data[..len]);
            let mut m = RecvMeta::default();
            m.addr = d.from;
            m.len = len;
            m.stride = len;
            m.ecn = d.ecn;
            m.dst_ip = None;
            meta[n] = m;
            n += 1;
        }
        if n > 0 {
            return Poll::Ready(Ok(n));
        }
        w.rx_waker[self.side] = Some(cx.waker().clone());
        Poll::Pending
    }
    fn local_addr(&self) -> io::Result<SocketAddr> {
        Ok(self.w.l().addrs[self.side])
    }
    fn max_receive_segments(&self) -> usize {
        1
    }
    fn may_fragment(&self) -> bool {
        false
    }
}

#[derive(Debug)]
struct SimSender {
    w: World,
    side: usize,
    blocked: Option<u64>,
    segments: usize,
}

impl UdpSender for SimSender {
    fn poll_send(mut self: Pin<&mut Self>, t: &Transmit<'_>, cx: &mut Context<'_>) -> Poll<io::Result<()>> {
        let side = self.side;
        let wc = self.w.clone();
        let mut w = wc.l();
        if w.send_fail[side] {
            w.io_errors += 1;
            return Poll::Ready(Err(io::Error::other("asyncsim: injected fatal send error")));
        }
        // seeded "socket not writable": register the caller, become writable a little later
        if let Some(id) = self.blocked {
            if let Some(ent) = w.timers.get_mut(&id) {
                ent.waker = Some(cx.waker().clone());
                return Poll::Pending;
            }
            self.blocked = None;
        } else if w.net.send_block_pct > 0 && w.rng.below(100) < w.net.send_block_pct {
            let at = w.now + 5_000 + w.rng.below(200_000);
            let id = w.add_timer(at, Some(cx.waker().clone()), false, true);
            w.send_blocks += 1;
            self.blocked = Some(id);
            return Poll::Pending;
        }
        let to = if t.destination == w.addrs[0] {
            0
        } else if t.destination == w.addrs[1] {
            1
        } else {
            return Poll::Ready(Ok(()));
        };
        let from = w.addrs[side];
        let seg = t.segment_size.unwrap_or(t.contents.len()).max(1);
        for chunk in t.contents.chunks(seg) {
            w.sent += 1;
            let lose = w.net.loss_pct > 0 && w.rng.below(100) < w.net.loss_pct && w.drops_in_row < 3;
            if lose {
                w.drops_in_row += 1;
                w.dropped += 1;
                continue;
            }
            w.drops_in_row = 0;
            let jitter = w.net.jitter;
            let at = w.now + w.net.min_delay + w.rng.below(jitter + 1);
            let seq = w.seq;
            w.seq += 1;
            let ecn = t.ecn;
            w.flights.push(Flight { at, seq, to, d: Dgram { from, ecn, data: chunk.to_vec() } });
        }
        Poll::Ready(Ok(()))
    }
    fn max_transmit_segments(&self) -> usize {
        self.segments
    }
}

// ---- harness-side futures: sleep on the virtual clock, yield

struct Sleep {
    w: World,
    until: u64,
    id: Option<u64>,
}

impl Future for Sleep {
    type Output = ();
    fn poll(mut self: Pin<&mut Self>, cx: &mut Context<'_>) -> Poll<()> {
        let wc = self.w.clone();
        let mut w = wc.l();
        if w.now >= self.until {
            if let Some(id) = self.id.take() {
                w.timers.remove(&id);
            }
            return Poll::Ready(());
        }
        match self.id {
            Some(id) => w.timers.get_mut(&id).unwrap().waker = Some(cx.waker().clone()),
            None => self.id = Some(w.add_timer(self.until, Some(cx.waker().clone()), true, false)),
        }
        Poll::Pending
    }
}

impl Drop for Sleep {
    fn drop(&mut self) {
        if let Some(id) = self.id.take() {
            self.w.l().timers.remove(&id);
        }
    }
}

struct YieldNow(bool);

impl Future for YieldNow {
    type Output = ();
    fn poll(mut self: Pin<&mut Self>, cx: &mut Context<'_>) -> Poll<()> {
        if self.0 {
            return Poll::Ready(());
        }
        self.0 = true;
        HARNESS_WAKE.store(true, SeqCst);
        cx.waker().wake_by_ref();
        HARNESS_WAKE.store(false, SeqCst);
        Poll::Pending
    }
}

/// polls `fut`; with a plan `(n, late)` gives up after the n-th Pending — immediately, or (late) only once the
/// registration made by that poll has woken us, without polling the future again. The caller then DROPS the
/// still-pending future. Output: (value if completed, whether the future ever returned Pending).
struct PollN<'a, F: Future> {
    fut: Pin<&'a mut F>,
    plan: Option<(u32, bool)>,
    pend: u32,
    armed: bool,
}

impl<F: Future> Future for PollN<'_, F> {
    type Output = (Option<F::Output>, bool);
    fn poll(self: Pin<&mut Self>, cx: &mut Context<'_>) -> Poll<Self::Output> {
        let this = self.get_mut();
        if this.armed {
            return Poll::Ready((None, true));
        }
        match this.fut.as_mut().poll(cx) {
            Poll::Ready(v) => Poll::Ready((Some(v), this.pend > 0)),
            Poll::Pending => {
                this.pend += 1;
                match this.plan {
                    Some((n, late)) if this.pend >= n => {
                        if late {
                            this.armed = true;
                            Poll::Pending
                        } else {
                            Poll::Ready((None, true))
                        }
                    }
                    _ => Poll::Pending,
                }
            }
        }
    }
}

// ------------------------------------------------------------------------------------------------
// executor: one ready task per step, chosen by the seeded scheduler
// ------------------------------------------------------------------------------------------------

#[derive(Clone, Copy, Debug, PartialEq, Eq)]
enum Policy {
    Uniform,
    PreferDrivers,
    PreferApps,
    Newest,
}

struct Task {
    name: String,
    tw: Arc<TaskWaker>,
    waker: Waker,
    fut: Option<BoxFut>,
    polls: u64,
    pendings: u64,
}

impl Task {
    fn done(&self) -> bool {
        self.fut.is_none()
    }
    fn class(&self) -> Class {
        self.tw.info.lock().unwrap().class
    }
    fn op(&self) -> String {
        self.tw.info.lock().unwrap().op.clone()
    }
}

enum Step {
    Polled,
    /// nothing ready; the next event is at this virtual time
    Idle(u64),
    /// nothing ready, nothing scheduled
    Quiescent,
    Panicked(String),
}

struct Exec {
    w: World,
    /// the application's connection handles and the case log (driver-wake oracle)
    hs: Hs,
    log: Log,
    tasks: Vec<Task>,
    rng: Rng,
    policy: Policy,
    steps: u64,
    polls_ready: u64,
    polls_pending: u64,
}

thread_local! {
    static LAST_PANIC: std::cell::RefCell<String> = const { std::cell::RefCell::new(String::new()) };
}

impl Exec {
    fn absorb(&mut self) {
        let q: Vec<Spawn> = std::mem::take(&mut self.w.l().spawnq);
        for s in q {
            let waker = Waker::from(s.tw.clone());
            self.w.l().registry.push((s.name.clone(), s.tw.clone(), waker.clone()));
            self.tasks.push(Task { name: s.name, tw: s.tw, waker, fut: Some(s.fut), polls: 0, pendings: 0 });
        }
    }

    fn step(&mut self) -> Step {
        self.absorb();
        self.w.l().fire_due();
        let ready: Vec<usize> = (0..self.tasks.len()).filter(|&i| !self.tasks[i].done() && self.tasks[i].tw.ready.load(SeqCst)).collect();
        if ready.is_empty() {
            return match self.w.l().next_event() {
                Some(t) => Step::Idle(t),
                None => Step::Quiescent,
            };
        }
        let pick = {
            let drivers: Vec<usize> = ready.iter().copied().filter(|&i| self.tasks[i].class() == Class::Driver).collect();
            let apps: Vec<usize> = ready.iter().copied().filter(|&i| self.tasks[i].class() != Class::Driver).collect();
            let pool: &Vec<usize> = match self.policy {
                Policy::PreferDrivers if !drivers.is_empty() && self.rng.below(100) < 80 => &drivers,
                Policy::PreferApps if !apps.is_empty() && self.rng.below(100) < 80 => &apps,
                _ => &ready,
            };
            if self.policy == Policy::Newest && self.rng.below(100) < 60 {
                *pool.last().unwrap()
            } else {
                pool[self.rng.below(pool.len() as u64) as usize]
            }
        };
        self.steps += 1;
        // driver-wake rule: an application-side poll that leaves the protocol state machine with something to
        // transmit must leave the connection driver runnable
        let app = self.tasks[pick].class() != Class::Driver;
        let before = if app { Some((drvwake::probe_all(&self.w, &self.hs), self.tasks[pick].op())) } else { None };
        let r = self.poll_task(pick);
        if let (Some((before, op)), false) = (before, matches!(r, Step::Panicked(_))) {
            let after = drvwake::probe_all(&self.w, &self.hs);
            let what = format!("task {} [{}] -> [{}]", self.tasks[pick].name, op, self.tasks[pick].op());
            drvwake::judge(&before, &after, &self.hs, &self.log, &what);
        }
        r
    }

    fn poll_task(&mut self, pick: usize) -> Step {
        let t = &mut self.tasks[pick];
        t.tw.ready.store(false, SeqCst);
        t.polls += 1;
        let waker = t.waker.clone();
        let mut cx = Context::from_waker(&waker);
        let fut = t.fut.as_mut().unwrap();
        let r = catch_unwind(AssertUnwindSafe(|| fut.as_mut().poll(&mut cx)));
        match r {
            Ok(Poll::Ready(())) => {
                self.polls_ready += 1;
                let f = t.fut.take();
                // dropping the finished future may drop handles: do it before marking the task Done
                let d = catch_unwind(AssertUnwindSafe(|| drop(f)));
                let mut i = t.tw.info.lock().unwrap();
                i.mode = Mode::Done;
                i.credits.clear();
                i.op = "done".into();
                drop(i);
                if d.is_err() {
                    return Step::Panicked(format!("task {} (drop): {}", t.name, LAST_PANIC.with(|p| p.borrow().clone())));
                }
                Step::Polled
            }
            Ok(Poll::Pending) => {
                self.polls_pending += 1;
                t.pendings += 1;
                Step::Polled
            }
            Err(_) => {
                let name = t.name.clone();
                let op = t.op();
                // the future (and whatever it holds) is leaked on purpose: its state is unknown
                std::mem::forget(t.fut.take());
                Step::Panicked(format!("task {name} op {op}: {}", LAST_PANIC.with(|p| p.borrow().clone())))
            }
        }
    }

    /// cancel a task from outside: drop its (pending) future and every handle it owns
    fn kill(&mut self, idx: usize) -> Result<(), String> {
        let before = drvwake::probe_all(&self.w, &self.hs);
        let r = self.kill_inner(idx);
        if r.is_ok() {
            let after = drvwake::probe_all(&self.w, &self.hs);
            let what = format!("dropping task {} with every handle it owns", self.tasks[idx].name);
            drvwake::judge(&before, &after, &self.hs, &self.log, &what);
        }
        r
    }

    fn kill_inner(&mut self, idx: usize) -> Result<(), String> {
        let t = &mut self.tasks[idx];
        if let Some(f) = t.fut.take() {
            let d = catch_unwind(AssertUnwindSafe(|| drop(f)));
            let mut i = t.tw.info.lock().unwrap();
            i.mode = Mode::Done;
            i.credits.clear();
            i.op = format!("killed while in: {}", i.op);
            if d.is_err() {
                return Err(format!("task {} (kill): {}", t.name, LAST_PANIC.with(|p| p.borrow().clone())));
            }
        }
        Ok(())
    }

    fn advance_to(&mut self, t: u64) {
        let mut w = self.w.l();
        if t > w.now {
            w.now = t;
        }
    }
}

// ------------------------------------------------------------------------------------------------
// plan of one case (everything derives from the seed)
// ------------------------------------------------------------------------------------------------

#[derive(Clone, Copy, Debug, PartialEq, Eq)]
enum WMode {
    Write,
    WriteAll,
    WriteChunk,
    WriteChunks,
}

#[derive(Clone, Copy, Debug, PartialEq, Eq)]
enum RMode {
    Read,
    ReadChunk,
    ReadChunks,
    ReadExact,
    ReadToEnd,
}

#[derive(Clone, Copy, Debug, PartialEq, Eq)]
enum End {
    Finish,
    FinishAwaitStopped,
    DropNoFinish,
    /// write only the first `reset_at` bytes, then `SendStream::reset(code)` — with `stopped()` futures of the
    /// stream pending in other tasks
    Reset(u32),
}

#[derive(Clone, Copy, Debug, PartialEq, Eq)]
enum Fate {
    ReadAll,
    /// drop the RecvStream (implicit stop) once this many bytes were read, with a read left pending
    DropEarly(u64),
    /// explicit stop(code) once this many bytes were read
    Stop(u64),
    /// do not read: await `received_reset()` (only for streams the writer resets)
    AwaitReset,
}

#[derive(Clone, Debug)]
struct Job {
    id: usize,
    len: usize,
    wmode: WMode,
    rmode: RMode,
    wcancel: bool,
    rcancel: bool,
    end: End,
    fate: Fate,
    watch_stopped: bool,
    wchunk: usize,
    rchunk: usize,
    /// End::Reset: bytes written before the reset; whether the handle is kept (and a fresh `stopped()` awaited)
    reset_at: usize,
    reset_keep: bool,
}

#[derive(Clone, Debug)]
struct StreamPlan {
    fwd: Job,
    bwd: Option<Job>,
}

#[derive(Clone, Debug, Default)]
struct SidePlan {
    bi: Vec<StreamPlan>,
    uni: Vec<StreamPlan>,
    dgrams: usize,
    dgram_wait: bool,
    trailing_accept: bool,
    cancel_conn_ops: bool,
    /// numbers of CONCURRENT waiter tasks on the same condition ([bi, uni]); 0/1 = a single task
    k_accept: [usize; 2],
    k_open: [usize; 2],
    k_dg_read: usize,
    k_dg_send: usize,
    /// every datagram of the peer is known to arrive (loss-free network, waiting sender): readers have quotas
    dg_quota: bool,
    /// concurrent closed() / handshake_confirmed() / authenticated() / stopped() / wait_idle() waiters
    k_watch: usize,
}

#[derive(Clone, Copy, Debug, PartialEq, Eq)]
enum CloseKind {
    Explicit(usize),
    DropHandles(usize),
    EndpointClose(usize),
    IdleTimeout,
    /// this side's socket starts failing `poll_recv` with a fatal error: its endpoint driver terminates
    RecvError(usize),
    /// this side's `UdpSender::poll_send` starts failing with a fatal error
    SendError(usize),
}

#[derive(Clone, Copy, Debug, PartialEq, Eq)]
enum IncomingKind {
    Accept,
    IntoFuture,
    RetryFirst,
}

#[derive(Clone, Debug)]
struct TcPlan {
    max_bi: u32,
    max_uni: u32,
    stream_rwnd: u32,
    rwnd: u32,
    swnd: u64,
    dg_sbuf: usize,
}

#[derive(Clone, Debug)]
struct Plan {
    sides: [SidePlan; 2],
    tc: [TcPlan; 2],
    net: NetCfg,
    policy: Policy,
    close: CloseKind,
    /// close this many scheduler steps after the closing side is connected (None: after the workload completed)
    mid: Option<u64>,
    /// drop this side's Endpoint handle at the close action instead of waiting for idle first
    drop_endpoint_early: Option<usize>,
    incoming: IncomingKind,
    tick: u64,
    /// this case runs several concurrent waiters on the same conditions
    multi: bool,
    /// producers leave a pause after each unit (stream, datagram, connection attempt)
    unit_gaps: bool,
    /// concurrent Endpoint::accept waiters on the server and further (refused) connection attempts of the client
    k_ep_accept: usize,
    extra_connects: usize,
    /// this case is a 0-RTT case (replaces the generic workload)
    zrtt: Option<ZrttPlan>,
    /// this case is a quiescent single-event case (replaces the generic workload; harness/src/asyncsim/qev.rs)
    qev: Option<qev::QevPlan>,
    /// this case belongs to one of the round-4 families (replaces the generic workload; harness/src/asyncsim/x4.rs)
    x4: Option<x4::X4Plan>,
}

/// what is done, after the handshake, with the SendStream handle of an early (0-RTT) stream that the server
/// rejected; the handle is dropped afterwards
#[derive(Clone, Copy, Debug, PartialEq, Eq)]
enum Act {
    Write,
    Stopped,
    Finish,
    SetPriority,
    Reset,
}

/// a first connection obtains a session ticket; the second one starts with `Connecting::into_0rtt`: early
/// streams (the first `n_bi` bidirectional, then `n_uni` unidirectional) are opened and written before the
/// handshake completes. The server accepts the early data (same TLS state) or rejects it (server config with
/// fresh TLS state installed between the connections). After a rejection the client opens the same number of
/// streams again (they get the SAME ids) and uses them while the early handles are still used and then dropped.
#[derive(Clone, Debug)]
struct ZrttPlan {
    reject: bool,
    n_bi: usize,
    n_uni: usize,
    early_len: Vec<usize>,
    len: Vec<usize>,
    back_len: Vec<usize>,
    acts: Vec<Vec<Act>>,
    /// the early handles are used this long after the new streams were started
    act_at: u64,
    /// `RecvStream::stop` on the early receive half BEFORE the handshake completes
    stop_early_recv: Vec<bool>,
    /// a `stopped()` future of the early stream is pending across the end of the handshake
    pend_stopped: Vec<bool>,
    server_0rtt: bool,
    wchunk: usize,
}

fn gen_zrtt(rng: &mut Rng) -> ZrttPlan {
    let n_bi = rng.below(3) as usize;
    let n_uni = if n_bi == 0 { 1 + rng.below(3) as usize } else { rng.below(3) as usize };
    let n = n_bi + n_uni;
    let all = [Act::Write, Act::Stopped, Act::Finish, Act::SetPriority, Act::Reset];
    ZrttPlan {
        reject: rng.chance(2, 3),
        n_bi,
        n_uni,
        early_len: (0..n).map(|_| 1 + rng.below(900) as usize).collect(),
        len: (0..n).map(|_| 12_000 + rng.below(40_000) as usize).collect(),
        back_len: (0..n).map(|_| 1 + rng.below(20_000) as usize).collect(),
        acts: (0..n).map(|_| (0..rng.below(4)).map(|_| *rng.pick(&all)).collect()).collect(),
        act_at: 5 * MS + rng.below(20 * MS),
        stop_early_recv: (0..n).map(|_| rng.chance(1, 4)).collect(),
        pend_stopped: (0..n).map(|_| rng.chance(1, 2)).collect(),
        server_0rtt: rng.chance(1, 2),
        wchunk: *rng.pick(&[700usize, 3000, 70_000]),
    }
}

fn gen_job(rng: &mut Rng, id: &mut usize) -> Job {
    *id += 1;
    let len = match rng.below(8) {
        0 => 0,
        1 => 1 + rng.below(40) as usize,
        2 => 1200,
        3 => 1000 + rng.below(4000) as usize,
        4 | 5 => 5000 + rng.below(20_000) as usize,
        6 => 30_000 + rng.below(34_000) as usize,
        _ => rng.below(3000) as usize,
    };
    let wmode = *rng.pick(&[WMode::Write, WMode::Write, WMode::WriteAll, WMode::WriteChunk, WMode::WriteChunks]);
    let rmode = *rng.pick(&[RMode::Read, RMode::Read, RMode::ReadChunk, RMode::ReadChunk, RMode::ReadChunks, RMode::ReadExact, RMode::ReadToEnd]);
    let fate = if matches!(rmode, RMode::ReadToEnd | RMode::ReadExact) {
        Fate::ReadAll
    } else {
        match rng.below(7) {
            0 => Fate::DropEarly(rng.below(len as u64 + 1)),
            1 => Fate::Stop(rng.below(len as u64 + 1)),
            _ => Fate::ReadAll,
        }
    };
    Job {
        id: *id,
        len,
        wmode,
        rmode,
        wcancel: matches!(wmode, WMode::Write | WMode::WriteChunks) && rng.chance(2, 3),
        rcancel: matches!(rmode, RMode::Read | RMode::ReadChunk | RMode::ReadChunks) && rng.chance(2, 3),
        end: *rng.pick(&[End::Finish, End::Finish, End::FinishAwaitStopped, End::DropNoFinish, End::DropNoFinish]),
        fate,
        watch_stopped: rng.chance(1, 2),
        wchunk: *rng.pick(&[1usize, 100, 1000, 5000, 70_000]),
        rchunk: *rng.pick(&[1usize, 7, 500, 4096, 70_000]),
        reset_at: 0,
        reset_keep: false,
    }
}

/// turn a job into one whose writer resets the stream locally (with `stopped()` watchers pending)
fn make_reset_job(rng: &mut Rng, j: &mut Job) {
    j.end = End::Reset(9);
    j.reset_at = match rng.below(4) {
        0 => 0,
        1 => j.len,
        _ => rng.below(j.len as u64 + 1) as usize,
    };
    j.reset_keep = rng.chance(1, 2);
    j.watch_stopped = rng.chance(5, 6);
    if rng.chance(1, 3) {
        // (nobody reads this stream: what is written before the reset must fit every flow-control window)
        j.fate = Fate::AwaitReset;
        j.rcancel = rng.chance(1, 2);
        j.reset_at = j.reset_at.min(400);
    }
}

fn gen_plan(rng: &mut Rng) -> Plan {
    let mut id = 0usize;
    let mut sides = [SidePlan::default(), SidePlan::default()];
    for s in sides.iter_mut() {
        for _ in 0..rng.below(4) {
            let fwd = gen_job(rng, &mut id);
            let bwd = Some(gen_job(rng, &mut id));
            s.bi.push(StreamPlan { fwd, bwd });
        }
        for _ in 0..rng.below(4) {
            let fwd = gen_job(rng, &mut id);
            s.uni.push(StreamPlan { fwd, bwd: None });
        }
        s.dgrams = *rng.pick(&[0usize, 0, 1, 4, 12]);
        s.dgram_wait = rng.chance(1, 2);
        s.trailing_accept = rng.chance(1, 2);
        s.cancel_conn_ops = rng.chance(3, 4);
    }
    let mut tc = || TcPlan {
        max_bi: *rng.pick(&[1u32, 2, 100]),
        max_uni: *rng.pick(&[1u32, 2, 100]),
        stream_rwnd: *rng.pick(&[1500u32, 4096, 20_000, 1_000_000]),
        rwnd: *rng.pick(&[8192u32, 100_000, 10_000_000]),
        swnd: *rng.pick(&[4096u64, 50_000, 8_000_000]),
        dg_sbuf: *rng.pick(&[1500usize, 3000, 1_000_000]),
    };
    let tc = [tc(), tc()];
    let net = NetCfg {
        loss_pct: *rng.pick(&[0u64, 0, 3, 10, 20]),
        min_delay: *rng.pick(&[50_000u64, 500_000, 2 * MS]),
        jitter: *rng.pick(&[0u64, 200_000, 2 * MS, 4 * MS]),
        send_block_pct: *rng.pick(&[0u64, 0, 2, 10]),
        segments: *rng.pick(&[1usize, 4]),
        recv_reset_pct: 0,
    };
    let side = rng.below(2) as usize;
    let close = match rng.below(8) {
        0 | 1 | 2 => CloseKind::Explicit(side),
        3 | 4 => CloseKind::DropHandles(side),
        5 | 6 => CloseKind::EndpointClose(side),
        _ => CloseKind::IdleTimeout,
    };
    let mid = if matches!(close, CloseKind::Explicit(_) | CloseKind::EndpointClose(_)) && rng.chance(1, 2) {
        Some(if rng.chance(1, 3) { rng.below(40) } else { rng.below(3000) })
    } else {
        None
    };
    let mut plan = Plan {
        sides,
        tc,
        net,
        policy: *rng.pick(&[Policy::Uniform, Policy::Uniform, Policy::PreferDrivers, Policy::PreferApps, Policy::Newest]),
        close,
        mid,
        drop_endpoint_early: if rng.chance(1, 3) { Some(rng.below(2) as usize) } else { None },
        incoming: *rng.pick(&[IncomingKind::Accept, IncomingKind::Accept, IncomingKind::IntoFuture, IncomingKind::RetryFirst]),
        tick: *rng.pick(&[0u64, 0, 100, 1000]),
        multi: false,
        unit_gaps: false,
        k_ep_accept: 1,
        extra_connects: 0,
        zrtt: None,
        qev: None,
        x4: None,
    };
    // ---- about a third of the cases: 2-3 CONCURRENT waiter tasks on the same condition, for every wait of the
    // API that goes through a shared Notify; the peer satisfies the condition one unit at a time, with pauses, so
    // that notify_waiters() wakes all of them, one wins and the others find the condition false again
    if rng.chance(1, 3) {
        plan.multi = true;
        plan.unit_gaps = rng.chance(3, 4);
        let kk = |rng: &mut Rng, n: usize| (2 + rng.below(2) as usize).min(n.max(1));
        for o in 0..2 {
            let a = 1 - o; // the accepting / receiving side
            plan.sides[o].k_watch = 2 + rng.below(2) as usize;
            plan.sides[o].cancel_conn_ops = rng.chance(1, 2);
            for d in 0..2 {
                if !rng.chance(2, 3) {
                    continue;
                }
                let want = 2 + rng.below(3) as usize;
                loop {
                    let list = if d == 0 { &mut plan.sides[o].bi } else { &mut plan.sides[o].uni };
                    if list.len() >= want {
                        break;
                    }
                    let fwd = gen_job(rng, &mut id);
                    let bwd = if d == 0 { Some(gen_job(rng, &mut id)) } else { None };
                    list.push(StreamPlan { fwd, bwd });
                }
                let n = if d == 0 { plan.sides[o].bi.len() } else { plan.sides[o].uni.len() };
                plan.sides[o].k_open[d] = kk(rng, n);
                plan.sides[a].k_accept[d] = kk(rng, n);
                if rng.chance(1, 2) {
                    // the openers compete for one stream credit at a time
                    if d == 0 {
                        plan.tc[a].max_bi = 1;
                    } else {
                        plan.tc[a].max_uni = 1;
                    }
                }
            }
            if rng.chance(1, 2) {
                // datagrams: every one arrives (no loss, waiting senders), so the readers have quotas
                plan.sides[o].dgrams = 4 + rng.below(6) as usize;
                plan.sides[o].dgram_wait = true;
                plan.sides[o].k_dg_send = kk(rng, plan.sides[o].dgrams);
                plan.tc[o].dg_sbuf = 1500;
                plan.sides[a].k_dg_read = kk(rng, plan.sides[o].dgrams);
                plan.sides[a].dg_quota = true;
                // (… and no reordering: a 1-RTT packet that overtakes the end of the handshake is undecryptable
                // and dropped by the receiver, and DATAGRAM frames are not retransmitted)
                plan.net.loss_pct = 0;
                plan.net.jitter = 0;
            }
        }
        // a datagram quota on one side needs the loss-free network for the other direction as well
        for o in 0..2 {
            if plan.net.loss_pct == 0 && plan.sides[o].dgrams > 0 && plan.sides[o].dgram_wait && plan.sides[1 - o].k_dg_read > 0 {
                plan.sides[1 - o].dg_quota = true;
            }
        }
        if rng.chance(1, 2) {
            plan.k_ep_accept = 2 + rng.below(2) as usize;
            plan.extra_connects = plan.k_ep_accept - 1 + rng.below(2) as usize;
            if plan.incoming == IncomingKind::RetryFirst {
                plan.incoming = IncomingKind::Accept;
            }
        }
    }
    // ---- local resets (SendStream::reset with stopped() pending elsewhere; RecvStream::received_reset)
    for o in 0..2 {
        let SidePlan { bi, uni, .. } = &mut plan.sides[o];
        for sp in bi.iter_mut().chain(uni.iter_mut()) {
            for j in std::iter::once(&mut sp.fwd).chain(sp.bwd.iter_mut()) {
                if rng.chance(1, 6) {
                    make_reset_job(rng, j);
                }
            }
        }
    }
    // ---- I/O faults instead of an orderly close (a sixth of the cases)
    if rng.chance(1, 6) {
        let s = rng.below(2) as usize;
        plan.close = if rng.chance(2, 3) { CloseKind::RecvError(s) } else { CloseKind::SendError(s) };
        plan.mid = if rng.chance(1, 2) { Some(if rng.chance(1, 3) { rng.below(40) } else { rng.below(3000) }) } else { None };
        if plan.drop_endpoint_early == Some(s) {
            plan.drop_endpoint_early = None;
        }
    }
    plan.net.recv_reset_pct = *rng.pick(&[0u64, 0, 0, 5]);
    // ---- 0-RTT cases (a fifth): resumption with early data, accepted or rejected
    if rng.chance(1, 5) {
        plan.zrtt = Some(gen_zrtt(rng));
        plan.sides = [SidePlan::default(), SidePlan::default()];
        plan.multi = false;
        plan.k_ep_accept = 1;
        plan.extra_connects = 0;
        plan.mid = None;
        for t in plan.tc.iter_mut() {
            // early streams must fit what the client remembers; small stream windows park the later writers
            t.max_bi = 100;
            t.max_uni = 100;
            t.stream_rwnd = *rng.pick(&[1500u32, 4096]);
            t.rwnd = t.rwnd.max(100_000);
        }
    }
    plan
}

// ------------------------------------------------------------------------------------------------
// bookkeeping shared by the application tasks and the controller
// ------------------------------------------------------------------------------------------------

#[derive(Default, Debug, Clone)]
struct JobRes {
    written: u64,
    w_done: bool,
    w_err: Option<String>,
    w_cancels: u64,
    read: u64,
    r_done: bool,
    fin: bool,
    r_err: Option<String>,
    r_cancels: u64,
    bad: bool,
    stopped: Option<String>,
    reset_seen: Option<String>,
    /// the writer called reset(); a FRESH stopped() issued afterwards completed with this
    reset_done: bool,
    fresh_stopped: Option<String>,
}

#[derive(Default)]
struct CaseLog {
    fails: Vec<String>,
    counters: BTreeMap<String, u64>,
    jobs: BTreeMap<usize, JobRes>,
    closed: [Option<String>; 2],
    connected: [bool; 2],
    connect_err: [Option<String>; 2],
    dg_sent: [u64; 2],
    dg_recv: [u64; 2],
    dg_seen: [BTreeSet<u32>; 2],
    units: BTreeSet<String>,
    taken: BTreeMap<String, usize>,
    first_incoming_taken: bool,
    /// a close action (or the decision to let the idle timeout fire) has happened: errors are expected now
    closing: bool,
    /// only the close itself can end the connection (used to judge errors before `closing`)
    cancels: u64,
    /// history for the recorded finding: calls of RecvStream::stop / drops of an unread RecvStream made, per
    /// side and direction (0 = bi, 1 = uni), on a stream whose final size was already known
    stop_known_final: [[u64; 2]; 2],
}

type Log = Arc<Mutex<CaseLog>>;

#[derive(Default)]
struct Handles {
    conn: [Option<Connection>; 2],
    endpoint: [Option<Endpoint>; 2],
}

type Hs = Arc<Mutex<Handles>>;

fn err_kind(e: &ConnectionError) -> String {
    match e {
        ConnectionError::LocallyClosed => "LocallyClosed".into(),
        ConnectionError::ApplicationClosed(a) => format!("ApplicationClosed({})", a.error_code),
        ConnectionError::ConnectionClosed(c) => format!("ConnectionClosed({:?})", c.error_code),
        ConnectionError::TimedOut => "TimedOut".into(),
        ConnectionError::Reset => "Reset".into(),
        ConnectionError::TransportError(t) => format!("TransportError({:?})", t.code),
        ConnectionError::VersionMismatch => "VersionMismatch".into(),
        ConnectionError::CidsExhausted => "CidsExhausted".into(),
    }
}

struct Ctx {
    w: World,
    tw: Arc<TaskWaker>,
    log: Log,
    h: Hs,
    rng: Rng,
    plan: Arc<Plan>,
}

impl Ctx {
    fn set_op(&self, s: &str) {
        let mut i = self.tw.info.lock().unwrap();
        if i.op != s {
            i.op = s.to_string();
        }
    }
    fn set_class(&self, c: Class) {
        self.tw.info.lock().unwrap().class = c;
    }
    fn count(&self, k: &str) {
        *self.log.lock().unwrap().counters.entry(k.to_string()).or_default() += 1;
    }
    fn fail(&self, key: &str, what: String) {
        let mut l = self.log.lock().unwrap();
        if l.fails.len() < 20 {
            l.fails.push(format!("key={key} {what}"));
        }
    }
    fn closing(&self) -> bool {
        self.log.lock().unwrap().closing
    }
    /// an error of a connection-bound operation: expected only once a close is under way
    fn conn_err(&self, what: &str, e: String) {
        if !self.closing() {
            self.fail("c18-unexpected-error", format!("{what}: {e} although nobody closed and the network is fair"));
        }
        self.count("result:error-after-close");
    }
    fn cancel_plan(&mut self, done: u32) -> Option<(u32, bool)> {
        if done >= 3 || !self.rng.chance(1, 2) {
            return None;
        }
        Some((1 + self.rng.below(3) as u32, self.rng.chance(1, 2)))
    }
    fn credit(&self, slot: (u64, u8)) {
        self.tw.info.lock().unwrap().credits.insert(slot);
    }
    fn clear_credit(&self, slot: (u64, u8)) {
        self.tw.info.lock().unwrap().credits.remove(&slot);
    }
    fn note_cancel(&self, label: &str) {
        self.tw.info.lock().unwrap().cancels += 1;
        let k = label.split_whitespace().next().unwrap_or("?");
        let mut l = self.log.lock().unwrap();
        l.cancels += 1;
        *l.counters.entry(format!("cancel:{k}")).or_default() += 1;
    }
    /// a stretch in which this task awaits nothing of quinn: any wake that arrives now comes from a
    /// registration some dropped future or handle left behind
    async fn idle_gap(&mut self) {
        self.tw.info.lock().unwrap().mode = Mode::Idle;
        if self.rng.chance(1, 2) {
            for _ in 0..1 + self.rng.below(3) {
                YieldNow(false).await;
            }
        } else {
            let until = self.w.now() + 20_000 + self.rng.below(3 * MS);
            Sleep { w: self.w.clone(), until, id: None }.await;
        }
        self.tw.info.lock().unwrap().mode = Mode::Busy;
    }
    fn spawn<F, Fut>(&mut self, name: String, class: Class, f: F)
    where
        F: FnOnce(Ctx) -> Fut,
        Fut: Future<Output = ()> + Send + 'static,
    {
        let tw = TaskWaker::new(class);
        let child = Ctx { w: self.w.clone(), tw: tw.clone(), log: self.log.clone(), h: self.h.clone(), rng: Rng::new(self.rng.next()), plan: self.plan.clone() };
        let fut: BoxFut = Box::pin(f(child));
        self.w.spawn_with(name, tw, fut);
    }
    /// a unit (stream, datagram, incoming connection, stream credit) was handed to this task: never twice
    fn unit(&self, key: String) {
        let fresh = self.log.lock().unwrap().units.insert(key.clone());
        if !fresh {
            self.fail("c18-unit-delivered-twice", format!("{key} was handed out to two waiters"));
        }
    }
    /// count a unit taken by one of the concurrent waiters of `group`; returns the group's total
    fn took(&self, group: &str) -> usize {
        let mut l = self.log.lock().unwrap();
        let e = l.taken.entry(group.to_string()).or_default();
        *e += 1;
        *e
    }
    /// producer-side pause long enough for the previous unit to reach the peer and for the waiters that lost
    /// the race for it to park again
    async fn unit_gap(&mut self) {
        self.tw.info.lock().unwrap().mode = Mode::Idle;
        let until = self.w.now() + 8 * MS + self.rng.below(12 * MS);
        Sleep { w: self.w.clone(), until, id: None }.await;
        self.tw.info.lock().unwrap().mode = Mode::Busy;
    }
    fn note_datagram(&self, side: usize, peer: usize, b: &[u8], cancel: bool) {
        let ok = b.len() >= 5 && b[0] as usize == peer;
        let idx = if ok { u32::from_be_bytes([b[1], b[2], b[3], b[4]]) } else { u32::MAX };
        let good = ok && (idx as usize) < self.plan.sides[peer].dgrams && b[..] == dgram_payload(peer, idx, b.len() - 5)[..];
        if !good {
            self.fail("c18-data-corrupt", format!("{} read_datagram returned {} bytes that no datagram of the peer had", SIDE[side], b.len()));
        }
        let mut l = self.log.lock().unwrap();
        l.dg_recv[side] += 1;
        let dup = good && !l.dg_seen[side].insert(idx);
        drop(l);
        if dup {
            self.fail(if cancel { "c18-cancel-duplicated-data" } else { "c18-data-duplicated" }, format!("{} read_datagram delivered datagram {idx} twice", SIDE[side]));
        }
    }
    fn job<R>(&self, id: usize, f: impl FnOnce(&mut JobRes) -> R) -> R {
        f(self.log.lock().unwrap().jobs.entry(id).or_default())
    }

    /// content oracle: `data` was read at stream offset `off` of job `job`
    fn check_content(&self, job: &Job, off: u64, data: &[u8]) {
        if self.job(job.id, |j| j.bad) {
            return;
        }
        let exp = |o: u64| content_byte(job.id as u64, o);
        let Some(p) = (0..data.len()).find(|&i| data[i] != exp(off + i as u64)) else { return };
        self.job(job.id, |j| j.bad = true);
        let k = (data.len() - p).min(24);
        let at = off + p as u64;
        let cancels = job.rcancel || job.wcancel;
        let matches_at = |start: u64| (0..k).all(|i| data[p + i] == exp(start + i as u64));
        let mut verdict = ("c18-data-corrupt", format!("job {} offset {at}: bytes match no nearby offset", job.id));
        if k >= 4 {
            for d in 1..=70_000u64 {
                if matches_at(at + d) {
                    verdict = (if cancels { "c18-cancel-lost-data" } else { "c18-data-lost" }, format!("job {} offset {at}: {d} bytes missing from the stream (rmode {:?} wmode {:?})", job.id, job.rmode, job.wmode));
                    break;
                }
                if d <= at && matches_at(at - d) {
                    verdict = (if cancels { "c18-cancel-duplicated-data" } else { "c18-data-duplicated" }, format!("job {} offset {at}: {d} bytes delivered twice (rmode {:?} wmode {:?})", job.id, job.rmode, job.wmode));
                    break;
                }
            }
        }
        self.fail(verdict.0, verdict.1);
    }
}

/// Await a cancel-safe operation; when `$cancel`, a seeded number of times poll the future a seeded number of
/// times, DROP it while Pending, spend an idle gap, and start a fresh one.
macro_rules! cancelable {
    ($ctx:expr, $label:expr, $slot:expr, $cancel:expr, $mk:expr) => {{
        let mut ncancel = 0u32;
        loop {
            $ctx.set_op($label);
            let plan = if $cancel { $ctx.cancel_plan(ncancel) } else { None };
            let (r, pended) = {
                let fut = $mk;
                let mut fut = std::pin::pin!(fut);
                PollN { fut: fut.as_mut(), plan, pend: 0, armed: false }.await
            };
            if pended {
                let slot: Option<(u64, u8)> = $slot;
                if let Some(s) = slot {
                    $ctx.credit(s);
                }
            }
            match r {
                Some(v) => break v,
                None => {
                    ncancel += 1;
                    $ctx.note_cancel($label);
                    $ctx.idle_gap().await;
                }
            }
        }
    }};
}

// round-4 plan families (additional cases with their own ids and generator streams): argument boundaries of the
// data-moving calls, stale 0-RTT handles against the streams that reuse their ids, endpoint end-of-life orders
// (declared here: they use the `cancelable!` macro defined above)
#[path = "../asyncsim/ab.rs"]
mod ab;
#[path = "../asyncsim/eol.rs"]
mod eol;
#[path = "../asyncsim/stale.rs"]
mod stale;
#[path = "../asyncsim/x4.rs"]
mod x4;

// ------------------------------------------------------------------------------------------------
// application tasks
// ------------------------------------------------------------------------------------------------

fn job_data(job: &Job) -> Vec<u8> {
    (0..job.len as u64).map(|o| content_byte(job.id as u64, o)).collect()
}

/// (history for the recorded finding) a stop()/drop of `recv` is about to happen: was its final size known?
fn note_stop(ctx: &Ctx, side: usize, recv: &RecvStream) {
    let Some(c) = drvwake::conn_of(&ctx.h, side) else { return };
    if drvwake::final_size_known(&c, recv.id()) {
        let d = if recv.id().dir() == quinn::Dir::Bi { 0 } else { 1 };
        ctx.log.lock().unwrap().stop_known_final[side][d] += 1;
        ctx.count("op:stop-or-drop-after-final-size-known");
    }
}

async fn reader(mut ctx: Ctx, side: usize, job: Job, mut recv: RecvStream) {
    let slot = (job.id as u64, 0u8);
    let label = format!("read job={} mode={:?}", job.id, job.rmode);
    let mut got = 0u64;
    let mut fin = false;
    let mut err: Option<String> = None;
    let mut buf = vec![0u8; job.rchunk.max(1)];
    let limit = match job.fate {
        Fate::ReadAll => u64::MAX,
        Fate::DropEarly(n) | Fate::Stop(n) => n,
        Fate::AwaitReset => 0,
    };
    if job.fate == Fate::AwaitReset {
        // the writer resets this stream (RESET_STREAM is delivered reliably): received_reset() must complete,
        // and with the writer's code — nobody reads, stops or finishes the stream
        let want = match job.end {
            End::Reset(c) => c,
            _ => unreachable!("AwaitReset only with a resetting writer"),
        };
        let lbl = format!("received_reset job={}", job.id);
        let r = cancelable!(ctx, &lbl, Some(slot), job.rcancel, recv.received_reset());
        match &r {
            Ok(Some(c)) if *c == VarInt::from_u32(want) => ctx.count("result:received-reset"),
            Ok(other) => {
                if !ctx.closing() {
                    ctx.fail("c18-reset-not-observed", format!("job {}: the writer reset the stream with code {want}, received_reset() yielded {other:?}", job.id));
                }
            }
            Err(e) => err = Some(format!("{e:?}")),
        }
        ctx.job(job.id, |j| j.reset_seen = Some(format!("{r:?}")));
    }
    while job.fate != Fate::AwaitReset && (got < limit || job.fate == Fate::ReadAll) {
        match job.rmode {
            RMode::Read => match cancelable!(ctx, &label, Some(slot), job.rcancel, recv.read(&mut buf)) {
                Ok(Some(n)) => {
                    ctx.check_content(&job, got, &buf[..n]);
                    got += n as u64;
                }
                Ok(None) => fin = true,
                Err(e) => err = Some(format!("{e:?}")),
            },
            RMode::ReadChunk => match cancelable!(ctx, &label, Some(slot), job.rcancel, recv.read_chunk(job.rchunk.max(1), true)) {
                Ok(Some(c)) => {
                    if c.offset != got && !ctx.job(job.id, |j| j.bad) {
                        ctx.job(job.id, |j| j.bad = true);
                        let cancels = job.rcancel || job.wcancel;
                        if c.offset > got {
                            ctx.fail(if cancels { "c18-cancel-lost-data" } else { "c18-data-lost" }, format!("job {}: ordered read_chunk returned offset {} after {} bytes", job.id, c.offset, got));
                        } else {
                            ctx.fail(if cancels { "c18-cancel-duplicated-data" } else { "c18-data-duplicated" }, format!("job {}: ordered read_chunk returned offset {} after {} bytes", job.id, c.offset, got));
                        }
                    }
                    ctx.check_content(&job, got, &c.bytes);
                    got += c.bytes.len() as u64;
                }
                Ok(None) => fin = true,
                Err(e) => err = Some(format!("{e:?}")),
            },
            RMode::ReadChunks => {
                let mut bufs = [Bytes::new(), Bytes::new(), Bytes::new()];
                match cancelable!(ctx, &label, Some(slot), job.rcancel, recv.read_chunks(&mut bufs)) {
                    Ok(Some(n)) => {
                        for b in bufs.iter().take(n) {
                            ctx.check_content(&job, got, b);
                            got += b.len() as u64;
                        }
                    }
                    Ok(None) => fin = true,
                    Err(e) => err = Some(format!("{e:?}")),
                }
            }
            RMode::ReadExact => {
                let rem = (job.len as u64).saturating_sub(got) as usize;
                if rem == 0 {
                    ctx.set_op(&label);
                    match recv.read(&mut buf).await {
                        Ok(Some(n)) => {
                            ctx.check_content(&job, got, &buf[..n]);
                            got += n as u64;
                        }
                        Ok(None) => fin = true,
                        Err(e) => err = Some(format!("{e:?}")),
                    }
                } else {
                    let k = rem.min(buf.len());
                    ctx.set_op(&label);
                    match recv.read_exact(&mut buf[..k]).await {
                        Ok(()) => {
                            ctx.check_content(&job, got, &buf[..k]);
                            got += k as u64;
                        }
                        Err(e) => err = Some(format!("{e:?}")),
                    }
                }
            }
            RMode::ReadToEnd => {
                ctx.set_op(&label);
                match recv.read_to_end(200_000).await {
                    Ok(v) => {
                        ctx.check_content(&job, 0, &v);
                        got = v.len() as u64;
                        fin = true;
                    }
                    Err(e) => err = Some(format!("{e:?}")),
                }
            }
        }
        if fin || err.is_some() {
            break;
        }
    }
    match job.fate {
        Fate::ReadAll | Fate::AwaitReset => {}
        Fate::DropEarly(_) => {
            if !fin && err.is_none() {
                // leave a registration behind: poll one read, drop it while Pending, then drop the handle
                ctx.set_op(&format!("read-then-drop job={}", job.id));
                let (r, pended) = {
                    let fut = recv.read(&mut buf);
                    let mut fut = std::pin::pin!(fut);
                    PollN { fut: fut.as_mut(), plan: Some((1, false)), pend: 0, armed: false }.await
                };
                if pended {
                    ctx.credit(slot);
                }
                if let Some(Ok(Some(n))) = r {
                    ctx.check_content(&job, got, &buf[..n]);
                    got += n as u64;
                }
                ctx.count("drop:recvstream-unread");
                note_stop(&ctx, side, &recv);
            }
        }
        Fate::Stop(_) => {
            if !fin && err.is_none() {
                note_stop(&ctx, side, &recv);
                let _ = recv.stop(VarInt::from_u32(7));
                ctx.count("op:stop");
            }
        }
    }
    drop(recv);
    ctx.clear_credit(slot);
    let unexpected = match (&err, job.fate) {
        (None, _) => None,
        (Some(e), _) if ctx.closing() => {
            ctx.count("result:error-after-close");
            let _ = e;
            None
        }
        // a writer that resets the stream: the reader sees exactly that reset
        (Some(e), _) if matches!(job.end, End::Reset(c) if e.contains(&format!("Reset({c})"))) => {
            ctx.count("result:read-reset");
            None
        }
        // the writer resets the stream when it is dropped after our stop: only possible after a stop
        (Some(e), _) => Some(e.clone()),
    };
    if let Some(e) = unexpected {
        ctx.fail("c18-unexpected-error", format!("reader job {}: {e} although nobody closed and the network is fair", job.id));
    }
    let cancels = ctx.tw.info.lock().unwrap().cancels;
    ctx.job(job.id, |j| {
        j.read = got;
        j.fin = fin;
        j.r_err = err.clone();
        j.r_done = true;
        j.r_cancels = cancels;
    });
    ctx.count(&format!("reader-done:{:?}", job.rmode));
    // stay around for a moment with every handle dropped: nothing may wake this task any more
    ctx.set_op("idle after drop");
    ctx.idle_gap().await;
}

async fn writer(mut ctx: Ctx, side: usize, job: Job, mut send: SendStream) {
    let slot = (job.id as u64, 1u8);
    let label = format!("write job={} mode={:?}", job.id, job.wmode);
    let data = job_data(&job);
    let mut off = 0usize;
    let mut err: Option<String> = None;
    // (in multi-waiter cases several tasks await stopped() of the same stream: one shared Notify in the map)
    let nwatch = if job.watch_stopped { if ctx.plan.multi { 2 + ctx.rng.below(2) as usize } else { 1 } } else { 0 };
    for w in 0..nwatch {
        let fut = send.stopped();
        let id = job.id;
        let fate = job.fate;
        ctx.spawn(format!("app:{}:stopped{w}:job{id}", SIDE[side]), Class::Job, move |c| async move {
            c.set_op(&format!("stopped job={id} waiter {w}/{nwatch}"));
            let r = fut.await;
            match &r {
                Ok(v) => {
                    c.count("result:stopped-ok");
                    // the code can only be the one the reader used: stop(7), or 0 for a dropped RecvStream
                    let ok = match v {
                        None => true,
                        Some(x) => (*x == VarInt::from_u32(7) && matches!(fate, Fate::Stop(_))) || (*x == VarInt::from_u32(0) && matches!(fate, Fate::DropEarly(_))),
                    };
                    if !ok && !c.closing() {
                        c.fail("c18-stopped-wrong-value", format!("stopped() of job {id} yielded {v:?}, reader fate {fate:?}"));
                    }
                }
                Err(e) => c.conn_err(&format!("stopped() job {id}"), format!("{e:?}")),
            }
            c.job(id, |j| j.stopped = Some(format!("{r:?}")));
        });
    }
    let wlimit = if matches!(job.end, End::Reset(_)) { job.reset_at.min(data.len()) } else { data.len() };
    while off < wlimit {
        let k = job.wchunk.max(1).min(wlimit - off);
        let r: Result<usize, WriteError> = match job.wmode {
            WMode::Write => cancelable!(ctx, &label, Some(slot), job.wcancel, send.write(&data[off..off + k])),
            WMode::WriteAll => {
                ctx.set_op(&label);
                send.write_all(&data[off..off + k]).await.map(|()| k)
            }
            WMode::WriteChunk => {
                ctx.set_op(&label);
                send.write_chunk(Bytes::copy_from_slice(&data[off..off + k])).await.map(|()| k)
            }
            WMode::WriteChunks => {
                let h = k / 2;
                let mut bufs = [Bytes::copy_from_slice(&data[off..off + h]), Bytes::copy_from_slice(&data[off + h..off + k])];
                cancelable!(ctx, &label, Some(slot), job.wcancel, send.write_chunks(&mut bufs)).map(|w| w.bytes)
            }
        };
        match r {
            Ok(n) => off += n,
            Err(e) => {
                err = Some(format!("{e:?}"));
                break;
            }
        }
    }
    match &err {
        None => {}
        Some(e) if e.starts_with("Stopped") && job.fate != Fate::ReadAll => ctx.count("result:write-stopped"),
        Some(e) => ctx.conn_err(&format!("writer job {}", job.id), e.clone()),
    }
    match job.end {
        End::Finish | End::FinishAwaitStopped => {
            let _ = send.finish();
            ctx.count("op:finish");
            if job.end == End::FinishAwaitStopped {
                ctx.set_op(&format!("stopped(after finish) job={}", job.id));
                match send.stopped().await {
                    Ok(_) => ctx.count("result:stopped-ok"),
                    Err(e) => ctx.conn_err(&format!("stopped() job {}", job.id), format!("{e:?}")),
                }
            }
        }
        End::DropNoFinish => ctx.count("drop:sendstream-unfinished"),
        End::Reset(code) => {
            // local reset while stopped() futures of this stream are pending in other tasks
            let r = send.reset(VarInt::from_u32(code));
            ctx.count(if r.is_ok() { "op:reset" } else { "op:reset-closed" });
            ctx.job(job.id, |j| j.reset_done = true);
            if job.reset_keep {
                // keep the handle for several round trips (RESET_STREAM acknowledged by then), then ask again
                ctx.set_op("idle after reset");
                ctx.tw.info.lock().unwrap().mode = Mode::Idle;
                let until = ctx.w.now() + 150 * MS + ctx.rng.below(100 * MS);
                Sleep { w: ctx.w.clone(), until, id: None }.await;
                ctx.tw.info.lock().unwrap().mode = Mode::Busy;
                ctx.set_op(&format!("stopped(fresh, after reset) job={}", job.id));
                let r = send.stopped().await;
                match &r {
                    Ok(_) => ctx.count("result:stopped-ok"),
                    Err(e) => ctx.conn_err(&format!("stopped() job {}", job.id), format!("{e:?}")),
                }
                ctx.job(job.id, |j| j.fresh_stopped = Some(format!("{r:?}")));
            }
        }
    }
    drop(send);
    ctx.clear_credit(slot);
    let cancels = ctx.tw.info.lock().unwrap().cancels;
    ctx.job(job.id, |j| {
        j.written = off as u64;
        j.w_err = err.clone();
        j.w_done = true;
        j.w_cancels = cancels;
    });
    ctx.count(&format!("writer-done:{:?}", job.wmode));
    ctx.set_op("idle after drop");
    ctx.idle_gap().await;
}

/// split `n` units among `k` waiters, each at least one (k <= n), seeded
fn quotas(rng: &mut Rng, n: usize, k: usize) -> Vec<usize> {
    let k = k.clamp(1, n.max(1));
    let mut q = vec![if n == 0 { 0 } else { 1 }; k];
    for _ in k..n {
        let i = rng.below(k as u64) as usize;
        q[i] += 1;
    }
    q
}

/// waiter `w` of `k` concurrent tasks opening streams of one direction on the same connection: opens `quota`
/// streams; which job a stream carries is decided by the index of the stream id it obtained
async fn opener(mut ctx: Ctx, side: usize, conn: Connection, bi: bool, w: usize, k: usize, quota: usize) {
    let plans = if bi { ctx.plan.sides[side].bi.clone() } else { ctx.plan.sides[side].uni.clone() };
    let cancel = ctx.plan.sides[side].cancel_conn_ops;
    let gap = ctx.plan.unit_gaps;
    let label = if bi { format!("open_bi waiter {w}/{k}") } else { format!("open_uni waiter {w}/{k}") };
    for j in 0..quota {
        let (idx, send, recv) = if bi {
            match cancelable!(ctx, &label, None, cancel, conn.open_bi()) {
                Ok((s, r)) => (s.id().index() as usize, s, Some(r)),
                Err(e) => {
                    ctx.conn_err("open_bi", err_kind(&e));
                    return;
                }
            }
        } else {
            match cancelable!(ctx, &label, None, cancel, conn.open_uni()) {
                Ok(s) => (s.id().index() as usize, s, None),
                Err(e) => {
                    ctx.conn_err("open_uni", err_kind(&e));
                    return;
                }
            }
        };
        if (k == 1 && idx != j) || idx >= plans.len() {
            ctx.fail("c18-open-order", format!("{} {label} #{j} returned stream index {idx}", SIDE[side]));
            return;
        }
        ctx.unit(format!("open:{}:{}:{idx}", SIDE[side], bi));
        let sp = plans[idx].clone();
        let f = sp.fwd.clone();
        ctx.spawn(format!("app:{}:writer:job{}", SIDE[side], f.id), Class::Job, move |c| writer(c, side, f, send));
        if let (Some(r), Some(b)) = (recv, sp.bwd.clone()) {
            ctx.spawn(format!("app:{}:reader:job{}", SIDE[side], b.id), Class::Job, move |c| reader(c, side, b, r));
        }
        if gap {
            ctx.set_op("gap between opens");
            ctx.unit_gap().await;
        } else if ctx.rng.chance(1, 3) {
            ctx.set_op("idle between opens");
            ctx.idle_gap().await;
        }
    }
    drop(conn);
}

/// waiter `w` of `k` concurrent tasks accepting streams of one direction on the same connection: accepts
/// `quota` streams (the quotas add up to what the peer opens, so every waiter must complete)
async fn acceptor(mut ctx: Ctx, side: usize, conn: Connection, bi: bool, w: usize, k: usize, quota: usize) {
    let peer = 1 - side;
    let plans = if bi { ctx.plan.sides[peer].bi.clone() } else { ctx.plan.sides[peer].uni.clone() };
    let cancel = ctx.plan.sides[side].cancel_conn_ops;
    let trailing = ctx.plan.sides[side].trailing_accept;
    let label = if bi { format!("accept_bi waiter {w}/{k}") } else { format!("accept_uni waiter {w}/{k}") };
    let group = format!("accept:{}:{bi}", SIDE[side]);
    // one accept more than the peer opens streams (pending until the connection ends) is made by the waiter
    // that took the last stream, so that it cannot take a stream another waiter is waiting for
    let mut extra = trailing && plans.is_empty() && w == 0;
    let mut j = 0;
    while j < quota || extra {
        if j >= quota {
            ctx.set_class(Class::UntilClose);
        }
        let (idx, send, recv) = if bi {
            match cancelable!(ctx, &label, None, cancel, conn.accept_bi()) {
                Ok((s, r)) => (r.id().index() as usize, Some(s), r),
                Err(e) => {
                    ctx.conn_err("accept_bi", err_kind(&e));
                    return;
                }
            }
        } else {
            match cancelable!(ctx, &label, None, cancel, conn.accept_uni()) {
                Ok(r) => (r.id().index() as usize, None, r),
                Err(e) => {
                    ctx.conn_err("accept_uni", err_kind(&e));
                    return;
                }
            }
        };
        if j >= quota || idx >= plans.len() {
            ctx.fail("c18-accept-order", format!("{} {label} yielded stream index {idx}, which the peer never opened", SIDE[side]));
            return;
        }
        if k == 1 && idx != j {
            ctx.fail("c18-accept-order", format!("{} {label} #{j} returned stream index {idx}", SIDE[side]));
        }
        ctx.unit(format!("accept:{}:{}:{idx}", SIDE[side], bi));
        let f = plans[idx].fwd.clone();
        ctx.spawn(format!("app:{}:reader:job{}", SIDE[side], f.id), Class::Job, move |c| reader(c, side, f, recv));
        if let (Some(s), Some(b)) = (send, plans[idx].bwd.clone()) {
            ctx.spawn(format!("app:{}:writer:job{}", SIDE[side], b.id), Class::Job, move |c| writer(c, side, b, s));
        }
        j += 1;
        if ctx.took(&group) == plans.len() && trailing {
            extra = true;
        }
    }
}

fn dgram_payload(side: usize, idx: u32, len: usize) -> Bytes {
    let mut v = vec![side as u8];
    v.extend_from_slice(&idx.to_be_bytes());
    v.extend((0..len as u64).map(|o| content_byte(1000 + side as u64 * 64 + idx as u64, o)));
    v.into()
}

/// sender `w` of `k` concurrent tasks: sends the datagrams whose index is congruent to `w`
async fn dgram_sender(mut ctx: Ctx, side: usize, conn: Connection, w: usize, k: usize) {
    let n = ctx.plan.sides[side].dgrams;
    let wait = ctx.plan.sides[side].dgram_wait;
    let gap = ctx.plan.unit_gaps;
    let label = format!("send_datagram_wait waiter {w}/{k}");
    for i in (0..n as u32).filter(|i| *i as usize % k == w) {
        let max = conn.max_datagram_size().unwrap_or(0);
        if max < 16 {
            ctx.count("dgram:unsupported");
            return;
        }
        // concurrent waiting senders: datagrams so large that two do not fit the 1500-byte send buffer, sent
        // back to back, so that the senders really block and compete for each DatagramsUnblocked
        let len = if k > 1 { 700 + ctx.rng.below(300) as usize } else { 1 + ctx.rng.below(900) as usize }.min(max - 8);
        let p = dgram_payload(side, i, len);
        if wait {
            ctx.set_op(&label);
            match conn.send_datagram_wait(p).await {
                Ok(()) => ctx.log.lock().unwrap().dg_sent[side] += 1,
                Err(e) => {
                    ctx.conn_err("send_datagram_wait", format!("{e:?}"));
                    return;
                }
            }
        } else {
            match conn.send_datagram(p) {
                Ok(()) => ctx.log.lock().unwrap().dg_sent[side] += 1,
                Err(e) => {
                    ctx.conn_err("send_datagram", format!("{e:?}"));
                    return;
                }
            }
        }
        if k > 1 {
            continue;
        }
        if gap {
            ctx.set_op("gap between datagrams");
            ctx.unit_gap().await;
        } else if ctx.rng.chance(1, 2) {
            ctx.set_op("idle between datagrams");
            ctx.idle_gap().await;
        }
    }
}

/// reader `w` of `k` concurrent tasks on the same connection. With a quota (only when every datagram is known
/// to arrive: loss-free network, waiting sender) the reader must obtain that many datagrams; reader 0 then goes
/// on reading until the connection ends and applies the final accounting.
async fn dgram_reader(mut ctx: Ctx, side: usize, conn: Connection, w: usize, k: usize, quota: Option<usize>) {
    let peer = 1 - side;
    let cancel = ctx.plan.sides[side].cancel_conn_ops;
    let local_close;
    let label = format!("read_datagram waiter {w}/{k}");
    let mut mine = 0usize;
    let group = format!("read_datagram:{}", SIDE[side]);
    let total = ctx.plan.sides[peer].dgrams;
    if quota == Some(0) {
        return;
    }
    loop {
        match cancelable!(ctx, &label, None, cancel, conn.read_datagram()) {
            Ok(b) => {
                mine += 1;
                let all = ctx.took(&group) >= total;
                if quota == Some(mine) {
                    if !all {
                        ctx.note_datagram(side, peer, &b, cancel);
                        return;
                    }
                    // the reader that took the last datagram stays until the connection ends (final accounting)
                    ctx.set_class(Class::UntilClose);
                }
                ctx.note_datagram(side, peer, &b, cancel);
            }
            Err(e) => {
                ctx.conn_err("read_datagram", err_kind(&e));
                // (after a LOCAL close the connection still counts DATAGRAM frames of late packets without
                // buffering them: the frame counter says nothing then)
                local_close = e == ConnectionError::LocallyClosed;
                break;
            }
        }
    }
    // everything the connection accepted must have been handed out before the error
    let frames = conn.stats().frame_rx.datagram;
    let got = ctx.log.lock().unwrap().dg_recv[side];
    if got < frames && !local_close {
        ctx.fail(if cancel { "c18-cancel-lost-data" } else { "c18-data-lost" }, format!("{} received {frames} DATAGRAM frames but read_datagram yielded only {got}", SIDE[side]));
    }
}

async fn closed_watcher(ctx: Ctx, side: usize, conn: Connection, w: usize, k: usize) {
    ctx.set_op(&format!("closed waiter {w}/{k}"));
    let e = conn.closed().await;
    if w == 0 {
        ctx.log.lock().unwrap().closed[side] = Some(err_kind(&e));
    }
    if !ctx.closing() {
        ctx.fail("c18-unexpected-error", format!("{} closed() resolved with {} although nobody closed and the network is fair", SIDE[side], err_kind(&e)));
    }
}

async fn confirmed_watcher(ctx: Ctx, conn: Connection, w: usize, k: usize) {
    ctx.set_op(&format!("handshake_confirmed waiter {w}/{k}"));
    if let Err(e) = conn.handshake_confirmed().await {
        ctx.conn_err("handshake_confirmed", err_kind(&e));
    }
}

async fn authenticated_watcher(ctx: Ctx, conn: Connection, w: usize, k: usize) {
    ctx.set_op(&format!("authenticated waiter {w}/{k}"));
    if let Err(e) = conn.authenticated().await {
        ctx.conn_err("authenticated", err_kind(&e));
    }
}

fn spawn_conn_tasks(ctx: &mut Ctx, side: usize, conn: &Connection) {
    let s = SIDE[side];
    ctx.h.lock().unwrap().conn[side] = Some(conn.clone());
    ctx.log.lock().unwrap().connected[side] = true;
    let p = ctx.plan.clone();
    let kw = p.sides[side].k_watch.max(1);
    for w in 0..kw {
        let c = conn.clone();
        ctx.spawn(format!("app:{s}:closed{w}"), Class::UntilClose, move |x| closed_watcher(x, side, c, w, kw));
        let c = conn.clone();
        ctx.spawn(format!("app:{s}:confirmed{w}"), Class::Job, move |x| confirmed_watcher(x, c, w, kw));
        if kw > 1 {
            let c = conn.clone();
            ctx.spawn(format!("app:{s}:authenticated{w}"), Class::Job, move |x| authenticated_watcher(x, c, w, kw));
        }
    }
    for (d, bi) in [(0usize, true), (1usize, false)] {
        let n_open = if bi { p.sides[side].bi.len() } else { p.sides[side].uni.len() };
        let n_acc = if bi { p.sides[1 - side].bi.len() } else { p.sides[1 - side].uni.len() };
        let kind = if bi { "bi" } else { "uni" };
        if n_open > 0 {
            let q = quotas(&mut ctx.rng, n_open, p.sides[side].k_open[d].max(1));
            let k = q.len();
            for (w, quota) in q.into_iter().enumerate() {
                let c = conn.clone();
                ctx.spawn(format!("app:{s}:open_{kind}{w}"), Class::Job, move |x| opener(x, side, c, bi, w, k, quota));
            }
        }
        if n_acc > 0 || p.sides[side].trailing_accept {
            let q = quotas(&mut ctx.rng, n_acc, p.sides[side].k_accept[d].max(1));
            let k = q.len();
            for (w, quota) in q.into_iter().enumerate() {
                let c = conn.clone();
                let class = if quota > 0 { Class::Job } else { Class::UntilClose };
                ctx.spawn(format!("app:{s}:accept_{kind}{w}"), class, move |x| acceptor(x, side, c, bi, w, k, quota));
            }
        }
    }
    if p.sides[side].dgrams > 0 {
        let k = p.sides[side].k_dg_send.clamp(1, p.sides[side].dgrams);
        for w in 0..k {
            let c = conn.clone();
            ctx.spawn(format!("app:{s}:dgram_send{w}"), Class::Job, move |x| dgram_sender(x, side, c, w, k));
        }
    }
    let n_dg = p.sides[1 - side].dgrams;
    if n_dg > 0 {
        if p.sides[side].dg_quota {
            let q = quotas(&mut ctx.rng, n_dg, p.sides[side].k_dg_read.max(1));
            let k = q.len();
            for (w, quota) in q.into_iter().enumerate() {
                let c = conn.clone();
                ctx.spawn(format!("app:{s}:dgram_read{w}"), Class::Job, move |x| dgram_reader(x, side, c, w, k, Some(quota)));
            }
        } else {
            let c = conn.clone();
            ctx.spawn(format!("app:{s}:dgram_read0"), Class::UntilClose, move |x| dgram_reader(x, side, c, 0, 1, None));
        }
    }
}

async fn client_main(mut ctx: Ctx, ep: Endpoint, cfg: ClientConfig, server: SocketAddr) {
    ctx.set_op("connect");
    let connecting = match ep.connect_with(cfg.clone(), server, "localhost") {
        Ok(c) => c,
        Err(e) => {
            ctx.log.lock().unwrap().connect_err[CLIENT] = Some(format!("{e:?}"));
            if !ctx.closing() {
                ctx.fail("c18-unexpected-error", format!("connect_with: {e:?}"));
            }
            return;
        }
    };
    let extra = ctx.plan.extra_connects;
    let ep2 = if extra > 0 { Some(ep.clone()) } else { None };
    drop(ep);
    match connecting.await {
        Ok(conn) => {
            spawn_conn_tasks(&mut ctx, CLIENT, &conn);
            if let Some(ep) = ep2 {
                // further connection attempts, one at a time: units for the concurrent Endpoint::accept waiters
                // of the server, which refuses them
                ctx.spawn("app:client:main_extra".into(), Class::Job, move |mut c| async move {
                    for j in 0..extra {
                        c.set_op("gap between connection attempts");
                        c.unit_gap().await;
                        c.set_op(&format!("connect (attempt {} of {extra}, to be refused)", j + 1));
                        match ep.connect_with(cfg.clone(), server, "localhost") {
                            Ok(connecting) => match connecting.await {
                                Ok(conn) => {
                                    c.count("result:extra-connect-accepted");
                                    drop(conn);
                                }
                                Err(_) => c.count("result:extra-connect-refused"),
                            },
                            Err(_) => c.count("result:extra-connect-error"),
                        }
                    }
                });
            }
        }
        Err(e) => {
            ctx.log.lock().unwrap().connect_err[CLIENT] = Some(err_kind(&e));
            ctx.conn_err("connect", err_kind(&e));
        }
    }
}

/// waiter `w` of `k` concurrent tasks in `Endpoint::accept` on the same endpoint. The first connection attempt
/// that any of them obtains is accepted, every later one refused. With k > 1 each waiter must obtain `quota`
/// attempts (they add up to the attempts the client makes); waiter 0 then keeps accepting as before.
async fn server_main(mut ctx: Ctx, ep: Endpoint, w: usize, k: usize, quota: usize) {
    let kind = ctx.plan.incoming;
    let label = format!("endpoint.accept waiter {w}/{k}");
    let mut taken = 0usize;
    loop {
        let inc = cancelable!(ctx, &label, None, true, ep.accept());
        let Some(inc) = inc else {
            ctx.count("result:accept-none");
            break;
        };
        // (like a server with address validation: EVERY unvalidated attempt is answered with Retry, otherwise a
        // retransmitted first Initial would create an orphan connection the client never talks to)
        if kind == IncomingKind::RetryFirst && !inc.remote_address_validated() && inc.may_retry() {
            ctx.count("op:incoming-retry");
            let _ = inc.retry();
            continue;
        }
        taken += 1;
        let first = !std::mem::replace(&mut ctx.log.lock().unwrap().first_incoming_taken, true);
        if first {
            ctx.spawn("app:server:handshake".into(), Class::Job, move |mut c| async move {
                c.set_op("accept handshake");
                let r = if kind == IncomingKind::IntoFuture {
                    inc.await
                } else {
                    match inc.accept() {
                        Ok(connecting) => connecting.await,
                        Err(e) => Err(e),
                    }
                };
                match r {
                    Ok(conn) => spawn_conn_tasks(&mut c, SERVER, &conn),
                    Err(e) => {
                        c.log.lock().unwrap().connect_err[SERVER] = Some(err_kind(&e));
                        c.conn_err("server handshake", err_kind(&e));
                    }
                }
            });
        } else {
            ctx.count("op:incoming-refuse");
            inc.refuse();
        }
        let all = ctx.took("endpoint.accept") > ctx.plan.extra_connects;
        if k > 1 && taken == quota {
            // the waiter that took the last expected attempt keeps accepting (retransmitted attempts, …)
            if !all {
                break;
            }
            ctx.set_class(Class::EndpointLevel);
        }
    }
}

// ------------------------------------------------------------------------------------------------
// 0-RTT cases
// ------------------------------------------------------------------------------------------------

const Z_EARLY: u64 = 100;
const Z_NEW: u64 = 200;
const Z_BACK: u64 = 300;
const KEY_0RTT_EFFECT: &str = "c18-0rtt-rejected-handle-affects-new-stream";
const KEY_0RTT_REPORT: &str = "c18-0rtt-rejection-not-reported";

fn zdata(job: u64, len: usize) -> Vec<u8> {
    (0..len as u64).map(|o| content_byte(job, o)).collect()
}

async fn zsleep(ctx: &mut Ctx, ns: u64) {
    ctx.tw.info.lock().unwrap().mode = Mode::Idle;
    let until = ctx.w.now() + ns;
    Sleep { w: ctx.w.clone(), until, id: None }.await;
    ctx.tw.info.lock().unwrap().mode = Mode::Busy;
}

fn register_conn(ctx: &mut Ctx, side: usize, conn: &Connection) {
    ctx.h.lock().unwrap().conn[side] = Some(conn.clone());
    ctx.log.lock().unwrap().connected[side] = true;
    let c = conn.clone();
    ctx.spawn(format!("app:{}:closed0", SIDE[side]), Class::UntilClose, move |x| closed_watcher(x, side, c, 0, 1));
    let c = conn.clone();
    ctx.spawn(format!("app:{}:confirmed0", SIDE[side]), Class::Job, move |x| confirmed_watcher(x, c, 0, 1));
}

/// reads one stream to its end and compares with `job`'s content; `who` names the reader in failures
async fn zreader(mut ctx: Ctx, who: String, job: u64, len: usize, mut recv: RecvStream, delay: u64, key: &'static str, stop_ok: bool) {
    if delay > 0 {
        ctx.set_op("reader delay");
        zsleep(&mut ctx, delay).await;
    }
    ctx.set_op(&format!("read {who}"));
    let mut got = 0usize;
    let mut buf = vec![0u8; 3000];
    let exp = zdata(job, len);
    loop {
        match recv.read(&mut buf).await {
            Ok(Some(n)) => {
                if got + n > len || buf[..n] != exp[got..got + n] {
                    if !ctx.closing() {
                        let early = (0..n).all(|i| buf[i] == content_byte(job - Z_NEW + Z_EARLY, (got + i) as u64));
                        ctx.fail(if job >= Z_NEW && job < Z_BACK && early && n >= 4 { "c18-0rtt-rejected-data-visible" } else { "c18-data-corrupt" }, format!("{who}: {n} bytes at offset {got} differ from the content of job {job}"));
                    }
                    return;
                }
                got += n;
            }
            Ok(None) => break,
            Err(e) => {
                let e = format!("{e:?}");
                if stop_ok && e.contains("ZeroRttRejected") {
                    ctx.count("zrtt:early-read-rejected");
                } else if !ctx.closing() {
                    ctx.fail(key, format!("{who}: read failed with {e} after {got} of {len} bytes although nobody reset the stream or closed"));
                } else {
                    ctx.count("result:error-after-close");
                }
                return;
            }
        }
    }
    if got != len && !ctx.closing() {
        ctx.fail(key, format!("{who}: the stream ended after {got} of the {len} bytes its writer sends before finishing"));
    }
    ctx.count("zrtt:stream-read");
}

/// writes `data[from..]`, finishes, awaits stopped(); every failure is reported under `key`
async fn zwriter(mut ctx: Ctx, who: String, data: Vec<u8>, from: usize, mut send: SendStream, delay: u64, key: &'static str, stopped_ok: bool, chunk: usize) {
    if delay > 0 {
        ctx.set_op("writer delay");
        zsleep(&mut ctx, delay).await;
    }
    ctx.set_op(&format!("write {who}"));
    let mut off = from;
    while off < data.len() {
        let k = chunk.min(data.len() - off);
        match send.write(&data[off..off + k]).await {
            Ok(n) => off += n,
            Err(e) => {
                let e = format!("{e:?}");
                if stopped_ok && e.starts_with("Stopped") {
                    ctx.count("result:write-stopped");
                } else if !ctx.closing() {
                    ctx.fail(key, format!("{who}: write failed with {e} at offset {off} of {} although nobody stopped, finished or reset this stream", data.len()));
                } else {
                    ctx.count("result:error-after-close");
                }
                return;
            }
        }
    }
    match send.priority() {
        Ok(0) => {}
        other => {
            if !ctx.closing() {
                ctx.fail(key, format!("{who}: priority() = {other:?}, nobody changed the priority of this stream"));
            }
        }
    }
    if let Err(e) = send.finish() {
        if !ctx.closing() {
            ctx.fail(key, format!("{who}: finish() failed with {e:?}: somebody else finished or reset this stream"));
        }
        return;
    }
    ctx.set_op(&format!("stopped(after finish) {who}"));
    match send.stopped().await {
        Ok(None) => ctx.count("zrtt:stream-written"),
        Ok(Some(c)) if stopped_ok => {
            let _ = c;
            ctx.count("result:write-stopped")
        }
        other => {
            if !ctx.closing() {
                ctx.fail(key, format!("{who}: stopped() after finish yielded {other:?}"));
            }
        }
    }
}

async fn zrtt_client_main(mut ctx: Ctx, ep: Endpoint, cfg: ClientConfig, server: SocketAddr, scfg2: Option<quinn::ServerConfig>) {
    let z = ctx.plan.zrtt.clone().unwrap();
    let n = z.n_bi + z.n_uni;
    // ---- first connection: obtain a session ticket
    ctx.set_op("connect (first connection)");
    let c1 = match ep.connect_with(cfg.clone(), server, "localhost") {
        Ok(c) => c.await,
        Err(e) => {
            ctx.fail("c18-unexpected-error", format!("connect_with: {e:?}"));
            return;
        }
    };
    let c1 = match c1 {
        Ok(c) => c,
        Err(e) => {
            ctx.conn_err("connect (first connection)", err_kind(&e));
            return;
        }
    };
    ctx.set_op("handshake_confirmed (first connection)");
    let _ = c1.handshake_confirmed().await;
    ctx.set_op("waiting for the session ticket");
    let d = 30 * MS + ctx.rng.below(100 * MS);
    zsleep(&mut ctx, d).await;
    c1.close(VarInt::from_u32(0), b"");
    ctx.set_op("closed (first connection)");
    let _ = c1.closed().await;
    drop(c1);
    zsleep(&mut ctx, 5 * MS).await;
    // ---- the server keeps or loses its TLS state
    if let Some(s2) = scfg2 {
        let e = ctx.h.lock().unwrap().endpoint[SERVER].clone();
        if let Some(e) = e {
            e.set_server_config(Some(s2));
        }
    }
    // ---- second connection
    ctx.set_op("connect (second connection)");
    let connecting = match ep.connect_with(cfg.clone(), server, "localhost") {
        Ok(c) => c,
        Err(e) => {
            if !ctx.closing() {
                ctx.fail("c18-unexpected-error", format!("connect_with: {e:?}"));
            }
            return;
        }
    };
    drop(ep);
    let (conn, early) = match connecting.into_0rtt() {
        Ok(c) => (c, true),
        Err(connecting) => match connecting.await {
            Ok(c) => (c, false),
            Err(e) => {
                ctx.conn_err("connect (second connection)", err_kind(&e));
                return;
            }
        },
    };
    ctx.count(if early { "zrtt:early-keys" } else { "zrtt:no-keys" });
    register_conn(&mut ctx, CLIENT, &conn);
    // ---- early streams, written before the handshake completes
    let mut sends: Vec<SendStream> = Vec::new();
    let mut recvs: Vec<Option<RecvStream>> = Vec::new();
    for i in 0..n {
        ctx.set_op(&format!("open early stream {i}"));
        let r = if i < z.n_bi { conn.open_bi().await.map(|(s, r)| (s, Some(r))) } else { conn.open_uni().await.map(|s| (s, None)) };
        let (mut s, r) = match r {
            Ok(x) => x,
            Err(e) => {
                ctx.conn_err("open (early)", err_kind(&e));
                return;
            }
        };
        ctx.set_op(&format!("write early stream {i}"));
        if let Err(e) = s.write_all(&zdata(Z_EARLY + i as u64, z.early_len[i])).await {
            ctx.conn_err("write (early)", format!("{e:?}"));
            return;
        }
        sends.push(s);
        recvs.push(r);
    }
    let rejected = early && z.reject;
    // futures of early handles pending across the end of the handshake
    for i in 0..n {
        if z.pend_stopped[i] {
            let fut = sends[i].stopped();
            ctx.spawn(format!("app:client:early_stopped{i}"), Class::Job, move |c| async move {
                c.set_op(&format!("stopped (early handle of stream {i}, pending across the handshake)"));
                let r = fut.await;
                match (&r, rejected) {
                    (Err(quinn::StoppedError::ZeroRttRejected), true) => c.count("zrtt:early-stopped-rejected"),
                    (Ok(_), false) => c.count("result:stopped-ok"),
                    (other, _) => {
                        if !c.closing() {
                            c.fail(if rejected { KEY_0RTT_REPORT } else { "c18-unexpected-error" }, format!("stopped() of early stream {i} (0-RTT rejected: {rejected}) yielded {other:?}"));
                        }
                    }
                }
            });
        }
        // the early receive half: stopped before the handshake ends, or read from (pending across the handshake)
        if let Some(mut r) = recvs[i].take() {
            let stop_first = z.stop_early_recv[i];
            let act_at = z.act_at;
            let blen = z.back_len[i];
            ctx.spawn(format!("app:client:early_recv{i}"), Class::Job, move |mut c| async move {
                if stop_first {
                    let _ = r.stop(VarInt::from_u32(3));
                    c.count("zrtt:early-recv-stopped");
                    if rejected {
                        // kept across the rejection, dropped while the new stream with the same id is being read
                        c.set_op("authenticated (holding a stopped early RecvStream)");
                        let conn = c.h.lock().unwrap().conn[CLIENT].clone();
                        if let Some(conn) = conn {
                            let _ = conn.authenticated().await;
                        }
                        c.set_op("holding a stopped early RecvStream");
                        zsleep(&mut c, act_at).await;
                    }
                    drop(r);
                    return;
                }
                if !rejected {
                    // accepted (or no early data at all): this IS the reader of the server's data
                    zreader(c, format!("client stream {i} (server to client)"), Z_BACK + i as u64, blen, r, 0, "c18-unexpected-error", false).await;
                    return;
                }
                c.set_op(&format!("read (early handle of stream {i}, pending across the handshake)"));
                let mut buf = [0u8; 100];
                match r.read(&mut buf).await {
                    Err(quinn::ReadError::ZeroRttRejected) => c.count("zrtt:early-read-rejected"),
                    other => {
                        if !c.closing() {
                            c.fail(KEY_0RTT_REPORT, format!("read() on the early RecvStream of stream {i} after the rejection yielded {other:?}"));
                        }
                    }
                }
                c.set_op("holding a rejected early RecvStream");
                zsleep(&mut c, act_at).await;
                if c.rng.chance(1, 2) {
                    let _ = r.stop(VarInt::from_u32(4));
                }
                if c.rng.chance(1, 2) {
                    match r.received_reset().await {
                        Err(quinn::ResetError::ZeroRttRejected) => {}
                        other => {
                            if !c.closing() {
                                c.fail(KEY_0RTT_REPORT, format!("received_reset() on the early RecvStream of stream {i} yielded {other:?}"));
                            }
                        }
                    }
                }
                drop(r);
                c.set_op("idle after drop");
                c.idle_gap().await;
            });
        }
    }
    ctx.set_op("authenticated");
    if let Err(e) = conn.authenticated().await {
        ctx.conn_err("authenticated", err_kind(&e));
        return;
    }
    if !rejected {
        // ---- accepted (or never early): the early handles simply go on
        ctx.count(if early { "zrtt:accepted" } else { "zrtt:plain" });
        for (i, s) in sends.into_iter().enumerate() {
            let data = zdata(Z_EARLY + i as u64, z.len[i]);
            let from = z.early_len[i];
            let chunk = z.wchunk;
            ctx.spawn(format!("app:client:zwriter{i}"), Class::Job, move |c| zwriter(c, format!("client stream {i} (opened in 0-RTT)"), data, from, s, 0, "c18-unexpected-error", false, chunk));
        }
        return;
    }
    // ---- rejected: nothing of the early streams exists any more; stream numbering restarts
    ctx.count("zrtt:rejected");
    for i in 0..n {
        ctx.set_op(&format!("open new stream {i}"));
        let r = if i < z.n_bi { conn.open_bi().await.map(|(s, r)| (s, Some(r))) } else { conn.open_uni().await.map(|s| (s, None)) };
        let (s, r) = match r {
            Ok(x) => x,
            Err(e) => {
                ctx.conn_err("open (after rejection)", err_kind(&e));
                return;
            }
        };
        if s.id() != sends[i].id() {
            ctx.fail("c18-0rtt-numbering-not-restarted", format!("stream {i} opened after the rejection has id {}, the early one had {}", s.id(), sends[i].id()));
        }
        let data = zdata(Z_NEW + i as u64, z.len[i]);
        let chunk = z.wchunk;
        ctx.spawn(format!("app:client:zwriter{i}"), Class::Job, move |c| zwriter(c, format!("client stream {i} (opened after the 0-RTT rejection, same id as the early one)"), data, 0, s, 0, KEY_0RTT_EFFECT, false, chunk));
        if let Some(r) = r {
            let blen = z.back_len[i];
            ctx.spawn(format!("app:client:zreader{i}"), Class::Job, move |c| zreader(c, format!("client stream {i} (server to client, opened after the 0-RTT rejection)"), Z_BACK + i as u64, blen, r, 0, KEY_0RTT_EFFECT, false));
        }
    }
    // ---- the early SendStream handles are used once more while the new streams are busy, then dropped
    ctx.set_op("holding rejected early SendStreams");
    zsleep(&mut ctx, z.act_at).await;
    for (i, mut s) in sends.into_iter().enumerate() {
        for a in z.acts[i].iter() {
            ctx.set_op(&format!("early handle of stream {i}: {a:?}"));
            ctx.count(&format!("zrtt:act:{a:?}"));
            match a {
                Act::Write => match s.write(&[0xEE; 10]).await {
                    Err(WriteError::ZeroRttRejected) => {}
                    other => {
                        if !ctx.closing() {
                            ctx.fail(if other.is_ok() { KEY_0RTT_EFFECT } else { KEY_0RTT_REPORT }, format!("write() on the early SendStream of stream {i} after the rejection yielded {other:?}"));
                        }
                    }
                },
                Act::Stopped => match s.stopped().await {
                    Err(quinn::StoppedError::ZeroRttRejected) => {}
                    other => {
                        if !ctx.closing() {
                            ctx.fail(KEY_0RTT_REPORT, format!("stopped() on the early SendStream of stream {i} after the rejection yielded {other:?}"));
                        }
                    }
                },
                // (these cannot report the rejection through their error type: judged by their effect)
                Act::Finish => {
                    let _ = s.finish();
                }
                Act::SetPriority => {
                    let _ = s.set_priority(7);
                }
                Act::Reset => {
                    let _ = s.reset(VarInt::from_u32(5));
                }
            }
        }
        ctx.count("zrtt:early-send-dropped");
        drop(s);
    }
    drop(conn);
    ctx.set_op("idle after drop");
    ctx.idle_gap().await;
}

async fn zrtt_server_main(mut ctx: Ctx, ep: Endpoint) {
    let z = ctx.plan.zrtt.clone().unwrap();
    let kind = ctx.plan.incoming;
    let mut nconn = 0usize;
    loop {
        let inc = cancelable!(ctx, "endpoint.accept", None, true, ep.accept());
        let Some(inc) = inc else {
            ctx.count("result:accept-none");
            break;
        };
        if kind == IncomingKind::RetryFirst && !inc.remote_address_validated() && inc.may_retry() {
            ctx.count("op:incoming-retry");
            let _ = inc.retry();
            continue;
        }
        nconn += 1;
        match nconn {
            // (not judged: when the client's CONNECTION_CLOSE is lost this connection lives until its idle timeout)
            1 => ctx.spawn("app:server:first_conn".into(), Class::EndpointLevel, move |c| async move {
                c.set_op("first connection: handshake");
                let conn = match inc.accept() {
                    Ok(x) => x.await,
                    Err(e) => Err(e),
                };
                if let Ok(conn) = conn {
                    c.set_op("first connection: closed");
                    let _ = conn.closed().await;
                }
            }),
            2 => {
                let z = z.clone();
                ctx.spawn("app:server:handshake".into(), Class::Job, move |mut c| async move {
                    c.set_op("second connection: handshake");
                    let connecting = match inc.accept() {
                        Ok(x) => x,
                        Err(e) => {
                            c.conn_err("server accept", err_kind(&e));
                            return;
                        }
                    };
                    let conn = if z.server_0rtt {
                        match connecting.into_0rtt() {
                            Ok(conn) => conn,
                            Err(_) => unreachable!("into_0rtt always succeeds on the server"),
                        }
                    } else {
                        match connecting.await {
                            Ok(conn) => conn,
                            Err(e) => {
                                c.conn_err("server handshake", err_kind(&e));
                                return;
                            }
                        }
                    };
                    register_conn(&mut c, SERVER, &conn);
                    // what the streams carry: the early job when the early data is accepted, the new one after a rejection
                    let base = if z.reject { Z_NEW } else { Z_EARLY };
                    let delay = if z.reject { 40 * MS } else { 0 };
                    for bi in [true, false] {
                        let conn = conn.clone();
                        let z = z.clone();
                        let count = if bi { z.n_bi } else { z.n_uni };
                        let class = if count > 0 { Class::Job } else { Class::UntilClose };
                        c.spawn(format!("app:server:zaccept_{}", if bi { "bi" } else { "uni" }), class, move |mut c| async move {
                            let mut j = 0;
                            loop {
                                if j >= count {
                                    c.set_class(Class::UntilClose);
                                }
                                c.set_op(if bi { "accept_bi" } else { "accept_uni" });
                                let (s, r) = if bi {
                                    match conn.accept_bi().await {
                                        Ok((s, r)) => (Some(s), r),
                                        Err(e) => {
                                            c.conn_err("accept_bi", err_kind(&e));
                                            return;
                                        }
                                    }
                                } else {
                                    match conn.accept_uni().await {
                                        Ok(r) => (None, r),
                                        Err(e) => {
                                            c.conn_err("accept_uni", err_kind(&e));
                                            return;
                                        }
                                    }
                                };
                                let idx = r.id().index() as usize;
                                let i = if bi { idx } else { z.n_bi + idx };
                                if j >= count || idx >= count {
                                    c.fail("c18-accept-order", format!("server accepted stream index {idx} ({}), the client uses only {count}", if bi { "bi" } else { "uni" }));
                                    return;
                                }
                                c.unit(format!("zaccept:{bi}:{idx}"));
                                let who = format!("server stream {i} (client to server, 0-RTT rejected: {})", z.reject);
                                let len = z.len[i];
                                c.spawn(format!("app:server:zreader{i}"), Class::Job, move |c| zreader(c, who, base + i as u64, len, r, delay, if z.reject { KEY_0RTT_EFFECT } else { "c18-unexpected-error" }, false));
                                if let Some(s) = s {
                                    let data = zdata(Z_BACK + i as u64, z.back_len[i]);
                                    let stop_ok = z.stop_early_recv[i] && !z.reject;
                                    c.spawn(format!("app:server:zwriter{i}"), Class::Job, move |c| zwriter(c, format!("server stream {i} (server to client)"), data, 0, s, delay, if z.reject { KEY_0RTT_EFFECT } else { "c18-unexpected-error" }, stop_ok, 3000));
                                }
                                j += 1;
                            }
                        });
                    }
                });
            }
            _ => {
                ctx.count("op:incoming-refuse");
                inc.refuse();
            }
        }
    }
}

// ------------------------------------------------------------------------------------------------
// controller: phases of one case, oracles
// ------------------------------------------------------------------------------------------------

struct CaseOut {
    fails: Vec<String>,
    counters: BTreeMap<String, u64>,
    sig: u64,
    polls: u64,
    nontrivial: bool,
    sample: String,
}

enum RunEnd {
    /// the caller's predicate became true
    Cond,
    /// no ready task; the next event is further than DEEP_NS away
    Deep,
    Quiescent,
    Budget,
    Panicked(String),
}

const STEP_BUDGET: u64 = 1_500_000;

/// run until `cond` holds, deep quiescence (only when `stop_at_deep`), full quiescence, or the budget ends
fn run(ex: &mut Exec, stop_at_deep: bool, until_ns: u64, cond: &mut dyn FnMut(&Exec) -> bool) -> RunEnd {
    loop {
        if cond(ex) {
            return RunEnd::Cond;
        }
        if ex.steps > STEP_BUDGET {
            return RunEnd::Budget;
        }
        match ex.step() {
            Step::Polled => {}
            Step::Idle(t) => {
                let now = ex.w.now();
                if t > until_ns {
                    return RunEnd::Budget;
                }
                if stop_at_deep && t > now + DEEP_NS {
                    return RunEnd::Deep;
                }
                ex.advance_to(t);
            }
            Step::Quiescent => return RunEnd::Quiescent,
            Step::Panicked(m) => return RunEnd::Panicked(m),
        }
    }
}

fn transport(t: &TcPlan) -> TransportConfig {
    let mut tc = TransportConfig::default();
    tc.max_concurrent_bidi_streams(VarInt::from_u32(t.max_bi));
    tc.max_concurrent_uni_streams(VarInt::from_u32(t.max_uni));
    tc.stream_receive_window(VarInt::from_u32(t.stream_rwnd));
    tc.receive_window(VarInt::from_u32(t.rwnd));
    tc.send_window(t.swnd);
    tc.datagram_send_buffer_size(t.dg_sbuf);
    tc.datagram_receive_buffer_size(Some(4_000_000));
    tc.max_idle_timeout(Some(IdleTimeout::try_from(Duration::from_secs(30)).unwrap()));
    tc.initial_rtt(Duration::from_millis(5));
    tc
}

fn pending_tasks(ex: &Exec, pred: impl Fn(&Task, Class) -> bool) -> Vec<String> {
    ex.tasks
        .iter()
        .filter(|t| !t.done() && pred(t, t.class()))
        .map(|t| format!("{} [{}] polls={} wakes={}", t.name, t.op(), t.polls, t.tw.wakes.load(SeqCst)))
        .collect()
}

fn base_instant() -> Instant {
    static BASE: std::sync::OnceLock<Instant> = std::sync::OnceLock::new();
    *BASE.get_or_init(Instant::now)
}

fn run_case(seed: u64, case: u64) -> CaseOut {
    let cseed = seed.wrapping_mul(0x1_0000_01b3).wrapping_add(case.wrapping_mul(0x9E37_79B9)) ^ 0xc18;
    let mut rng = Rng::new(cseed);
    let mut plan = gen_plan(&mut rng);
    // an eighth of the cases: quiescent single-event plans (own generator stream: the other cases keep their plans)
    if case % 8 == 5 && x4::family(case).is_none() {
        let mut qrng = Rng::new(cseed ^ 0x9e5_c18);
        let q = qev::gen_qev(&mut qrng);
        qev::apply(&mut plan, q);
    }
    // round-4 families: additional case ids (>= 1_000_000), own generator streams
    x4::apply(&mut plan, cseed, case);
    let plan = Arc::new(plan);
    let addrs: [SocketAddr; 2] = ["127.0.0.1:50001".parse().unwrap(), "127.0.0.1:4433".parse().unwrap()];
    let world = World(Arc::new(Mutex::new(WorldInner {
        base: base_instant(),
        now: SEC,
        tick: plan.tick,
        timers: BTreeMap::new(),
        next_timer: 0,
        flights: Vec::new(),
        seq: 0,
        inbox: [VecDeque::new(), VecDeque::new()],
        rx_waker: [None, None],
        addrs,
        drops_in_row: 0,
        net: plan.net.clone(),
        rng: Rng::new(rng.next()),
        spawnq: Vec::new(),
        nspawn: [0, 0],
        sent: 0,
        dropped: 0,
        delivered: 0,
        send_blocks: 0,
        timer_fires: 0,
        recv_fail: [false; 2],
        send_fail: [false; 2],
        io_errors: 0,
        transient_errors: 0,
        registry: Vec::new(),
    })));
    let log: Log = Arc::new(Mutex::new(CaseLog::default()));
    let hs: Hs = Arc::new(Mutex::new(Handles::default()));
    let mut ex = Exec { w: world.clone(), hs: hs.clone(), log: log.clone(), tasks: Vec::new(), rng: Rng::new(rng.next()), policy: plan.policy, steps: 0, polls_ready: 0, polls_pending: 0 };
    let fail = |key: &str, what: String| {
        let mut l = log.lock().unwrap();
        if l.fails.len() < 20 {
            l.fails.push(format!("key={key} case={case} {what}"));
        }
    };

    // ---- endpoints (their drivers are spawned through SimRuntime::spawn into our task list)
    let clock = SimClock(Arc::new(Mutex::new(std::time::UNIX_EPOCH + Duration::from_secs(1_700_000_000))));
    let built = catch_unwind(AssertUnwindSafe(|| {
        let scfg = server_config(cseed, transport(&plan.tc[SERVER]), &clock);
        let ccfg = client_config(cseed, transport(&plan.tc[CLIENT]));
        let eps = Endpoint::new_with_abstract_socket(endpoint_config(cseed ^ 1, 8, None), Some(scfg), Box::new(SimSocket { w: world.clone(), side: SERVER }), Arc::new(SimRuntime { w: world.clone(), side: SERVER })).unwrap();
        let epc = Endpoint::new_with_abstract_socket(endpoint_config(cseed ^ 2, 8, None), None, Box::new(SimSocket { w: world.clone(), side: CLIENT }), Arc::new(SimRuntime { w: world.clone(), side: CLIENT })).unwrap();
        (epc, eps, ccfg)
    }));
    let Ok((epc, eps, ccfg)) = built else {
        fail("c18-panic", format!("endpoint construction: {}", LAST_PANIC.with(|p| p.borrow().clone())));
        let l = log.lock().unwrap();
        return CaseOut { fails: l.fails.clone(), counters: BTreeMap::new(), sig: 0, polls: 0, nontrivial: false, sample: String::new() };
    };
    {
        let mut root = Ctx { w: world.clone(), tw: TaskWaker::new(Class::Job), log: log.clone(), h: hs.clone(), rng: Rng::new(rng.next()), plan: plan.clone() };
        let (e1, e2) = (epc.clone(), eps.clone());
        if plan.x4.is_some() {
            let scfg2 = server_config(cseed ^ 0x99, transport(&plan.tc[SERVER]), &clock);
            x4::spawn_roots(&mut root, &plan, e1, e2.clone(), ccfg, addrs[SERVER], scfg2);
        } else if let Some(z) = plan.zrtt.as_ref() {
            // a server config with FRESH TLS state (new ticket keys): installed between the two connections
            let scfg2 = if z.reject { Some(server_config(cseed ^ 0x99, transport(&plan.tc[SERVER]), &clock)) } else { None };
            root.spawn("app:client:main0".into(), Class::Job, move |c| zrtt_client_main(c, e1, ccfg, addrs[SERVER], scfg2));
            let e = e2.clone();
            root.spawn("app:server:main0".into(), Class::EndpointLevel, move |c| zrtt_server_main(c, e));
        } else {
            root.spawn("app:client:main0".into(), Class::Job, move |c| client_main(c, e1, ccfg, addrs[SERVER]));
            let q = quotas(&mut rng, 1 + plan.extra_connects, plan.k_ep_accept);
            let k = q.len();
            for (w, quota) in q.into_iter().enumerate() {
                let e = e2.clone();
                let class = if k > 1 { Class::Job } else { Class::EndpointLevel };
                root.spawn(format!("app:server:main{w}"), class, move |c| server_main(c, e, w, k, quota));
            }
        }
        if plan.qev.is_some() {
            root.spawn("app:qev:script".into(), Class::Job, qev::script);
        }
        drop(e2);
        let mut h = hs.lock().unwrap();
        h.endpoint = [Some(epc), Some(eps)];
    }

    let mut panicked: Option<String> = None;
    let far = u64::MAX / 2;

    // ---- phase 1: workload
    let closer = match plan.close {
        CloseKind::Explicit(s) | CloseKind::DropHandles(s) | CloseKind::EndpointClose(s) | CloseKind::RecvError(s) | CloseKind::SendError(s) => s,
        CloseKind::IdleTimeout => CLIENT,
    };
    let mut connected_at: Option<u64> = None;
    let mid = plan.mid;
    let lg = log.clone();
    let end = run(&mut ex, true, far, &mut |e: &Exec| match mid {
        Some(n) => {
            if connected_at.is_none() && lg.lock().unwrap().connected[closer] {
                connected_at = Some(e.steps);
            }
            connected_at.is_some_and(|c| e.steps >= c + n)
        }
        None => false,
    });
    let mut graceful = false;
    let mut end = end;
    // An opener stuck at quiescence: is stream credit available at the peer but not ANNOUNCED? Look at the side
    // that grants the credit (read-only hooks) BEFORE anything else happens:
    //  * MAX_STREAMS queued and the driver asleep: the wake protocol lost it (own key);
    //  * a stream freed but no MAX_STREAMS queued: a violation. The key names the call site: quinn-proto used to
    //    queue MAX_STREAMS for credit freed by `RecvStream::stop` on a stream whose final size is already known only
    //    at the end of the next incoming packet (repaired); that key is used when this side's history has such a
    //    stop (or drop of an unread RecvStream) for that direction, any other way of losing the announcement has
    //    its own key.
    // Then make each side send one packet (a MAX_DATA raise) and look again: openers that get going now were
    // parked for one of these reasons, anything still parked is judged by the general oracle below.
    if plan.qev.is_none() && matches!(end, RunEnd::Deep | RunEnd::Quiescent) {
        let before = pending_tasks(&ex, |t, c| c == Class::Job && t.op().starts_with("open_"));
        if !before.is_empty() {
            let mut verdicts: Vec<(&'static str, String)> = Vec::new();
            for side in 0..2 {
                let Some(c) = drvwake::conn_of(&hs, side) else { continue };
                let p = drvwake::probe_conn(&world, &c);
                for (d, kind) in [(0usize, "open_bi"), (1usize, "open_uni")] {
                    // (openers of the OTHER side wait for this side's credit)
                    let parked = before.iter().any(|t| t.starts_with(&format!("app:{}:", SIDE[1 - side])) && t.contains(&format!("[{kind}")));
                    if !parked {
                        continue;
                    }
                    let (queued, unannounced, max_remote, sent) = drvwake::credit_state(&c, d);
                    let state = format!("{}: queued [{}], max_remote {max_remote}, announced {sent}, driver {} asleep={}", SIDE[side], drvwake::queued(&c), p.driver, p.asleep);
                    if queued && p.asleep {
                        verdicts.push((drvwake::KEY_E2E_QUEUED, format!("the MAX_STREAMS frame is queued but the connection driver was never woken ({state})")));
                    } else if unannounced && !queued {
                        let hist = log.lock().unwrap().stop_known_final[side][d];
                        if hist > 0 {
                            verdicts.push((drvwake::KEY_KNOWN_STOP, format!("the peer had freed a stream by stop()/drop after the final size was known ({hist} such call(s)); the MAX_STREAMS frame goes out only after an unrelated packet arrives there ({state})")));
                        } else {
                            verdicts.push((drvwake::KEY_CREDIT_NOT_ANNOUNCED, format!("a stream was freed but no MAX_STREAMS frame is queued, and no stop()/drop on a stream with known final size happened on that side ({state})")));
                        }
                    }
                }
            }
            for side in 0..2 {
                let c = hs.lock().unwrap().conn[side].clone();
                if let Some(c) = c {
                    c.set_receive_window(VarInt::from_u32(plan.tc[side].rwnd.saturating_mul(4).min(1 << 30)));
                }
            }
            end = run(&mut ex, true, far, &mut |_| false);
            let after = pending_tasks(&ex, |t, c| c == Class::Job && t.op().starts_with("open_"));
            if after != before {
                if verdicts.is_empty() {
                    verdicts.push(("c18-lost-wakeup", "stream openers were parked at quiescence and got going after an unrelated packet exchange, although the peer owed no stream credit that the hooks could see".into()));
                }
                for (k, v) in verdicts {
                    fail(k, format!("quiescent with the connection open: stream openers were parked: {v}; parked: {}", before.join(" | ")));
                }
            }
        }
    }
    match end {
        RunEnd::Cond => {}
        RunEnd::Deep | RunEnd::Quiescent => {
            graceful = true;
            let stuck = pending_tasks(&ex, |_, c| c == Class::Job);
            if !stuck.is_empty() && env::var("ASYNCSIM_DEBUG").is_ok() {
                eprintln!("PLAN {:#?}", plan);
                {
                    let w = world.l();
                    eprintln!("NOW {} ns; timers: {:?}; flights {}", w.now, w.timers.iter().map(|(k, t)| (*k, t.deadline, t.waker.is_some(), t.harness)).collect::<Vec<_>>(), w.flights.len());
                }
                eprintln!("JOBS {:#?}", log.lock().unwrap().jobs);
                for t in ex.tasks.iter() {
                    eprintln!("TASK {} done={} op=[{}] polls={} wakes={}", t.name, t.done(), t.op(), t.polls, t.tw.wakes.load(SeqCst));
                }
                for side in 0..2 {
                    if let Some(c) = hs.lock().unwrap().conn[side].clone() {
                        eprintln!("STATS {} {:#?}", SIDE[side], c.stats());
                    }
                }
            }
            // known signature: write() on a stream the peer has stopped, pending for ever
            let mut after_stop = Vec::new();
            {
                let l = log.lock().unwrap();
                for sp in plan.sides.iter().flat_map(|s| s.bi.iter().chain(s.uni.iter())) {
                    for job in std::iter::once(&sp.fwd).chain(sp.bwd.iter()) {
                        let suffix = format!(":writer:job{} ", job.id);
                        let reader_gone = job.fate != Fate::ReadAll && l.jobs.get(&job.id).is_some_and(|r| r.r_done && !r.fin);
                        if reader_gone {
                            after_stop.extend(stuck.iter().filter(|s| s.contains(&suffix) && s.contains("[write job=")).cloned());
                        }
                    }
                }
            }
            // signature: stopped() registered before a LOCAL reset of the stream, still pending although the
            // RESET_STREAM was acknowledged long ago (a fresh stopped() of the same stream completes at once)
            let mut after_reset = Vec::new();
            {
                let l = log.lock().unwrap();
                for (id, r) in l.jobs.iter() {
                    if r.reset_done {
                        let pat = format!("[stopped job={id} waiter ");
                        after_reset.extend(stuck.iter().filter(|s| s.contains(&pat)).map(|s| format!("{s} (fresh stopped() after the reset: {:?})", r.fresh_stopped)));
                    }
                }
            }
            let rest: Vec<String> = stuck.iter().filter(|s| !after_stop.contains(s) && !after_reset.iter().any(|a| a.starts_with(s.as_str()))).cloned().collect();
            if !after_stop.is_empty() {
                fail("c18-lost-wakeup-write-after-stop", format!("quiescent with the connection open: write() still pending on a stream whose reader stopped it (STOP_SENDING delivered: the write can only fail with Stopped); stuck: {}", after_stop.join(" | ")));
            }
            if !after_reset.is_empty() {
                fail("c18-lost-wakeup-stopped-after-reset", format!("quiescent with the connection open: stopped() still pending on a stream that was reset locally and whose reset was acknowledged; stuck: {}", after_reset.join(" | ")));
            }
            if !rest.is_empty() {
                fail("c18-lost-wakeup", format!("quiescent (no ready task, no timer within 5 s) with the connection open, network fair, nobody closed; stuck: {}", rest.join(" | ")));
            }
            // datagram readers: pending is fine unless the connection holds datagrams they were not given
            for side in 0..2 {
                let conn = hs.lock().unwrap().conn[side].clone();
                if let Some(c) = conn {
                    let frames = c.stats().frame_rx.datagram;
                    let got = log.lock().unwrap().dg_recv[side];
                    let reading = ex.tasks.iter().any(|t| !t.done() && t.name.starts_with(&format!("app:{}:dgram_read", SIDE[side])));
                    if reading && got < frames {
                        fail("c18-lost-wakeup", format!("{} read_datagram pending at quiescence although {frames} DATAGRAM frames were received and only {got} handed out", SIDE[side]));
                    }
                }
            }
        }
        RunEnd::Budget => fail("c18-livelock", format!("step budget exhausted in the workload phase ({} steps)", ex.steps)),
        RunEnd::Panicked(m) => panicked = Some(m),
    }

    // content totals of completed jobs (only meaningful when the workload ran to completion)
    if graceful && panicked.is_none() {
        let l = log.lock().unwrap();
        let mut out = Vec::new();
        for sp in plan.sides.iter().flat_map(|s| s.bi.iter().chain(s.uni.iter())) {
            for job in std::iter::once(&sp.fwd).chain(sp.bwd.iter()) {
                let Some(r) = l.jobs.get(&job.id) else { continue };
                if !(r.w_done && r.r_done) || r.bad {
                    continue;
                }
                let cancels = job.rcancel || job.wcancel;
                if matches!(job.end, End::Reset(_)) {
                    // a reset stream: the reader may see any prefix of what was written, never more
                    if r.read > r.written && (r.w_err.is_none() || matches!(job.wmode, WMode::Write | WMode::WriteChunks)) {
                        out.push((if cancels { "c18-cancel-duplicated-data" } else { "c18-data-duplicated" }, format!("job {}: {} bytes written before the reset, {} read", job.id, r.written, r.read)));
                    }
                    if job.fate == Fate::ReadAll && r.r_err.is_none() && r.fin {
                        out.push(("c18-reset-not-observed", format!("job {}: the writer reset the stream without finishing it, the reader saw a clean end after {} bytes", job.id, r.read)));
                    }
                } else if r.w_err.is_none() && r.written == job.len as u64 && job.fate == Fate::ReadAll && r.r_err.is_none() {
                    if !r.fin {
                        out.push(("c18-lost-wakeup", format!("job {}: reader ended without seeing the end of the stream", job.id)));
                    } else if r.read < job.len as u64 {
                        out.push((if cancels { "c18-cancel-lost-data" } else { "c18-data-lost" }, format!("job {}: {} bytes written and finished ({:?}), only {} read before the end of the stream (rmode {:?} wmode {:?})", job.id, r.written, job.end, r.read, job.rmode, job.wmode)));
                    } else if r.read > job.len as u64 {
                        out.push((if cancels { "c18-cancel-duplicated-data" } else { "c18-data-duplicated" }, format!("job {}: {} bytes written, {} read (rmode {:?} wmode {:?})", job.id, r.written, r.read, job.rmode, job.wmode)));
                    }
                } else if r.read > r.written && (r.w_err.is_none() || matches!(job.wmode, WMode::Write | WMode::WriteChunks)) {
                    // (write_all / write_chunk report no partial progress when they fail)
                    out.push((if cancels { "c18-cancel-duplicated-data" } else { "c18-data-duplicated" }, format!("job {}: {} bytes written, {} read", job.id, r.written, r.read)));
                }
            }
        }
        drop(l);
        for (k, w) in out {
            fail(k, w);
        }
    }

    // ---- phase 2: close
    let mut wait_idle_sides = Vec::new();
    let mut implicit_peer: Option<usize> = None;
    if panicked.is_none() {
        log.lock().unwrap().closing = true;
        // concurrent Endpoint::accept waiters are owed connection attempts only while the client still makes them
        // … but once the server's endpoint is closed or its driver is lost, Endpoint::accept must yield None
        let accept_must_end = matches!(plan.close, CloseKind::EndpointClose(SERVER) | CloseKind::RecvError(SERVER));
        for t in ex.tasks.iter() {
            if t.name.starts_with("app:server:main") {
                t.tw.info.lock().unwrap().class = if accept_must_end { Class::UntilClose } else { Class::EndpointLevel };
            }
        }
        // endpoint driver loss: wait_idle waiters are already PARKED when the driver dies
        if let CloseKind::RecvError(s) = plan.close {
            let e = hs.lock().unwrap().endpoint[s].clone();
            if let Some(e) = e {
                let mut root = Ctx { w: world.clone(), tw: TaskWaker::new(Class::Job), log: log.clone(), h: hs.clone(), rng: Rng::new(rng.next()), plan: plan.clone() };
                let kw = plan.sides[s].k_watch.max(1);
                for w in 0..kw {
                    let e = e.clone();
                    root.spawn(format!("app:{}:wait_idle_early{w}", SIDE[s]), Class::Teardown, move |c| async move {
                        c.set_op(&format!("wait_idle (parked before the driver is lost) waiter {w}/{kw}"));
                        e.wait_idle().await;
                        drop(e);
                    });
                }
                drop(e);
                let prefix = format!("app:{}:wait_idle_early", SIDE[s]);
                let budget = ex.steps + 400;
                if let RunEnd::Panicked(m) = run(&mut ex, false, far, &mut |e: &Exec| {
                    e.steps >= budget || (e.w.l().spawnq.is_empty() && e.tasks.iter().filter(|t| t.name.starts_with(&prefix)).all(|t| t.polls > 0))
                }) {
                    panicked = Some(m);
                }
            }
        }
        let probe_before = drvwake::probe_all(&world, &hs);
        let r = catch_unwind(AssertUnwindSafe(|| -> Result<(), String> {
            match plan.close {
                CloseKind::Explicit(s) => {
                    let c = hs.lock().unwrap().conn[s].clone();
                    match c {
                        Some(c) => c.close(VarInt::from_u32(42), b"bye"),
                        None => {
                            let e = hs.lock().unwrap().endpoint[s].clone();
                            if let Some(e) = e {
                                e.close(VarInt::from_u32(42), b"bye")
                            }
                        }
                    }
                }
                CloseKind::EndpointClose(s) => {
                    let e = hs.lock().unwrap().endpoint[s].clone();
                    if let Some(e) = e {
                        e.close(VarInt::from_u32(43), b"endpoint")
                    }
                }
                CloseKind::DropHandles(s) => {
                    // the implicit CONNECTION_CLOSE must get through for the peer-side check to be meaningful
                    world.l().net.loss_pct = 0;
                    let had = hs.lock().unwrap().conn[s].is_some();
                    let prefix = format!("app:{}:", SIDE[s]);
                    for i in 0..ex.tasks.len() {
                        if ex.tasks[i].name.starts_with(&prefix) && !ex.tasks[i].name.contains(":main") {
                            ex.kill(i)?;
                        }
                    }
                    let last = hs.lock().unwrap().conn[s].take();
                    drop(last);
                    if had {
                        implicit_peer = Some(1 - s);
                    }
                }
                CloseKind::IdleTimeout => {}
                CloseKind::RecvError(s) => {
                    let mut w = world.l();
                    w.recv_fail[s] = true;
                    if let Some(wk) = w.rx_waker[s].take() {
                        wk.wake();
                    }
                }
                CloseKind::SendError(s) => {
                    world.l().send_fail[s] = true;
                    // make the connection transmit something (a MAX_STREAMS frame) so that it meets the error
                    let c = hs.lock().unwrap().conn[s].clone();
                    if let Some(c) = c {
                        c.set_max_concurrent_uni_streams(VarInt::from_u32(plan.tc[s].max_uni + 1000));
                    }
                }
            }
            if let Some(s) = plan.drop_endpoint_early {
                let name = format!("app:{}:main", SIDE[s]);
                for i in 0..ex.tasks.len() {
                    if ex.tasks[i].name.starts_with(&name) {
                        ex.kill(i)?;
                    }
                }
                let e = hs.lock().unwrap().endpoint[s].take();
                drop(e);
            }
            Ok(())
        }));
        match r {
            Ok(Ok(())) => {
                // the close action is an application-side call as well (close / set_* made by the controller)
                let probe_after = drvwake::probe_all(&world, &hs);
                drvwake::judge(&probe_before, &probe_after, &hs, &log, &format!("the close action {:?}", plan.close));
            }
            Ok(Err(m)) => panicked = Some(m),
            Err(_) => panicked = Some(format!("close action {:?}: {}", plan.close, LAST_PANIC.with(|p| p.borrow().clone()))),
        }
        if panicked.is_none() {
            for s in 0..2 {
                // (after a fatal send error the connection is dead but stays registered with its endpoint until
                // the application drops its handles: wait_idle is not owed before phase 3)
                if plan.close == CloseKind::SendError(s) {
                    continue;
                }
                let e = hs.lock().unwrap().endpoint[s].clone();
                if let Some(e) = e {
                    wait_idle_sides.push(s);
                    let mut root = Ctx { w: world.clone(), tw: TaskWaker::new(Class::Job), log: log.clone(), h: hs.clone(), rng: Rng::new(rng.next()), plan: plan.clone() };
                    let kw = plan.sides[s].k_watch.max(1);
                    for w in 0..kw {
                        let e = e.clone();
                        root.spawn(format!("app:{}:wait_idle{w}", SIDE[s]), Class::Teardown, move |c| async move {
                            c.set_op(&format!("wait_idle waiter {w}/{kw}"));
                            e.wait_idle().await;
                            drop(e);
                        });
                    }
                }
            }
        }
    }
    if panicked.is_none() {
        let t_end = world.now() + 300 * SEC;
        let end = run(&mut ex, false, t_end, &mut |e: &Exec| e.w.l().spawnq.is_empty() && e.tasks.iter().all(|t| t.done() || matches!(t.class(), Class::Driver | Class::EndpointLevel)));
        match end {
            RunEnd::Cond => {}
            RunEnd::Panicked(m) => panicked = Some(m),
            RunEnd::Deep | RunEnd::Quiescent | RunEnd::Budget => {
                if matches!(end, RunEnd::Budget) && ex.steps > STEP_BUDGET {
                    fail("c18-livelock", format!("step budget exhausted after the close ({} steps)", ex.steps));
                }
                let fault = matches!(plan.close, CloseKind::RecvError(_) | CloseKind::SendError(_));
                let stuck = pending_tasks(&ex, |_, c| matches!(c, Class::Job | Class::UntilClose));
                if !stuck.is_empty() {
                    if fault {
                        fail("c18-driver-loss-does-not-wake", format!("{:?}: the socket failed with a fatal I/O error and the driver future ended; the connection can make no progress any more, yet pending operations never completed: {}", plan.close, stuck.join(" | ")));
                    } else {
                        fail("c18-close-does-not-wake", format!("close action {:?}: connection closed or lost, yet pending operations never completed: {}", plan.close, stuck.join(" | ")));
                    }
                }
                let stuck = pending_tasks(&ex, |_, c| c == Class::Teardown);
                if !stuck.is_empty() {
                    if fault {
                        fail("c18-driver-loss-does-not-wake", format!("{:?}: wait_idle never resolved although the endpoint driver is gone and no connection is left (a fresh wait_idle() returns at once): {}", plan.close, stuck.join(" | ")));
                    } else {
                        fail("c18-lost-wakeup", format!("wait_idle never resolved although every connection is gone (close action {:?}): {}", plan.close, stuck.join(" | ")));
                    }
                }
            }
        }
    }
    if panicked.is_none() {
        // let the drivers digest what the last application poll produced (a Drained event on its way to the
        // endpoint driver) before the bookkeeping is inspected; the clock does not move
        for _ in 0..10_000 {
            match ex.step() {
                Step::Polled => {}
                Step::Panicked(m) => {
                    panicked = Some(m);
                    break;
                }
                _ => break,
            }
        }
    }
    if panicked.is_none() {
        let l = log.lock().unwrap();
        let mut out = Vec::new();
        if let CloseKind::Explicit(s) = plan.close {
            if l.connected[s] {
                match &l.closed[s] {
                    Some(k) if k == "LocallyClosed" => {}
                    other => out.push(("c18-close-does-not-wake", format!("{} called close(); its closed() gave {other:?} instead of LocallyClosed", SIDE[s]))),
                }
            }
        }
        if let Some(p) = implicit_peer {
            if l.connected[p] {
                match &l.closed[p] {
                    Some(k) if k == "ApplicationClosed(0)" => {}
                    other => out.push(("c18-implicit-close-missing", format!("{} dropped its last Connection handle over a loss-free network; the peer's closed() gave {other:?} instead of ApplicationClosed(0)", SIDE[1 - p]))),
                }
            }
        }
        drop(l);
        for s in wait_idle_sides.iter().copied() {
            // (an endpoint whose driver is gone cannot process Drained events any more: not judged)
            if plan.close == CloseKind::RecvError(s) {
                continue;
            }
            let e = hs.lock().unwrap().endpoint[s].clone();
            if let Some(e) = e {
                let n = e.open_connections();
                if n != 0 {
                    out.push(("c18-driver-leak", format!("{} endpoint: wait_idle resolved but open_connections() = {n}", SIDE[s])));
                }
            }
        }
        for (k, w) in out {
            fail(k, w);
        }
    }

    // ---- phase 3: release everything; the drivers must terminate
    if panicked.is_none() {
        let r = catch_unwind(AssertUnwindSafe(|| -> Result<(), String> {
            for i in 0..ex.tasks.len() {
                if ex.tasks[i].class() != Class::Driver {
                    ex.kill(i)?;
                }
            }
            let mut h = hs.lock().unwrap();
            let taken = (h.conn[0].take(), h.conn[1].take(), h.endpoint[0].take(), h.endpoint[1].take());
            drop(h);
            drop(taken);
            Ok(())
        }));
        match r {
            Ok(Ok(())) => {}
            Ok(Err(m)) => panicked = Some(m),
            Err(_) => panicked = Some(format!("releasing handles: {}", LAST_PANIC.with(|p| p.borrow().clone()))),
        }
    }
    if panicked.is_none() {
        let t_end = world.now() + 300 * SEC;
        match run(&mut ex, false, t_end, &mut |e: &Exec| e.w.l().spawnq.is_empty() && e.tasks.iter().all(|t| t.done())) {
            RunEnd::Cond => {}
            RunEnd::Panicked(m) => panicked = Some(m),
            _ => {
                let left = pending_tasks(&ex, |_, _| true);
                fail("c18-driver-leak", format!("every handle dropped and the system is quiescent, yet spawned tasks never finished: {}", left.join(" | ")));
            }
        }
    }
    if panicked.is_none() {
        let w = world.l();
        let timers = w.timers.values().filter(|t| !t.harness && !t.oneshot).count();
        if timers != 0 {
            drop(w);
            fail("c18-driver-leak", format!("{timers} runtime timers still registered after every task finished"));
        }
    }
    // ---- stale registrations: wakes that reached a task which awaited nothing / was finished
    for t in ex.tasks.iter() {
        let s = t.tw.stale.load(SeqCst);
        if s > 0 && t.class() != Class::Driver {
            fail("c18-stale-registration", format!("task {} was woken {s} time(s) by a registration left behind after its future/handle was dropped (covered by allowed leftovers: {})", t.name, t.tw.covered.load(SeqCst)));
        }
    }
    if let Some(m) = &panicked {
        fail("c18-panic", m.clone());
    }

    // ---- summary
    let mut sig = 0xcbf2_9ce4_8422_2325u64;
    let mut mix = |x: u64| {
        sig ^= x;
        sig = sig.wrapping_mul(0x1_0000_01b3);
    };
    mix(ex.steps);
    mix(world.now());
    for t in ex.tasks.iter() {
        mix(t.polls);
        mix(t.tw.wakes.load(SeqCst));
    }
    let (sent, dropped, delivered, blocks, fires) = {
        let w = world.l();
        (w.sent, w.dropped, w.delivered, w.send_blocks, w.timer_fires)
    };
    mix(sent);
    mix(dropped);
    let mut l = log.lock().unwrap();
    let covered: u64 = ex.tasks.iter().map(|t| t.tw.covered.load(SeqCst)).sum();
    let mut c = std::mem::take(&mut l.counters);
    *c.entry("poll:pending".into()).or_default() += ex.polls_pending;
    *c.entry("poll:ready".into()).or_default() += ex.polls_ready;
    *c.entry("wake".into()).or_default() += ex.tasks.iter().map(|t| t.tw.wakes.load(SeqCst)).sum::<u64>();
    *c.entry("wake:leftover-registration-allowed".into()).or_default() += covered;
    *c.entry("net:sent".into()).or_default() += sent;
    *c.entry("net:dropped".into()).or_default() += dropped;
    *c.entry("net:delivered".into()).or_default() += delivered;
    *c.entry("net:send-blocked".into()).or_default() += blocks;
    *c.entry("timer:fired".into()).or_default() += fires;
    *c.entry("task:spawned".into()).or_default() += ex.tasks.len() as u64;
    *c.entry(format!("close:{}", match plan.close {
        CloseKind::Explicit(_) => "explicit",
        CloseKind::DropHandles(_) => "drop-last-handle",
        CloseKind::EndpointClose(_) => "endpoint-close",
        CloseKind::IdleTimeout => "idle-timeout",
        CloseKind::RecvError(_) => "recv-io-error",
        CloseKind::SendError(_) => "send-io-error",
    })).or_default() += 1;
    *c.entry(if graceful { "close:after-workload".to_string() } else { "close:mid-workload".to_string() }).or_default() += 1;
    if plan.drop_endpoint_early.is_some() {
        *c.entry("drop:endpoint-before-idle".into()).or_default() += 1;
    }
    *c.entry(format!("policy:{:?}", plan.policy)).or_default() += 1;
    if plan.multi {
        *c.entry("multi:cases".into()).or_default() += 1;
        for sd in plan.sides.iter() {
            for d in 0..2 {
                *c.entry("multi:accept-waiters".into()).or_default() += (sd.k_accept[d] > 1) as u64 * sd.k_accept[d] as u64;
                *c.entry("multi:open-waiters".into()).or_default() += (sd.k_open[d] > 1) as u64 * sd.k_open[d] as u64;
            }
            *c.entry("multi:read_datagram-waiters".into()).or_default() += (sd.k_dg_read > 1) as u64 * sd.k_dg_read as u64;
            *c.entry("multi:send_datagram_wait-waiters".into()).or_default() += (sd.k_dg_send > 1) as u64 * sd.k_dg_send as u64;
            *c.entry("multi:closed/confirmed/authenticated/wait_idle-waiters".into()).or_default() += sd.k_watch as u64;
        }
        *c.entry("multi:endpoint.accept-waiters".into()).or_default() += (plan.k_ep_accept > 1) as u64 * plan.k_ep_accept as u64;
    }
    let jobs_done = l.jobs.values().filter(|j| j.w_done && j.r_done).count();
    let bytes: u64 = l.jobs.values().map(|j| j.read).sum();
    if plan.zrtt.is_some() {
        *c.entry("zrtt:cases".into()).or_default() += 1;
    }
    if let Some(f) = x4::family(case) {
        *c.entry(format!("x4:{f}:cases")).or_default() += 1;
    }
    let nontrivial = (l.connected[0] && l.connected[1] && l.cancels > 0 && ex.polls_pending > 0) || c.keys().any(|k| k.ends_with(":script-completed"));
    let sample = format!(
        "case {case}:{} close={:?} mid={:?} policy={:?} loss={}% tasks={} steps={} vtime={}ms jobs={} bytes={} cancels={} dgrams={}/{} closed=[{:?},{:?}] fails={}",
        if plan.multi { " multi-waiter" } else { "" }, plan.close, plan.mid, plan.policy, plan.net.loss_pct, ex.tasks.len(), ex.steps, (world.now() - SEC) / MS, jobs_done, bytes, l.cancels,
        l.dg_recv[0] + l.dg_recv[1], l.dg_sent[0] + l.dg_sent[1], l.closed[0], l.closed[1], l.fails.len()
    );
    // every failure names its case (= the replay: `ASYNCSIM_CASE=<case> asyncsim <seed> <n> <prefix>`)
    let fails: Vec<String> = l.fails.iter().map(|f| if f.contains(" case=") { f.clone() } else { f.replacen(' ', &format!(" case={case} "), 1) }).collect();
    let out = CaseOut { fails, counters: c, sig, polls: ex.polls_pending + ex.polls_ready, nontrivial, sample };
    drop(l);
    if panicked.is_some() {
        // state behind a panic is unknown (poisoned locks): leak it rather than run destructors
        std::mem::forget(ex);
        std::mem::forget(hs);
    }
    out
}

fn main() {
    let a: Vec<String> = env::args().collect();
    if a.len() != 4 {
        eprintln!("usage: asyncsim <seed> <ncases> <outprefix>");
        exit(2);
    }
    let seed: u64 = a[1].parse().unwrap();
    let n: u64 = a[2].parse().unwrap();
    let prefix = &a[3];
    std::panic::set_hook(Box::new(|info| {
        let loc = info.location().map(|l| format!("{}:{}", l.file(), l.line())).unwrap_or_default();
        let msg = info.payload().downcast_ref::<&str>().map(|s| s.to_string()).or_else(|| info.payload().downcast_ref::<String>().cloned()).unwrap_or_default();
        LAST_PANIC.with(|p| *p.borrow_mut() = format!("panic at {loc}: {msg}"));
    }));
    #[cfg(feature = "trace")]
    if env::var("ASYNCSIM_TRACE").is_ok() {
        tracing_subscriber::fmt().with_env_filter(tracing_subscriber::EnvFilter::from_default_env()).with_writer(std::io::stderr).without_time().init();
    }
    let verbose = env::var("ASYNCSIM_VERBOSE").is_ok();
    let mut fails: Vec<String> = Vec::new();
    let mut hist: BTreeMap<String, u64> = BTreeMap::new();
    let mut samples = Vec::new();
    let (mut polls, mut nontrivial) = (0u64, 0u64);
    let only: Option<u64> = env::var("ASYNCSIM_CASE").ok().and_then(|x| x.parse().ok());
    let mut per_key: BTreeMap<String, u32> = BTreeMap::new();
    // ASYNCSIM_ONLY=ab|stale|eol|base: a run of one family only (harness/src/asyncsim/x4.rs)
    let family = env::var("ASYNCSIM_ONLY").ok();
    let ids = x4::cases(n, family.as_deref());
    let first = ids.first().copied();
    for case in ids {
        if only.is_some_and(|c| c != case) {
            continue;
        }
        let o = run_case(seed, case);
        if Some(case) == first {
            // determinism self-check: the same case again must take exactly the same schedule
            let o2 = run_case(seed, case);
            if o2.sig != o.sig {
                fails.push(format!("key=c18-harness-nondeterministic case=0 two runs of the same seed differ ({:x} vs {:x})", o.sig, o2.sig));
            }
        }
        if verbose {
            eprintln!("{}", o.sample);
            for f in &o.fails {
                eprintln!("   FAIL {f}");
            }
        }
        polls += o.polls;
        nontrivial += o.nontrivial as u64;
        for (k, v) in o.counters {
            *hist.entry(k).or_default() += v;
        }
        if samples.len() < 6 {
            samples.push(o.sample);
        }
        for f in o.fails {
            // (at most 3 reports per key: a recorded finding that fires in many cases must not crowd out others)
            let key = f.split_whitespace().next().unwrap_or("").to_string();
            let n = per_key.entry(key).or_insert(0u32);
            *n += 1;
            if fails.len() < 40 && *n <= 3 {
                fails.push(format!("{f} [seed={seed}]"));
            }
        }
    }
    let mut s = String::new();
    s += "component=asyncsim\n";
    s += "rule=each case: a seeded plan (streams with write/read modes, cancellation points, handle drops, datagrams, close action, teardown order, network loss/delay/reorder, scheduler policy) run on the real quinn async API under the virtual-time executor; non-trivial = both sides connected, at least one operation returned Pending and at least one pending future was dropped and re-issued\n";
    s += &format!("cases={n}\nevaluations={polls}\ndistinct_nontrivial={nontrivial}\n");
    for (k, v) in &hist {
        s += &format!("op:{k}={v}\n");
    }
    for x in &samples {
        s += &format!("sample={x}\n");
    }
    for f in &fails {
        s += &format!("oracle_fail={f}\n");
    }
    fs::write(format!("{prefix}.stats"), s).unwrap();
    // no model trace: the Lean side of C18 is tied to the code by shape anchors and by the oracles above
    fs::write(format!("{prefix}.ops"), "case asyncsim\n").unwrap();
    fs::write(format!("{prefix}.impl"), "case asyncsim\n").unwrap();
    if verbose {
        eprintln!("cases={n} polls={polls} nontrivial={nontrivial} fails={}", fails.len());
    }
}
