//! Scenario `pathv` (C15): path migration judged by oracles derived from the property text / RFC 9000 9 + 8.2, computed
//! from the SENDER's plaintext packet log and the source addresses of the datagrams — never from what the receiver did.
use std::cell::RefCell;
use std::collections::{BTreeMap, BTreeSet, HashMap};
use std::net::{IpAddr, Ipv4Addr, Ipv6Addr, SocketAddr};
use std::rc::Rc;
use std::sync::Arc;
use std::time::Duration;

use quinn_proto::verif::Snapshot;
use quinn_proto::{IdleTimeout, MtuDiscoveryConfig};

use crate::scenarios::{random_net, random_transport, Outcome};
use crate::sim::*;
use crate::txobs::{rfc_pto, RxInfo, TxObs};
use crate::workload::*;
use crate::Rng;

pub const PATHV_RULE: &str = "one execution = handshake + transfer in both directions (half of the executions over IPv4, so that a port-only change takes the NAT-rebinding branch); after the handshake is confirmed, at random steps: the client's address changes (port only / other IP, with or without local_address_changed(), up to 3 times, possibly overlapping); an attacker replays recent or old genuine client datagrams from third addresses; single FRESH client datagrams arrive from a third address instead of (or ahead of) the client's (a spoofed migration the attacker cannot validate); the client goes offline for 4..8 s while one captured fresh datagram is delivered from a third address (validation fails, only the timer can bring the server back); the client emits a probing-only packet (PATH_CHALLENGE + PADDING, hook verif_inject_frames) that arrives from a third address or from its next address; the client emits PATH_RESPONSE frames with tokens nobody sent; migration enabled (3/4) or disabled; lossy network. Oracles, all computed in the harness from the sender's plaintext log (frames + packet number of every datagram) and the datagrams' source addresses: `path-migrated-without-trigger` the server's path changes only when it handles a packet from another address that is non-probing and carries a number above every non-probing number handled before (RFC 9000 9.3; the most permissive reading), `path-not-migrated-on-trigger` and it does change when that packet's number is above EVERY number handled before (the strictest reading); `path-validated-without-matching-response` an unvalidated path becomes validated only while handling a packet that carries a PATH_RESPONSE whose token the server sent in a PATH_CHALLENGE to that address; `path-validation-deadline-not-3pto` the validation timer armed by a migration is 3 x max(PTO of the new path, PTO of the old path) after the migration (after the first PATH_CHALLENGE to the new address, if that is sent later), PTO = smoothed_rtt + max(4 rttvar, 1 ms) + max_ack_delay computed by the harness from the RTT samples in the snapshot (RFC 9002 6.2.1); `path-returned-late` every unvalidated path is validated or left no later than that deadline (virtual time, timers serviced exactly when due: no slack); `path-cid-not-changed-on-migration` a client told of its address change, and a server following a peer that changed its destination CID, use a connection ID never used towards/from another address when the peer has supplied an unused one (RFC 9000 9.5); `path-client-changed-its-path`, `path-server-migrated-although-disabled`, `migration-not-followed` (server ends on the client's address, validated), `migration-connection-lost`, workload completion, and the anti-amplification oracle of C07 on every unvalidated path; C12 on every snapshot of both peers (module `inflight`): `in-flight-bytes-unaccounted` for the current and the remembered previous path object, the bytes / ack-eliciting packets it counts in flight equal the sizes / number of its unresolved packets (sent on that path generation, neither acknowledged nor lost nor abandoned) judged by the frames the harness saw them built with (RFC 9002 2: ack-eliciting = any frame but ACK, PADDING, CONNECTION_CLOSE; in flight = ack-eliciting or padded), `in-flight-ack-eliciting-without-loss-timer` and while such an ack-eliciting packet is unresolved on the current path of a confirmed connection the loss-detection timer is armed, unless the path is unvalidated and at its 3x limit (RFC 9002 A.8). Every observed server transition is also replayed through the Lean path machine with the harness-derived trigger bit, token match and PTOs (`pathm`). Non-trivial = at least one address change, replay or rerouted datagram happened after the handshake";

#[derive(Clone, Debug)]
struct Epoch {
    addr: SocketAddr,
    since: u64,
    /// 3 x max(PTO new, PTO old), harness-computed
    delta: u64,
    /// what the implementation armed (offset), if anything
    armed: Option<u64>,
    t_chal: Option<u64>,
    late_reported: bool,
}

#[derive(Default)]
struct Ledger {
    processed: BTreeSet<u64>,
    max_all: Option<u64>,
    max_nonprobing: Option<u64>,
}

struct PathObs {
    tx: TxObs,
    cur: Option<(RxInfo, Snapshot)>,
    led: [Ledger; 2],
    /// per node: PATH_CHALLENGE token -> (destination, time) it was sent to
    chal: [HashMap<u64, Vec<(SocketAddr, u64)>>; 2],
    epoch: Option<Epoch>,
    /// per node (as sender): destination CID -> destination addresses / own source addresses it was used with
    dcid_dst: [HashMap<String, Vec<(SocketAddr, usize)>>; 2],
    dcid_src: [HashMap<String, Vec<(SocketAddr, usize)>>; 2],
    /// per node: connection IDs the peer supplied and this node was handed: (sequence, cid)
    supplied: [Vec<(u64, String)>; 2],
    max_rpt: [u64; 2],
    /// per node: sequence numbers it retired itself
    retired: [BTreeSet<u64>; 2],
    /// per node (as receiver): destination CIDs seen in handled datagrams -> source addresses
    rx_dcid_from: [HashMap<String, BTreeSet<SocketAddr>>; 2],
    /// per node: addresses the harness has seen validated (the handshake's, and those a PATH_RESPONSE came from that echoes a
    /// token sent to them)
    validated_addrs: [BTreeSet<SocketAddr>; 2],
    /// pending check: (node, deadline-free) the next 1-RTT datagram of `node` [towards `dst`] must carry an unused CID
    /// (destination the check waits for, instant, why, number of datagram records that existed at that instant)
    cid_check: [Option<(Option<SocketAddr>, u64, String, usize)>; 2],
    may_migrate: [bool; 2],
    addrs: [SocketAddr; 2],
    /// datagrams (bytes) to deliver from another address: bytes -> new source
    reroute: HashMap<Vec<u8>, SocketAddr>,
    /// arm: the next client datagram whose 1-RTT packet is (probing-only == .1) arrives from .0
    reroute_next: Option<(SocketAddr, bool)>,
    /// since when the node's path has had its current remote address
    path_since: [u64; 2],
    last_remote: [Option<SocketAddr>; 2],
    /// client offline until this instant (its datagrams are dropped)
    offline_until: u64,
    cnt: BTreeMap<&'static str, u64>,
    mad: Duration,
    /// C12 ledger oracle (`in-flight-bytes-unaccounted`): every snapshot, both peers, current and previous path
    inflight: crate::inflight::InFlightObs,
}

impl PathObs {
    fn count(&mut self, k: &'static str) {
        *self.cnt.entry(k).or_default() += 1;
    }
    /// a connection ID the peer supplied that `node` still "has": never used, not asked to be retired by the peer
    /// (retire_prior_to), not retired by `node` itself (RETIRE_CONNECTION_ID in its own packets), and not skipped: an endpoint
    /// that moved on to a later sequence number has given up the earlier ones (it retires them; the frames may still be queued)
    fn fresh_cid(&self, node: usize) -> Option<String> {
        let used = &self.dcid_dst[node];
        let highest_used = self.supplied[node].iter().filter(|(_, c)| used.contains_key(c)).map(|(s, _)| *s).max().unwrap_or(0);
        self.supplied[node]
            .iter()
            .filter(|(s, c)| *s >= self.max_rpt[node] && *s > highest_used && !self.retired[node].contains(s) && !used.contains_key(c))
            .map(|(_, c)| c.clone())
            .next()
    }
}

fn ns(d: Duration) -> u64 {
    d.as_nanos() as u64
}

pub fn pathv(seed: u64, out: &mut Outcome) {
    let mut rng = Rng::new(seed ^ 0x9a7f);
    let (mut tc, lim_c) = random_transport(&mut rng);
    let (mut ts, lim_s) = random_transport(&mut rng);
    let mut mig_initial = [1200u16; 2];
    let mut mig_upper = [1452u16; 2];
    for (i, t) in [&mut tc, &mut ts].into_iter().enumerate() {
        t.max_idle_timeout(Some(IdleTimeout::try_from(Duration::from_secs(30)).unwrap()));
        t.keep_alive_interval(None);
        mig_initial[i] = *rng.pick(&[1200u16, 1200, 1300, 1400]);
        t.initial_mtu(mig_initial[i]);
        if rng.chance(1, 3) {
            t.mtu_discovery_config(None);
            mig_upper[i] = mig_initial[i];
        } else {
            t.mtu_discovery_config(Some(MtuDiscoveryConfig::default()));
            mig_upper[i] = 1452;
        }
    }
    let migration_enabled = !rng.chance(1, 4);
    let clock = SimClock(Arc::new(std::sync::Mutex::new(std::time::UNIX_EPOCH + Duration::from_secs(1_700_000_000))));
    let mut scfg = server_config(seed, ts, &clock);
    scfg.migration(migration_enabled);
    let mups = [*rng.pick(&[1200u16, 1350, 1472, 1472]), *rng.pick(&[1200u16, 1350, 1472, 1472])];
    let mut ecs = endpoint_config(seed ^ 1, 8, None);
    ecs.max_udp_payload_size(mups[SERVER]).unwrap();
    let mut ecc = endpoint_config(seed ^ 2, 8, None);
    ecc.max_udp_payload_size(mups[CLIENT]).unwrap();
    let server = quinn_proto::Endpoint::new(Arc::new(ecs), Some(Arc::new(scfg)), true);
    let client = quinn_proto::Endpoint::new(Arc::new(ecc), None, true);
    let mut sim = Sim::new(seed, client, server, clock);
    sim.mtu_rules = Some([
        MtuRule { initial: mig_initial[CLIENT].min(mups[SERVER]), probe_cap: (mig_upper[CLIENT] as usize).min(mups[SERVER] as usize), peer_max_udp: mups[SERVER] as usize },
        MtuRule { initial: mig_initial[SERVER].min(mups[CLIENT]), probe_cap: (mig_upper[SERVER] as usize).min(mups[CLIENT] as usize), peer_max_udp: mups[CLIENT] as usize },
    ]);
    sim.path_may_migrate = [false, migration_enabled];
    let v4 = rng.chance(1, 2);
    if v4 {
        sim.nodes[CLIENT].addr = SocketAddr::new(IpAddr::V4(Ipv4Addr::new(10, 0, 0, 1)), 44433);
        sim.nodes[SERVER].addr = SocketAddr::new(IpAddr::V4(Ipv4Addr::new(10, 0, 0, 2)), 4433);
    }
    let third = move |k: u16, same_ip_as: Option<SocketAddr>| -> SocketAddr {
        match same_ip_as {
            Some(a) => SocketAddr::new(a.ip(), 6000 + k),
            None if v4 => SocketAddr::new(IpAddr::V4(Ipv4Addr::new(10, 9, 9, 9)), 6000 + k),
            None => SocketAddr::new(IpAddr::V6(Ipv6Addr::new(0, 0, 0, 0, 0, 0, 9, 9)), 6000 + k),
        }
    };
    let ccfg = client_config(seed, tc);
    sim.model_trace = true;
    sim.keep_history = true;
    sim.net = random_net(&mut rng);
    sim.net.path_mtu = sim.net.path_mtu.max(1400);
    sim.net.drop_permille = sim.net.drop_permille.min(100);
    sim.net.replay_permille = 0;
    sim.net.corrupt_permille = 0;
    sim.net.truncate_permille = 0;
    // the injection hook writes a packet that holds nothing but the injected frames: no GSO batch may start with it
    sim.nodes[CLIENT].max_datagrams = 1;
    TxObs::arm(&mut sim);
    let mut w = Workload::new(seed);
    w.sides[CLIENT].plans = Workload::random_plans(&mut rng, 3, 300_000);
    w.sides[SERVER].plans = Workload::random_plans(&mut rng, 2, 100_000);
    let di = |d: quinn_proto::Dir| if d == quinn_proto::Dir::Bi { 0 } else { 1 };
    w.sides[CLIENT].plans.retain(|p| lim_s[di(p.dir)] > 0);
    w.sides[SERVER].plans.retain(|p| lim_c[di(p.dir)] > 0);
    let cch = sim.connect(ccfg);
    w.ch[CLIENT] = Some(cch);

    let obs = Rc::new(RefCell::new(PathObs {
        tx: TxObs::new(8),
        cur: None,
        led: Default::default(),
        chal: Default::default(),
        epoch: None,
        dcid_dst: Default::default(),
        dcid_src: Default::default(),
        supplied: Default::default(),
        max_rpt: [0; 2],
        retired: Default::default(),
        rx_dcid_from: Default::default(),
        cid_check: Default::default(),
        validated_addrs: [BTreeSet::from([sim.nodes[SERVER].addr]), BTreeSet::from([sim.nodes[CLIENT].addr])],
        may_migrate: [false, migration_enabled],
        addrs: [sim.nodes[CLIENT].addr, sim.nodes[SERVER].addr],
        reroute: HashMap::new(),
        reroute_next: None,
        path_since: [0; 2],
        last_remote: [None; 2],
        offline_until: 0,
        cnt: BTreeMap::new(),
        // no ACK_FREQUENCY configuration in this scenario: max_ack_delay is the transport parameter's default
        mad: Duration::from_millis(25),
        inflight: crate::inflight::InFlightObs::new(),
    }));

    // the simulator's amplification oracle is armed by the implementation's `path.validated` flag: a connection that
    // returns to an address it validated earlier (new, unvalidated path object; previous-path challenge to the same
    // address) is not sending to an unvalidated ADDRESS. Same rule here, with the harness' own set of validated addresses.
    sim.check_amp = false;
    // ---- sender side: what goes on the wire
    let o1 = obs.clone();
    sim.tx_tap = Some(Box::new(move |sim: &mut Sim, node: usize, ch: usize, before: &Snapshot, t: &quinn_proto::Transmit, buf: &[u8]| {
        let mut guard = o1.borrow_mut();
        let o = &mut *guard;
        // armed by the harness' own set of validated addresses ONLY (not by the connection's `path.validated`: a path that is
        // born validated without any proof of address ownership is exactly what must be caught)
        if t.destination == before.path.remote && !o.validated_addrs[node].contains(&t.destination) {
            let (sb, rb) = match sim.nodes[node].amp_epoch.get(&ch) {
                Some((a, sb, rb)) if *a == t.destination => (*sb, *rb),
                _ => (0, 0),
            };
            let recvd = sim.nodes[node].recv_from.get(&t.destination).unwrap_or(&0) - rb;
            let mut sent = sim.nodes[node].sent_to.get(&t.destination).unwrap_or(&0) - sb;
            let seg = t.segment_size.unwrap_or(t.size.max(1));
            let mut off = 0;
            o.count("amplification-checks-on-new-path");
            while off < t.size {
                let len = seg.min(t.size - off);
                if sent >= 3 * recvd {
                    sim.fail("amplification-limit-exceeded", format!("node {node} conn {ch}: datagram of {len} bytes to {} (never validated: no handshake with it, no PATH_RESPONSE from it echoing a challenge sent to it) with {sent} already sent and {recvd} received (3x = {})", t.destination, 3 * recvd));
                    break;
                }
                sent += len as u64;
                off += len;
            }
        }
        // C12: what was just built (read without consuming), then the in-flight ledger on the state after this transmit
        o.inflight.on_tx(sim, node, ch);
        o.inflight.check(sim, node, ch);
        let idx = o.tx.on_tx(sim, node, ch, t, buf);
        let src = sim.nodes[node].addr;
        let first = idx.first().copied().unwrap_or(0);
        let seg = t.segment_size.unwrap_or(t.size).max(1);
        for i in idx {
            let rec = o.tx.recs[i].clone();
            for p in &rec.pkts {
                if p.has(0x19) {
                    let mut rest = p.line.as_str();
                    while let Some(k) = rest.find("RetireConnectionId { sequence: ") {
                        rest = &rest[k + 31..];
                        if let Ok(n) = rest.chars().take_while(|c| c.is_ascii_digit()).collect::<String>().parse::<u64>() {
                            o.retired[node].insert(n);
                        }
                    }
                }
                for tok in p.path_challenges() {
                    o.chal[node].entry(tok).or_default().push((rec.dst, sim.now));
                    if node == SERVER {
                        if let Some(e) = o.epoch.as_mut() {
                            if e.addr == rec.dst && e.t_chal.is_none() {
                                e.t_chal = Some(sim.now);
                                if let Some(armed) = e.armed {
                                    if armed > sim.now + e.delta {
                                        sim.fail("path-validation-deadline-not-3pto", format!("server migrated to {} at {}, first PATH_CHALLENGE to it at {}: validation timer armed for {armed}, later than 3 x max(PTO new, PTO old) = {} ns after the challenge", e.addr, e.since, sim.now, e.delta));
                                    }
                                }
                            }
                        }
                    }
                }
            }
            if let Some(p) = rec.one_rtt() {
                // C15 / RFC 9000 9.5: a connection ID is not reused across addresses when an unused one is at hand
                if let Some((dst, since, why, nrec)) = o.cid_check[node].clone() {
                    if dst.map_or(true, |d| d == rec.dst) {
                        o.cid_check[node] = None;
                        // uses BEFORE the move (an off-path PATH_RESPONSE sent in between carries the new CID too)
                        let reused_dst = o.dcid_dst[node].get(&rec.dcid).is_some_and(|s| s.iter().any(|(a, k)| *a != rec.dst && *k < nrec));
                        let reused_src = o.dcid_src[node].get(&rec.dcid).is_some_and(|s| s.iter().any(|(a, k)| *a != src && *k < nrec));
                        o.count("cid-checks");
                        if reused_dst || reused_src {
                            if let Some(f) = o.fresh_cid(node) {
                                sim.fail("path-cid-not-changed-on-migration", format!("node {node} ({why} at {since}) sends packet {} from {src} to {} with destination CID {} already used with another address (towards {:?}, from {:?}) although the peer had supplied the unused CID {f} (supplied (sequence, cid): {:?}, largest retire_prior_to {})", p.pn, rec.dst, rec.dcid, o.dcid_dst[node].get(&rec.dcid).map(|v| v.iter().map(|x| x.0).collect::<BTreeSet<_>>()), o.dcid_src[node].get(&rec.dcid).map(|v| v.iter().map(|x| x.0).collect::<BTreeSet<_>>()), o.supplied[node], o.max_rpt[node]));
                            } else {
                                o.count("cid-checks-no-spare-cid");
                            }
                        }
                    }
                }
                o.dcid_dst[node].entry(rec.dcid.clone()).or_default().push((rec.dst, i));
                o.dcid_src[node].entry(rec.dcid.clone()).or_default().push((src, i));
                if node == CLIENT {
                    if let Some((from, probing)) = o.reroute_next {
                        if p.probing() == probing {
                            o.reroute_next = None;
                            let (a, b) = ((i - first) * seg, ((i - first + 1) * seg).min(t.size));
                            o.reroute.insert(buf[a..b].to_vec(), from);
                            o.count(if probing { "probing-only-packets-rerouted" } else { "fresh-packets-rerouted" });
                        }
                    }
                }
            }
        }
    }));
    let o2 = obs.clone();
    sim.wire_filter = Some(Box::new(move |d: &mut Dgram, _r: &mut Rng| {
        let mut o = o2.borrow_mut();
        if d.origin != CLIENT {
            return true;
        }
        if let Some(from) = o.reroute.remove(&d.data) {
            d.from = from;
            d.origin = usize::MAX;
            return true;
        }
        // (`at` is assigned after the filter: the offline window is judged by the scenario, which sets `offline_until`
        //  relative to the instant it is consulted)
        o.offline_until == 0
    }));

    // ---- receiver side
    let o3 = obs.clone();
    sim.rx_tap = Some(Box::new(move |sim: &mut Sim, node: usize, ch: usize, _len: usize, post: bool| {
        let mut guard = o3.borrow_mut();
        let o = &mut *guard;
        if !post {
            let info = o.tx.next_rx(sim, node, ch);
            o.cur = info.map(|i| (i, sim.snap(node, ch)));
            return;
        }
        o.inflight.check(sim, node, ch);
        let Some((info, b)) = o.cur.take() else { return };
        let a = sim.snap(node, ch);
        let now = sim.now;
        let peer_rec = info.rec.map(|i| o.tx.recs[i].clone()).filter(|r| r.node != node);
        let accepted = info.from == b.path.remote || o.may_migrate[node];
        let pkt = peer_rec.as_ref().and_then(|r| r.one_rtt().cloned());
        let (mut trig_strict, mut trig_lenient, mut fresh) = (false, false, false);
        // a short-header packet handed to a connection that is still handshaking is DROPPED ("dropping short packet during
        // handshake"): it was not handled, its number stays fresh (raw seed 2000577: the client's first 1-RTT flight, numbers up
        // to 129, overtook its Finished; a later replay of number 110 from a third address is then, correctly, the highest
        // non-probing packet the server ever processed). Counted as handled: packets handed to an established connection, and the
        // packets of the datagram that completed the handshake when every one of them was authenticated
        // ... (the authentication COUNTER of the connection is the neutral witness: the datagram counts as handled when as many
        // packets were authenticated as it holds packets of spaces whose keys existed; raw seeds 3000278 / 2000577: a 1-RTT
        // packet coalesced behind Initial/Handshake packets was not authenticated although the connection was or became established)
        let with_keys = peer_rec.as_ref().map_or(0, |r| r.pkts.iter().filter(|p| b.spaces[(p.space as usize).min(2)].has_keys).count() as u64);
        let handled = with_keys > 0 && a.total_authed_packets - b.total_authed_packets == with_keys && a.state != "handshake";
        if let (true, true, Some(p)) = (accepted, handled, pkt.as_ref()) {
            let l = &mut o.led[node];
            if l.processed.insert(p.pn) {
                fresh = true;
                let np = !p.probing();
                let other = info.from != b.path.remote;
                trig_strict = other && np && l.max_all.map_or(true, |m| p.pn > m);
                trig_lenient = other && np && l.max_nonprobing.map_or(true, |m| p.pn > m);
                l.max_all = Some(l.max_all.map_or(p.pn, |m| m.max(p.pn)));
                if np {
                    l.max_nonprobing = Some(l.max_nonprobing.map_or(p.pn, |m| m.max(p.pn)));
                }
            }
            if let Some(r) = peer_rec.as_ref() {
                o.rx_dcid_from[node].entry(r.dcid.clone()).or_default().insert(info.from);
                // NEW_CONNECTION_ID frames count as received when their 1-RTT packet was surely processed: fresh, handed to an
                // established connection, or every packet of the datagram that completed the handshake was authenticated (a
                // short-header packet that overtakes the end of the handshake is dropped; raw seed 3000278: the 1-RTT packet
                // coalesced behind the client's Finished was not processed by the server either)
                if std::env::var("VERIF_PATHV_DBG").is_ok() && r.pkts.iter().any(|q| q.has(0x18)) {
                    eprintln!("NCID t={now} node {node} from {} fresh {fresh} b.state {} a.state {} authed {} -> {} pkts {:?}", info.from, b.state, a.state, b.total_authed_packets, a.total_authed_packets, r.pkts.iter().map(|q| (q.space, q.pn, q.long, q.types.clone())).collect::<Vec<_>>());
                }
                let all_processed = handled;
                for q in r.pkts.iter().filter(|_| fresh && a.state == "established" && all_processed) {
                    for (s, rpt, id) in q.new_cids() {
                        if !o.supplied[node].iter().any(|(s2, _)| *s2 == s) {
                            o.supplied[node].push((s, id));
                        }
                        o.max_rpt[node] = o.max_rpt[node].max(rpt);
                    }
                }
            }
        }
        if b.state != "established" || a.state != "established" {
            return;
        }
        let migrated = a.path.remote != b.path.remote;
        let what = || format!("{:?} (datagram of {} bytes from {}, sender's record: {:?})", pkt.as_ref().map(|p| (p.pn, p.line.chars().take(160).collect::<String>())), info.len, info.from, peer_rec.as_ref().map(|r| (r.node, r.at, r.dst)));
        if migrated && !trig_lenient {
            o.count("oracle-fired-migrated-without-trigger");
            let l = &o.led[node];
            sim.fail("path-migrated-without-trigger", format!("node {node}: path {} -> {} while handling {}: not a fresh non-probing packet above every non-probing number handled before (highest handled {:?}, highest non-probing {:?})", b.path.remote, a.path.remote, what(), l.max_all, l.max_nonprobing));
        }
        if !migrated && trig_strict && o.may_migrate[node] {
            sim.fail("path-not-migrated-on-trigger", format!("node {node}: path stays {} after handling {}: a non-probing packet from another address with the highest number handled so far", b.path.remote, what()));
        }
        if migrated {
            o.count("migrations-observed");
        }
        let responses: Vec<u64> = peer_rec.as_ref().map(|r| r.pkts.iter().flat_map(|p| p.path_responses()).collect()).unwrap_or_default();
        let sent_to = |o: &PathObs, tok: u64, addr: SocketAddr, since: u64| o.chal[node].get(&tok).is_some_and(|v| v.iter().any(|(d, t)| *d == addr && *t >= since));
        for tkn in &responses {
            if sent_to(o, *tkn, info.from, 0) && fresh {
                o.validated_addrs[node].insert(info.from);
            }
        }
        if !migrated && !b.path.validated && a.path.validated {
            o.count("validations-observed");
            if !responses.iter().any(|t| sent_to(o, *t, a.path.remote, 0)) {
                sim.fail("path-validated-without-matching-response", format!("node {node}: path {} became validated while handling {}: PATH_RESPONSE tokens in it {responses:?}, none of them was sent in a PATH_CHALLENGE to that address", a.path.remote, what()));
            }
        }
        // ... and, whatever the transition (a path born validated by a migration, a flag set outside packet handling): a path
        // the connection treats as validated leads to an address the HARNESS has seen validated
        if a.path.validated && !o.validated_addrs[node].contains(&a.path.remote) {
            sim.fail("path-validated-without-matching-response", format!("node {node}: path {} counts as validated after handling {} (migrated by it: {migrated}), but that address never completed a handshake with this endpoint and no PATH_RESPONSE from it echoed a PATH_CHALLENGE sent to it (addresses seen validated: {:?})", a.path.remote, what(), o.validated_addrs[node]));
        }
        if node == SERVER {
            let since = o.path_since[node];
            if migrated {
                o.path_since[node] = now;
                o.last_remote[node] = Some(a.path.remote);
                // PTO of the path being left, as it is AFTER this packet was processed (an ACK in it may have produced an
                // RTT sample before the migration at the end of packet processing): visible when that path is the one
                // remembered as previous path; unchanged when the packet carries no ACK; otherwise not observable
                let has_ack = peer_rec.as_ref().map_or(true, |r| r.pkts.iter().any(|p| p.has(2) || p.has(3)));
                let old = match a.prev_path.as_ref() {
                    // (a path left while its own validation was pending is not remembered: the remembered one is older)
                    Some(pp) if pp.remote == b.path.remote && !b.path.challenge => Some(ns(rfc_pto(pp, o.mad))),
                    _ if !has_ack => Some(ns(rfc_pto(&b.path, o.mad))),
                    _ => None,
                };
                let pn = ns(rfc_pto(&a.path, o.mad));
                let armed = a.timers[4].map(|t| sim.off(t));
                let (po, delta) = match old {
                    Some(po) => (po, 3 * pn.max(po)),
                    None => {
                        // only the lower bound 3 x PTO(new path) can be demanded; the epoch is then judged against what was armed
                        o.count("deadline-old-pto-not-observable");
                        (0, (3 * pn).max(armed.map_or(0, |t| t.saturating_sub(now))))
                    }
                };
                o.count("deadline-checks");
                if std::env::var("VERIF_PATHV_DBG").is_ok() {
                    eprintln!("MIG t={now} b.path {:?} b.pto {:?} a.path {:?} a.prev {:?} a.pto {:?} armed {armed:?} old {old:?}", b.path, b.pto, a.path, a.prev_path, a.pto);
                }
                if armed.map_or(true, |t| t < now + delta) {
                    sim.fail("path-validation-deadline-not-3pto", format!("server migrated {} -> {} at {now}: validation timer {armed:?}, expected {} = now + 3 x max(PTO new {pn}, PTO old {po}) (PTO = srtt + max(4 rttvar, 1 ms) + 25 ms from srtt/rttvar new {:?}/{:?} old (before the packet) {:?}/{:?})", b.path.remote, a.path.remote, now + delta, a.path.rtt_smoothed, a.path.rtt_var, b.path.rtt_smoothed, b.path.rtt_var));
                }
                o.epoch = Some(Epoch { addr: a.path.remote, since: now, delta, armed, t_chal: None, late_reported: false });
                // RFC 9000 9.5: the peer moved deliberately (it changed its destination CID): answer with an unused CID
                if let Some(r) = peer_rec.as_ref() {
                    let new_dcid = o.rx_dcid_from[node].get(&r.dcid).is_some_and(|s| s.len() == 1);
                    if new_dcid {
                        o.cid_check[node] = Some((Some(a.path.remote), now, "followed a peer that changed its destination CID".into(), o.tx.recs.len()));
                    }
                }
                if sim.model_ops.len() < 400_000 && trig_strict == trig_lenient && responses.is_empty() {
                    sim.model_ops.push(format!("pathm pkt {} {} {now} {pn} {po} {}", addr_num_pub(&info.from), trig_strict as u8, path_state(sim.base, &b, o.may_migrate[node])));
                    sim.model_impl.push(path_state(sim.base, &a, o.may_migrate[node]));
                }
            } else if sim.model_ops.len() < 400_000 && trig_strict == trig_lenient && fresh && (info.from != b.path.remote || !responses.is_empty()) {
                let mm = o.may_migrate[node];
                if responses.is_empty() {
                    sim.model_ops.push(format!("pathm pkt {} {} {now} 0 0 {}", addr_num_pub(&info.from), trig_strict as u8, path_state(sim.base, &b, mm)));
                    sim.model_impl.push(path_state(sim.base, &a, mm));
                } else if responses.len() == 1 && !trig_strict {
                    // token match decided by the harness: the token is the one the server sent in PATH_CHALLENGEs to the source
                    // address since its path last changed (when it sent two different ones there - current and previous
                    // path at one address - the harness cannot tell which belongs to which path: not replayed)
                    let mut toks: Vec<u64> = o.chal[node].iter().filter(|(_, v)| v.iter().any(|(d, t)| *d == info.from && *t >= since)).map(|(k, _)| *k).collect();
                    toks.sort();
                    if toks.len() > 1 && toks.contains(&responses[0]) {
                        o.count("responses-ambiguous");
                        return;
                    }
                    let m = info.from == b.path.remote && toks.contains(&responses[0]);
                    sim.model_ops.push(format!("pathm response {} {} {}", addr_num_pub(&info.from), if m { "match" } else { "nomatch" }, path_state(sim.base, &b, mm)));
                    sim.model_impl.push(path_state(sim.base, &a, mm));
                    o.count(if m { "responses-matching" } else { "responses-not-matching" });
                }
            }
        }
    }));

    let n_moves = if migration_enabled { rng.below(4) } else { rng.below(2) };
    let mut move_steps: Vec<u64> = (0..n_moves).map(|_| rng.range(30, 400)).collect();
    move_steps.sort();
    let n_replays = rng.below(6);
    let mut replay_steps: Vec<u64> = (0..n_replays).map(|_| rng.range(20, 500)).collect();
    replay_steps.sort();
    // rerouted fresh datagrams (spoofed migration), probing-only packets, wrong-token responses, offline window
    let mut reroute_steps: Vec<u64> = (0..rng.below(4)).map(|_| rng.range(30, 450)).collect();
    reroute_steps.sort();
    let mut probe_steps: Vec<u64> = (0..rng.below(3)).map(|_| rng.range(30, 450)).collect();
    probe_steps.sort();
    let mut badresp_steps: Vec<u64> = (0..rng.below(3)).map(|_| rng.range(30, 450)).collect();
    badresp_steps.sort();
    let mut offline_step: Option<u64> = if migration_enabled && rng.chance(1, 2) { Some(rng.range(40, 300)) } else { None };
    let mut offline_end: Option<u64> = None;
    let (mut moved, mut replays, mut acted_after_hs) = (0u64, 0u64, false);
    let mut timer_reverts = 0u64;
    let genuine_client_addrs = RefCell::new(vec![sim.nodes[CLIENT].addr]);
    let mut settle_from: Option<u64> = None;
    let mut last_ping = 0u64;
    let end = sim.run_until(600_000_000_000, 400_000, |sim| {
        if w.ch[SERVER].is_none() {
            if let Some(&ch) = sim.nodes[SERVER].accepted.first() {
                w.ch[SERVER] = Some(ch);
            }
        }
        w.tick(sim);
        let hs_done = sim.nodes[CLIENT].conns[&cch].obs.confirmed;
        let due = |v: &mut Vec<u64>, steps: u64| -> bool {
            if v.first().is_some_and(|s| steps >= *s) {
                v.remove(0);
                true
            } else {
                false
            }
        };
        let open = sim.snap(CLIENT, cch).state == "established";
        if hs_done && open && due(&mut move_steps, sim.steps) {
            moved += 1;
            acted_after_hs = true;
            let old = sim.nodes[CLIENT].addr;
            let new = if sim.rng.chance(1, 2) {
                SocketAddr::new(old.ip(), old.port() + 1 + moved as u16)
            } else if v4 {
                SocketAddr::new(IpAddr::V4(Ipv4Addr::new(10, 0, 1, 2 + moved as u8)), old.port())
            } else {
                SocketAddr::new(IpAddr::V6(Ipv6Addr::new(0, 0, 0, 0, 0, 0, 0, 2 + moved as u16)), old.port())
            };
            sim.nodes[CLIENT].addr = new;
            obs.borrow_mut().addrs[CLIENT] = new;
            genuine_client_addrs.borrow_mut().push(new);
            if sim.rng.chance(1, 2) {
                sim.conn(CLIENT, cch).local_address_changed();
                let now = sim.now;
                let mut o = obs.borrow_mut();
                let n = o.tx.recs.len();
                o.cid_check[CLIENT] = Some((None, now, "told of its address change".into(), n));
            } else {
                sim.conn(CLIENT, cch).ping();
            }
        }
        if hs_done && due(&mut replay_steps, sim.steps) && !sim.history.is_empty() {
            replays += 1;
            acted_after_hs = true;
            // one of the most recent genuine datagrams, or (1/3) an old one, from a third address
            let n = sim.history.len();
            let i = if sim.rng.chance(1, 3) { sim.rng.below(n as u64) as usize } else { n - 1 - sim.rng.below(n.min(8) as u64) as usize };
            let mut d = sim.history[i].clone();
            let same_ip = sim.rng.chance(1, 2).then_some(sim.nodes[CLIENT].addr);
            d.from = third(replays as u16, same_ip);
            d.at = sim.now + sim.rng.below(2_000_000);
            d.origin = usize::MAX;
            sim.push_wire(d);
        }
        if hs_done && open && due(&mut reroute_steps, sim.steps) {
            acted_after_hs = true;
            let same_ip = sim.rng.chance(1, 2).then_some(sim.nodes[CLIENT].addr);
            let from = third(100 + sim.rng.below(50) as u16, same_ip);
            obs.borrow_mut().reroute_next = Some((from, false));
            sim.conn(CLIENT, cch).ping();
        }
        // (the hook concatenates pending injections: one at a time)
        let inj_free = sim.conn(CLIENT, cch).verif_injection_pending() == [0, 0, 0];
        if hs_done && open && inj_free && due(&mut probe_steps, sim.steps) {
            acted_after_hs = true;
            // PATH_CHALLENGE whose eighth token byte is the PING the hook appends: the packet is [PATH_CHALLENGE, PADDING]
            let mut f = vec![0x1a];
            f.extend(sim.rng.bytes(7));
            if sim.conn(CLIENT, cch).verif_inject_frames(2, f) {
                let same_ip = sim.rng.chance(1, 2).then_some(sim.nodes[CLIENT].addr);
                let from = third(200 + sim.rng.below(50) as u16, same_ip);
                obs.borrow_mut().reroute_next = Some((from, true));
            }
        }
        let inj_free = sim.conn(CLIENT, cch).verif_injection_pending() == [0, 0, 0];
        if hs_done && open && inj_free && due(&mut badresp_steps, sim.steps) {
            let mut f = vec![0x1b];
            f.extend(sim.rng.bytes(8));
            if sim.conn(CLIENT, cch).verif_inject_frames(2, f) {
                obs.borrow_mut().count("wrong-token-responses-injected");
            }
        }
        if hs_done && open && offline_step.is_some_and(|s| sim.steps >= s) {
            // the client goes offline; one fresh datagram of it is delivered from a third address
            offline_step = None;
            acted_after_hs = true;
            let from = third(300, None);
            let mut o = obs.borrow_mut();
            o.reroute_next = Some((from, false));
            o.count("offline-windows");
            drop(o);
            sim.conn(CLIENT, cch).ping();
            offline_end = Some(sim.now + sim.rng.range(4_000, 8_000) * 1_000_000);
        }
        if let Some(t) = offline_end {
            // the window starts once the rerouted datagram has left
            let mut o = obs.borrow_mut();
            if o.reroute_next.is_none() && o.reroute.is_empty() && o.offline_until == 0 && sim.now < t {
                o.offline_until = t;
                let a = sim.nodes[CLIENT].addr;
                drop(o);
                sim.wire.retain(|d| d.from != a || d.origin != CLIENT);
            } else if sim.now >= t {
                o.offline_until = 0;
                offline_end = None;
            }
        }
        // ---- oracles evaluated continuously
        if let Some(sch) = w.ch[SERVER] {
            // C12 in-flight ledger after whatever happened in this step (timers included)
            {
                let mut o = obs.borrow_mut();
                o.inflight.check(sim, CLIENT, cch);
                o.inflight.check(sim, SERVER, sch);
            }
            let ss = sim.snap(SERVER, sch);
            let cs = sim.snap(CLIENT, cch);
            if cs.path.remote != sim.nodes[SERVER].addr {
                sim.fail("path-client-changed-its-path", format!("client path is {} but the server is at {}", cs.path.remote, sim.nodes[SERVER].addr));
            }
            if !migration_enabled && ss.path.remote != genuine_client_addrs.borrow()[0] {
                sim.fail("path-server-migrated-although-disabled", format!("server path is {}", ss.path.remote));
            }
            let mut o = obs.borrow_mut();
            if o.last_remote[SERVER] != Some(ss.path.remote) {
                // changed outside packet handling (validation timer)
                o.last_remote[SERVER] = Some(ss.path.remote);
                o.path_since[SERVER] = sim.now;
            }
            if let Some(e) = o.epoch.clone() {
                let ended = ss.path.remote != e.addr || ss.path.validated || ss.state != "established";
                let deadline = e.t_chal.unwrap_or(e.since) + e.delta;
                if ended {
                    if ss.state == "established" && ss.path.remote != e.addr && sim.now >= deadline && ss.path.validated {
                        timer_reverts += 1;
                    }
                    o.epoch = None;
                } else if sim.now > deadline + sim.drv.late_ns && !e.late_reported {
                    o.epoch.as_mut().unwrap().late_reported = true;
                    drop(o);
                    sim.fail("path-returned-late", format!("server path is still the unvalidated {} at {}: it migrated there at {}, first PATH_CHALLENGE at {:?}, 3 x max(PTO new, PTO old) = {} ns, deadline {deadline} (client is at {})", e.addr, sim.now, e.since, e.t_chal, e.delta, sim.nodes[CLIENT].addr));
                }
            }
        }
        if w.complete() && w.ch[SERVER].is_some() {
            // the transfer is over: keep going for a while so that pending actions (offline window, reroutes) play out
            let t0 = *settle_from.get_or_insert(sim.now);
            let pending = !move_steps.is_empty() || offline_step.is_some() || offline_end.is_some() || !reroute_steps.is_empty() || !probe_steps.is_empty();
            if !pending || sim.now > t0 + 20_000_000_000 {
                return true;
            }
            // steps no longer advance quickly on an idle connection: fire what is left now
            for v in [&mut move_steps, &mut reroute_steps, &mut probe_steps, &mut badresp_steps, &mut replay_steps] {
                if let Some(s) = v.first_mut() {
                    *s = 0;
                }
            }
            if let Some(s) = offline_step.as_mut() {
                *s = 0;
            }
            if sim.now >= last_ping + 200_000_000 && sim.snap(CLIENT, cch).state == "established" {
                // an idle connection: a ping stands for "the client keeps sending"
                last_ping = sim.now;
                sim.conn(CLIENT, cch).ping();
            }
        }
        false
    });
    obs.borrow_mut().offline_until = 0;
    if end == RunEnd::Done {
        // "provided the client keeps sending from there": it pings twice a second until the server sits on its address,
        // validated (at most 20 s: loss is fair, the exchange needs a challenge and a response to get through)
        let t_end = sim.now + 20_000_000_000;
        sim.time_cap = Some(t_end);
        let mut last = 0u64;
        let _ = sim.run_until(t_end, 200_000, |sim| {
            w.tick(sim);
            if sim.snap(CLIENT, cch).state != "established" {
                return true;
            }
            if let Some(sch) = w.ch[SERVER] {
                let ss = sim.snap(SERVER, sch);
                if ss.state != "established" || (ss.path.remote == sim.nodes[CLIENT].addr && ss.path.validated && sim.now >= last_ping + 1_000_000_000) {
                    return true;
                }
            }
            if sim.now >= last + 500_000_000 {
                last = sim.now;
                sim.conn(CLIENT, cch).ping();
            }
            false
        });
        sim.time_cap = None;
    }
    let connected = sim.nodes[CLIENT].conns[&cch].obs.connected;
    let expect_complete = connected && (migration_enabled || moved == 0);
    if expect_complete {
        let lost_c = sim.nodes[CLIENT].conns[&cch].obs.lost.clone();
        if !lost_c.is_empty() {
            sim.fail("migration-connection-lost", format!("client lost the connection: {lost_c:?} (moves {moved}, replays {replays})"));
        } else {
            w.final_check(&mut sim, true);
            if let Some(sch) = w.ch[SERVER] {
                let ss = sim.snap(SERVER, sch);
                if moved > 0 && ss.state == "established" && (ss.path.remote != sim.nodes[CLIENT].addr || !ss.path.validated) {
                    sim.fail("migration-not-followed", format!("server path {} (validated {}) at the end; the client is at {} and kept sending", ss.path.remote, ss.path.validated, sim.nodes[CLIENT].addr));
                }
            }
        }
    } else {
        w.final_check(&mut sim, false);
    }
    sim.rx_tap = None;
    sim.tx_tap = None;
    sim.wire_filter = None;
    let o = Rc::try_unwrap(obs).ok().expect("taps dropped").into_inner();
    out.runs += 1;
    out.evaluations += sim.steps;
    if acted_after_hs {
        out.nontrivial += 1;
    }
    out.count(&format!("end:{end:?}"), 1);
    out.count("address-changes", moved);
    out.count("replays-from-third-addresses", replays);
    out.count("timer-reverts", timer_reverts);
    out.count(if migration_enabled { "migration-enabled" } else { "migration-disabled" }, 1);
    out.count(if v4 { "ipv4" } else { "ipv6" }, 1);
    out.count("packets-misaligned-in-log", o.tx.misaligned);
    for (k, v) in &o.cnt {
        out.count(k, *v);
    }
    for (k, v) in o.inflight.counters() {
        out.count(k, v);
    }
    if out.samples.len() < 3 {
        out.samples.push(format!("seed {seed}: migration_enabled {migration_enabled}, ipv4 {v4}, moves {moved}, replays {replays}, counters {:?}, client addresses {:?}, end {end:?} at {} ms", o.cnt, genuine_client_addrs.borrow(), sim.now / 1_000_000));
    }
    if std::env::var("VERIF_SIM_VERBOSE").is_ok() {
        let all = std::env::var("VERIF_SIM_VERBOSE").map_or(false, |v| v == "2");
        for r in sim.trace.iter().filter(|r| all || !matches!(r, Rec::Tx { .. })) {
            eprintln!("{r:?}");
        }
        if all {
            for r in &o.tx.recs {
                eprintln!("tx n{} t={} -> {} dcid {} {:?}", r.node, r.at, r.dst, r.dcid, r.pkts.iter().map(|p| format!("{}:{} {}", p.space, p.pn, p.line.chars().take(std::env::var("VERIF_PATHV_LINE").ok().and_then(|v| v.parse().ok()).unwrap_or(100)).collect::<String>())).collect::<Vec<_>>());
            }
        }
        for node in 0..2 {
            for (ch, nc) in &sim.nodes[node].conns {
                eprintln!("node {node} conn {ch}: snapshot {:?}", nc.conn.verif_snapshot());
            }
        }
    }
    for f in sim.fails.drain(..) {
        out.fails.push(format!("{f} seed={seed}"));
    }
    out.take_trace(seed, &mut sim);
}

/// address encoding of the `pathm` trace (same as `sim::path_state`)
pub fn addr_num_pub(a: &SocketAddr) -> u64 {
    let ip = match a.ip() {
        IpAddr::V6(v) => v.segments()[7] as u64 + ((v.segments()[6] as u64) << 16),
        IpAddr::V4(v) => u32::from(v) as u64,
    };
    ip * 100_000 + a.port() as u64
}
