//! Event-driven application workload for the simulator with the end-to-end content oracle of C01
//! (ordered reads yield a gap-free prefix of what was written; unordered reads yield disjoint chunks
//! equal to the written data; end-of-stream only after everything written before finish()).
use std::collections::BTreeMap;

use quinn_proto::{Dir, Event, ReadError, Side, StreamEvent, StreamId, VarInt, WriteError};

use crate::sim::{content_byte_s, content_s, Sim};
use crate::Rng;

pub fn sid(id: StreamId) -> u64 {
    VarInt::from(id).into_inner()
}

#[derive(Debug, Clone)]
pub struct Plan {
    pub dir: Dir,
    pub len: u64,
    pub chunk: usize,
    pub finish: bool,
    /// reset after writing this many bytes instead of finishing
    pub reset_at: Option<u64>,
}

#[derive(Debug, Default, Clone)]
pub struct SendSt {
    pub plan_idx: usize,
    pub written: u64,
    pub finished: bool,
    pub fin_acked: bool,
    pub reset: bool,
    pub stopped: Option<u64>,
}

#[derive(Debug, Default, Clone)]
pub struct RecvSt {
    pub unordered: bool,
    pub ordered_off: u64,
    pub ranges: Vec<(u64, u64)>,
    pub bytes: u64,
    pub fin: bool,
    pub reset: Option<u64>,
    pub max_len: usize,
}

/// One side of the application.
#[derive(Default)]
pub struct AppSide {
    pub plans: Vec<Plan>,
    pub next_plan: usize,
    pub send: BTreeMap<u64, SendSt>,
    pub recv: BTreeMap<u64, RecvSt>,
    pub started: bool,
    pub dgrams_to_send: Vec<Vec<u8>>,
    pub dgrams_sent: Vec<Vec<u8>>,
    pub dgrams_recvd: Vec<Vec<u8>>,
    pub unordered_permille: u64,
    pub early: bool,
    pub restarts: u32,
}

pub struct Workload {
    pub sides: [AppSide; 2],
    pub ch: [Option<usize>; 2],
    pub rng: Rng,
    pub events_seen: u64,
    /// per-connection content salt (0 = the unsalted pattern) and the salts of the other connections of the run:
    /// a byte that is another connection's content is reported as `isolation-data` (C09)
    pub salt: u64,
    pub other_salts: Vec<u64>,
    /// simulator node of each side (default: side 0 lives on node 0, side 1 on node 1)
    pub nodes: [usize; 2],
}

impl Workload {
    pub fn new(seed: u64) -> Self {
        Self { sides: [AppSide::default(), AppSide::default()], ch: [None, None], rng: Rng::new(seed ^ 0x3017), events_seen: 0, salt: 0, other_salts: Vec::new(), nodes: [0, 1] }
    }

    pub fn random_plans(rng: &mut Rng, n: usize, max_len: u64) -> Vec<Plan> {
        (0..n)
            .map(|_| {
                let len = match rng.below(4) {
                    0 => rng.below(50),
                    1 => rng.below(3000),
                    _ => rng.below(max_len.max(1)),
                };
                Plan {
                    dir: if rng.chance(1, 2) { Dir::Bi } else { Dir::Uni },
                    len,
                    chunk: *rng.pick(&[1usize, 7, 100, 1200, 5000, 70000]),
                    finish: true,
                    reset_at: None,
                }
            })
            .collect()
    }

    /// 0-RTT: start the client's workload before the handshake completes (early data).
    pub fn start_early(&mut self, sim: &mut Sim, node: usize, ch: usize) {
        self.sides[node].started = true;
        self.sides[node].early = true;
        self.open_more(sim, node, ch);
    }

    /// 0-RTT was rejected: everything done so far on this side is void; start again on fresh streams.
    pub fn restart_side(&mut self, node: usize) {
        let s = &mut self.sides[node];
        s.next_plan = 0;
        s.send.clear();
        s.recv.clear();
        s.restarts += 1;
        let all: Vec<Vec<u8>> = s.dgrams_sent.drain(..).collect();
        s.dgrams_to_send.extend(all);
    }

    /// Process pending application events of both sides and act on them. Purely event-driven apart from the
    /// initial kick when `Connected` is seen.
    pub fn tick(&mut self, sim: &mut Sim) {
        for node in 0..2 {
            let Some(ch) = self.ch[node] else { continue };
            let sn = self.nodes[node];
            if !sim.nodes[sn].conns.contains_key(&ch) {
                continue;
            }
            loop {
                let ev = sim.nodes[sn].conns.get_mut(&ch).unwrap().app_events.pop_front();
                let Some(ev) = ev else { break };
                self.events_seen += 1;
                match ev {
                    Event::Connected => {
                        if self.sides[node].early && !sim.conn(sn, ch).accepted_0rtt() {
                            // the server rejected early data: the streams used so far no longer exist
                            self.restart_side(node);
                        }
                        self.sides[node].started = true;
                        self.open_more(sim, node, ch);
                        self.send_dgrams(sim, node, ch);
                    }
                    Event::Stream(StreamEvent::Available { .. }) => self.open_more(sim, node, ch),
                    Event::Stream(StreamEvent::Writable { id }) => self.write_more(sim, node, ch, id),
                    Event::Stream(StreamEvent::Finished { id }) => {
                        if let Some(s) = self.sides[node].send.get_mut(&sid(id)) {
                            if s.fin_acked {
                                sim.fail("finished-event-twice", format!("node {node} stream {} reported Finished twice", sid(id)));
                            }
                            if !s.finished {
                                sim.fail("finished-without-finish", format!("node {node} stream {} reported Finished but finish() was never called", sid(id)));
                            }
                            s.fin_acked = true;
                        }
                    }
                    Event::Stream(StreamEvent::Stopped { id, error_code }) => {
                        if let Some(s) = self.sides[node].send.get_mut(&sid(id)) {
                            s.stopped = Some(error_code.into_inner());
                        }
                    }
                    Event::Stream(StreamEvent::Opened { dir }) => {
                        loop {
                            let id = sim.conn(sn, ch).streams().accept(dir);
                            let Some(id) = id else { break };
                            let unordered = self.rng.below(1000) < self.sides[node].unordered_permille;
                            let max_len = *self.rng.pick(&[1usize, 13, 500, 4096, 100_000]);
                            self.sides[node].recv.insert(sid(id), RecvSt { unordered, max_len, ..Default::default() });
                            if dir == Dir::Bi {
                                // we do not use the reverse direction: finish it at once
                                let _ = sim.conn(sn, ch).send_stream(id).finish();
                            }
                            self.read_more(sim, node, ch, id);
                        }
                    }
                    Event::Stream(StreamEvent::Readable { id }) => self.read_more(sim, node, ch, id),
                    Event::DatagramReceived => {
                        while let Some(d) = sim.conn(sn, ch).datagrams().recv() {
                            self.sides[node].dgrams_recvd.push(d.to_vec());
                        }
                    }
                    Event::DatagramsUnblocked => self.send_dgrams(sim, node, ch),
                    _ => {}
                }
            }
        }
    }

    fn send_dgrams(&mut self, sim: &mut Sim, node: usize, ch: usize) {
        while let Some(d) = self.sides[node].dgrams_to_send.pop() {
            let r = sim.conn(self.nodes[node], ch).datagrams().send(d.clone().into(), false);
            match r {
                Ok(()) => self.sides[node].dgrams_sent.push(d),
                Err(quinn_proto::SendDatagramError::Blocked(_)) => {
                    self.sides[node].dgrams_to_send.push(d);
                    break;
                }
                Err(_) => {}
            }
        }
    }

    fn open_more(&mut self, sim: &mut Sim, node: usize, ch: usize) {
        while self.sides[node].next_plan < self.sides[node].plans.len() {
            let idx = self.sides[node].next_plan;
            let dir = self.sides[node].plans[idx].dir;
            let id = sim.conn(self.nodes[node], ch).streams().open(dir);
            let Some(id) = id else { break };
            self.sides[node].next_plan += 1;
            self.sides[node].send.insert(sid(id), SendSt { plan_idx: idx, ..Default::default() });
            self.write_more(sim, node, ch, id);
        }
    }

    fn write_more(&mut self, sim: &mut Sim, node: usize, ch: usize, id: StreamId) {
        let k = sid(id);
        let Some(st) = self.sides[node].send.get(&k).cloned() else { return };
        let plan = self.sides[node].plans[st.plan_idx].clone();
        let mut st = st;
        if st.finished || st.reset || st.stopped.is_some() {
            return;
        }
        let limit = plan.reset_at.unwrap_or(plan.len).min(plan.len);
        while st.written < limit {
            let n = ((limit - st.written) as usize).min(plan.chunk);
            let data = content_s(self.salt, k, st.written, n);
            match sim.conn(self.nodes[node], ch).send_stream(id).write(&data) {
                Ok(w) => {
                    if w == 0 || w > n {
                        sim.fail("write-returned-bad-count", format!("write of {n} returned {w}"));
                        break;
                    }
                    st.written += w as u64;
                }
                Err(WriteError::Blocked) => break,
                Err(WriteError::Stopped(c)) => {
                    st.stopped = Some(c.into_inner());
                    break;
                }
                Err(WriteError::ClosedStream) => {
                    break;
                }
            }
        }
        if st.written == limit && st.stopped.is_none() {
            if plan.reset_at.is_some() {
                let _ = sim.conn(self.nodes[node], ch).send_stream(id).reset(VarInt::from_u32(77));
                st.reset = true;
            } else if plan.finish {
                if sim.conn(self.nodes[node], ch).send_stream(id).finish().is_ok() {
                    st.finished = true;
                }
            }
        }
        self.sides[node].send.insert(k, st);
    }

    fn read_more(&mut self, sim: &mut Sim, node: usize, ch: usize, id: StreamId) {
        let k = sid(id);
        let Some(mut st) = self.sides[node].recv.get(&k).cloned() else { return };
        if st.fin || st.reset.is_some() {
            return;
        }
        let mut fails: Vec<(&'static str, String)> = Vec::new();
        let (salt, other_salts) = (self.salt, self.other_salts.clone());
        {
            let conn = sim.conn(self.nodes[node], ch);
            let mut rs = conn.recv_stream(id);
            let rd = rs.read(!st.unordered);
            match rd {
                Err(_) => {}
                Ok(mut chunks) => {
                    loop {
                        match chunks.next(st.max_len) {
                            Ok(Some(c)) => {
                                let off = c.offset;
                                let len = c.bytes.len() as u64;
                                if len == 0 {
                                    fails.push(("empty-chunk", format!("stream {k}: empty chunk at {off}")));
                                    break;
                                }
                                if c.bytes.len() > st.max_len {
                                    fails.push(("chunk-exceeds-max-length", format!("stream {k}: chunk of {} > max_length {}", c.bytes.len(), st.max_len)));
                                }
                                for (i, b) in c.bytes.iter().enumerate() {
                                    if *b != content_byte_s(salt, k, off + i as u64) {
                                        fails.push(("stream-data-altered", format!("stream {k}: byte at offset {} is {} but {} was written", off + i as u64, b, content_byte_s(salt, k, off + i as u64))));
                                        // whose content is it? (up to 8 bytes compared)
                                        let n = (c.bytes.len() - i).min(8);
                                        for s2 in other_salts.iter().filter(|s2| **s2 != salt) {
                                            if (0..n).all(|j| c.bytes[i + j] == content_byte_s(*s2, k, off + (i + j) as u64)) {
                                                fails.push(("isolation-data", format!("stream {k} of the connection with content salt {salt}: {n} bytes from offset {} are the content of the connection with salt {s2}", off + i as u64)));
                                                break;
                                            }
                                        }
                                        break;
                                    }
                                }
                                if st.unordered {
                                    for (a, b) in &st.ranges {
                                        if off < *b && *a < off + len {
                                            fails.push(("stream-data-duplicated", format!("stream {k}: unordered chunk [{off},{}) overlaps earlier [{a},{b})", off + len)));
                                        }
                                    }
                                    st.ranges.push((off, off + len));
                                } else {
                                    if off != st.ordered_off {
                                        fails.push(("stream-data-gap-or-reorder", format!("stream {k}: ordered chunk at {off}, expected {}", st.ordered_off)));
                                    }
                                    st.ordered_off = off + len;
                                }
                                st.bytes += len;
                            }
                            Ok(None) => {
                                st.fin = true;
                                break;
                            }
                            Err(ReadError::Blocked) => break,
                            Err(ReadError::Reset(c)) => {
                                st.reset = Some(c.into_inner());
                                break;
                            }
                        }
                    }
                    let _ = chunks.finalize();
                }
            }
        }
        for (k2, w) in fails {
            sim.fail(k2, format!("node {node}: {w}"));
        }
        self.sides[node].recv.insert(k, st);
    }

    /// All planned streams opened, written, finished and acknowledged; all data read to the end.
    pub fn complete(&self) -> bool {
        for node in 0..2 {
            let s = &self.sides[node];
            if s.next_plan < s.plans.len() {
                return false;
            }
            for st in s.send.values() {
                let plan = &s.plans[st.plan_idx];
                if st.stopped.is_some() {
                    continue;
                }
                if plan.reset_at.is_some() {
                    if !st.reset {
                        return false;
                    }
                } else if plan.finish && !(st.finished && st.fin_acked) {
                    return false;
                }
            }
            // what the peer sent must have arrived completely
            let peer = &self.sides[1 - node];
            for (k, st) in &peer.send {
                let plan = &peer.plans[st.plan_idx];
                if plan.reset_at.is_some() || !plan.finish {
                    continue;
                }
                match s.recv.get(k) {
                    Some(r) if r.fin => {}
                    _ => return false,
                }
            }
        }
        true
    }

    /// End-of-run oracle (C01): what was read is exactly what was written.
    pub fn final_check(&self, sim: &mut Sim, require_complete: bool) {
        for node in 0..2 {
            let peer = 1 - node;
            for (k, r) in &self.sides[node].recv {
                let Some(s) = self.sides[peer].send.get(k) else {
                    sim.fail("stream-from-nowhere", format!("node {node} accepted stream {k} the peer never opened"));
                    continue;
                };
                let plan = &self.sides[peer].plans[s.plan_idx];
                if r.bytes > s.written {
                    sim.fail("more-read-than-written", format!("stream {k}: {} bytes read, {} written", r.bytes, s.written));
                }
                if r.fin {
                    if !s.finished {
                        sim.fail("fin-without-finish", format!("stream {k}: end of stream reported but the sender never finished"));
                    }
                    if r.bytes != s.written {
                        sim.fail("fin-before-all-data", format!("stream {k}: end of stream after {} bytes, {} were written before finish", r.bytes, s.written));
                    }
                    if r.unordered {
                        let mut rs = r.ranges.clone();
                        rs.sort();
                        let mut end = 0;
                        for (a, b) in rs {
                            if a != end {
                                sim.fail("unordered-gap-at-fin", format!("stream {k}: gap at {end}..{a}"));
                            }
                            end = b;
                        }
                    }
                }
                if let Some(c) = r.reset {
                    if !s.reset {
                        sim.fail("reset-without-reset", format!("stream {k}: reader saw reset {c} but sender never reset"));
                    } else if c != 77 {
                        sim.fail("reset-code-altered", format!("stream {k}: reset code {c} != 77"));
                    }
                }
                let _ = plan;
            }
            // datagrams: each received datagram equals one sent, at most once
            let mut sent: Vec<&Vec<u8>> = self.sides[peer].dgrams_sent.iter().collect();
            for d in &self.sides[node].dgrams_recvd {
                if let Some(i) = sent.iter().position(|x| *x == d) {
                    sent.swap_remove(i);
                } else {
                    sim.fail("datagram-not-sent-or-duplicated", format!("node {node} received a datagram of {} bytes that matches no (remaining) sent datagram", d.len()));
                }
            }
        }
        if require_complete && !self.complete() {
            // C01: a stream whose sender saw everything (data and FIN) acknowledged, yet whose reader never got it all:
            // the bytes reached the peer's transport and were lost between there and the application
            for node in 0..2 {
                let peer = 1 - node;
                for (k, s) in &self.sides[node].send {
                    if !(s.finished && s.fin_acked) || s.reset || s.stopped.is_some() {
                        continue;
                    }
                    let (got, fin, rst) = self.sides[peer].recv.get(k).map_or((0, false, None), |r| (r.bytes, r.fin, r.reset));
                    if rst.is_none() && (got < s.written || !fin) {
                        sim.fail("stream-data-acked-but-not-delivered", format!("stream {k} of node {node}: {} bytes written, finished and fully acknowledged, but the peer application read {got} bytes (fin {fin})", s.written));
                    }
                }
            }
            let mut detail = String::new();
            for node in 0..2 {
                let s = &self.sides[node];
                detail += &format!(
                    " node{node}: opened {}/{} sendstates {:?} recv {:?};",
                    s.next_plan,
                    s.plans.len(),
                    s.send.iter().map(|(k, v)| (*k, v.written, v.finished, v.fin_acked)).collect::<Vec<_>>(),
                    s.recv.iter().map(|(k, v)| (*k, v.bytes, v.fin)).collect::<Vec<_>>()
                );
            }
            sim.fail("workload-incomplete", detail);
        }
    }
}

pub fn side_of(node: usize) -> Side {
    if node == 0 {
        Side::Client
    } else {
        Side::Server
    }
}
