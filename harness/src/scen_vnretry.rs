//! C04, scenario `hostile`: a forged Version Negotiation packet after the client has accepted a Retry.
//!
//! Property text: "The only unauthenticated inputs that may end or restart a connection are ... and - for a client that
//! HAS NOT YET ACCEPTED ANY SERVER PACKET - a Version Negotiation packet (ends it) or a Retry whose integrity tag verifies
//! (restarts the handshake once)." RFC 9000 6.2: "A client MUST discard any Version Negotiation packet if it has received
//! and successfully processed any other packet, including an earlier Version Negotiation packet"; 17.2.5.2: "A client
//! MUST accept and process at most one Retry packet for each connection attempt" — a Retry that the client follows IS a
//! server packet it accepted.
//!
//! Everything the oracle uses is read from the WIRE (the simulator's history of datagrams put on the wire), never from the
//! connection's state: (1) the server's endpoint sent a Retry packet (long header, type 3, the version in use) addressed to
//! the connection ID the client attempt uses as its source CID; (2) the client attempt afterwards sent an Initial whose
//! token field equals that Retry's token and whose destination CID equals that Retry's source CID: the Retry was
//! delivered and followed. From that moment on the attempt must not end with `VersionMismatch`, whoever sends whatever
//! Version Negotiation packet. The module also PROVIDES the input: as soon as (2) is seen (the server's first protected
//! packet is still a round trip away) and at a few later moments, Version Negotiation packets that do not list the
//! version in use, addressed to the client's CID, from the server's address.
use std::net::SocketAddr;

use crate::sim::{Dgram, Sim, CLIENT, SERVER};
use crate::Rng;

pub struct VnAfterRetry {
    rng: Rng,
    /// history entries already scanned
    scanned: usize,
    /// Retry packets of the server seen on the wire: (dcid, scid, token)
    retries: Vec<(Vec<u8>, Vec<u8>, Vec<u8>)>,
    /// the attempt followed a Retry: (time, client source CID, destination CID it now uses, original destination CID)
    followed: Option<(u64, Vec<u8>, Vec<u8>)>,
    odcid: Option<Vec<u8>>,
    /// Version Negotiation packets still to inject, and the time of the next one
    left: u64,
    next_at: u64,
    pub injected: u64,
    last: String,
}

fn varint(d: &[u8], at: usize) -> Option<(u64, usize)> {
    let b = *d.get(at)?;
    let n = 1usize << (b >> 6);
    let mut v = (b & 0x3f) as u64;
    for i in 1..n {
        v = (v << 8) | *d.get(at + i)? as u64;
    }
    Some((v, n))
}

/// (type, version, dcid, scid, offset behind the CIDs) of a long-header packet
fn long_header(d: &[u8]) -> Option<(u8, u32, Vec<u8>, Vec<u8>, usize)> {
    let b0 = *d.first()?;
    if b0 & 0x80 == 0 {
        return None;
    }
    let version = u32::from_be_bytes(d.get(1..5)?.try_into().ok()?);
    let dl = *d.get(5)? as usize;
    let dcid = d.get(6..6 + dl)?.to_vec();
    let sl = *d.get(6 + dl)? as usize;
    let scid = d.get(7 + dl..7 + dl + sl)?.to_vec();
    Some(((b0 >> 4) & 3, version, dcid, scid, 7 + dl + sl))
}

impl VnAfterRetry {
    /// own random stream: the scenario's other draws stay what they were
    pub fn new(seed: u64) -> Self {
        let mut rng = Rng::new(seed ^ 0x564e_5254);
        let left = 1 + rng.below(3);
        Self { rng, scanned: 0, retries: Vec::new(), followed: None, odcid: None, left, next_at: 0, injected: 0, last: String::new() }
    }

    /// called on every step once the attacked client attempt `ch` exists
    pub fn tick(&mut self, sim: &mut Sim, ch: usize, caddr: SocketAddr, saddr: SocketAddr) {
        while self.scanned < sim.history.len() {
            let i = self.scanned;
            self.scanned += 1;
            let d = &sim.history[i];
            if !d.genuine {
                continue;
            }
            let Some((ty, version, dcid, scid, at)) = long_header(&d.data) else { continue };
            if version != 1 {
                continue;
            }
            if d.origin == SERVER && ty == 3 && d.data.len() >= at + 16 {
                self.retries.push((dcid, scid, d.data[at..d.data.len() - 16].to_vec()));
            } else if d.origin == CLIENT && sim.history_ch[i] == Some(ch) && ty == 0 {
                if self.odcid.is_none() {
                    self.odcid = Some(dcid.clone());
                }
                let Some((tl, n)) = varint(&d.data, at) else { continue };
                let Some(token) = d.data.get(at + n..at + n + tl as usize) else { continue };
                if self.followed.is_none() && !token.is_empty() && self.retries.iter().any(|(rd, rs, rt)| *rd == scid && *rs == dcid && rt.as_slice() == token) {
                    self.followed = Some((sim.history_at[i], scid, dcid));
                    self.next_at = sim.now;
                }
            }
        }
        let Some((_, ccid, cur_dcid)) = self.followed.clone() else { return };
        if self.left == 0 || sim.now < self.next_at {
            return;
        }
        let nc = &sim.nodes[CLIENT].conns[&ch];
        if !nc.obs.lost.is_empty() || nc.obs.connected {
            self.left = 0;
            return;
        }
        self.left -= 1;
        // RFC 8999 6: the packet echoes the client's CIDs swapped; a forger may as well use the CID of the first Initial
        let src = if self.rng.chance(2, 3) { cur_dcid } else { self.odcid.clone().unwrap_or(cur_dcid) };
        let mut pkt = vec![0x80 | (self.rng.below(128) as u8)];
        pkt.extend_from_slice(&0u32.to_be_bytes());
        pkt.push(ccid.len() as u8);
        pkt.extend_from_slice(&ccid);
        pkt.push(src.len() as u8);
        pkt.extend_from_slice(&src);
        let all = [0x0a1a_2a3au32, 0xff00_001d, 0x6b33_43cf, 0xff00_0020, 0x5a5a_5a5a, 2];
        let k = 1 + self.rng.below(4) as usize;
        let mut listed = Vec::new();
        for _ in 0..k {
            let v = *self.rng.pick(&all);
            listed.push(v);
            pkt.extend_from_slice(&v.to_be_bytes());
        }
        self.injected += 1;
        self.last = format!("t={} ns: Version Negotiation to CID {} listing {:x?}", sim.now, crate::hex(&ccid), listed);
        // the next one: within the round trip that separates the client from the server's first protected packet, or later
        self.next_at = sim.now + self.rng.below(3 * sim.net.latency_ns.max(1));
        let at = sim.now;
        sim.handle_datagram(CLIENT, Dgram { at, seq: 0, from: saddr, to: caddr, ecn: None, data: pkt, origin: usize::MAX, genuine: false });
    }

    /// after the run: `lost` = how the client attempt ended (empty = it did not)
    pub fn judge(&self, sim: &mut Sim, lost: &[String]) {
        if let Some((t, ccid, dcid)) = &self.followed {
            if lost.iter().any(|l| l.contains("VersionMismatch")) {
                sim.fail("forged-version-negotiation-after-server-packet", format!(
                    "the client attempt (source CID {}) accepted the server's Retry (on the wire: Retry with source CID {} and its token, then at t={t} ns the client's Initial to that CID carrying that token) and afterwards ended with {lost:?}: a Version Negotiation packet may end only a client that has not yet accepted any server packet; {} forged Version Negotiation packet(s) injected after the Retry was followed, last: {}",
                    crate::hex(ccid), crate::hex(dcid), self.injected, self.last));
            }
        }
    }
}
