//! Scenario `term` (C08): every clause of "terminates cleanly and exactly once" judged by an oracle derived from the
//! property text / RFC 9000 10, with expectations computed from what the harness itself did (which close() it called with
//! which bytes, which frames it made a peer send, when it cut a peer off) and from the SENDER's plaintext log of the
//! datagrams (scenario-independent observer `txobs`), never from the receiver's reaction.
use std::cell::RefCell;
use std::collections::{BTreeMap, BTreeSet};
use std::rc::Rc;
use std::time::Duration;

use bytes::Bytes;
use quinn_proto::verif::Snapshot;
use quinn_proto::{Event, IdleTimeout, StreamEvent, TransportConfig, VarInt};

use crate::scenarios::{random_net, random_transport, Outcome};
use crate::sim::*;
use crate::txobs::{rfc_pto, RxInfo, TxObs};
use crate::workload::*;
use crate::Rng;

pub const TERM_RULE: &str = "one execution = handshake + transfer under a random network with INDEPENDENT idle timeouts on the two sides (none / 300 ms / 2 s / 10 s / 30 s each; the expected timeout is min of the non-zero values, RFC 9000 10.1, computed by the harness) and keep-alive on nobody / the client / the server / both; at a random step one terminating cause: close(code, reason of 0..3000 bytes) by the client / the server / both; the client / the server vanishing; the server endpoint replaced by a fresh one (stateless resets), also right after a close by either side; nothing (idle timeout or keep-alive); a PROTOCOL ERROR provoked by either side through the injection hooks: a frame of unknown type, MAX_STREAMS above 2^60, a STREAM frame on a stream the sender may only receive on, HANDSHAKE_DONE from the client, or a packet with non-zero reserved header bits; one 1-RTT packet [CONNECTION_CLOSE(application), STREAM on a new stream, PING]; after closes, packets without valid protection (Retry-/Version-Negotiation-typed, short-header garbage) addressed to the closed connection. Oracles (C08), clause by clause: `lost-never-reported` a connection that ended for a reason other than its own close() reports ConnectionLost; `lost-reported-twice:*` at most once; `lost-after-local-close:*` never after its own close(); `lost-wrong-reason` WHICH reason: TimedOut for a silent peer, Reset when a stateless reset was handled while open, ApplicationClosed{code} for a peer close sent with 1-RTT keys, the generic ConnectionClosed{APPLICATION_ERROR, empty reason} when the close frame that reached it was sent in an Initial/Handshake packet (read from the sender's packet log), TransportError{RFC code} at the side that was sent the illegal input and ConnectionClosed{same code} at its peer; `close-reason-bytes-differ` the reason bytes reported equal, byte for byte, the reason in the CONNECTION_CLOSE frame the closer put on the wire, which is the application's reason (whole up to 1000 bytes, else a prefix of at least 1000); `data-delivered-after-close` no stream/datagram event after the application saw ConnectionLost or called close(), and a datagram handled in a closed state changes no stream or datagram receive accounting; `close-not-announced-at-once` the first poll_transmit after close() yields a datagram to the peer that carries a CONNECTION_CLOSE frame, whatever the congestion state; `drain-later-than-3pto` drained no later than 3 PTO after leaving the open states for EVERY closing cause (local close, peer close, protocol error), PTO by the RFC 9002 formula from the RTT samples at that instant, at once for reset / timeout; `drain-notified-twice`, `drain-never`, output-after-drained; `idle-timeout-too-early` TimedOut no earlier than the negotiated timeout after the last peer packet the connection was handed; `idle-timeout-too-late` and no later than max(negotiated timeout, 3 PTO) after the last event that restarts the timer by RFC 9000 10.1: a peer packet handled, or the FIRST ack-eliciting packet sent after it (read from the tx log: later probes and retransmissions do not count); `idle-timeout-despite-keep-alive`. Non-trivial = the cause took effect after the handshake completed";

const IDLE_CHOICES: [Option<u64>; 6] = [None, Some(300), Some(2_000), Some(10_000), Some(30_000), Some(10_000)];

/// RFC 9000 10.1: each endpoint advertises max_idle_timeout (absent or 0 = none); the effective value is the minimum
/// of the two advertised values, or the only one advertised
pub fn negotiated_idle(a: Option<u64>, b: Option<u64>) -> Option<u64> {
    match (a.filter(|x| *x != 0), b.filter(|x| *x != 0)) {
        (None, None) => None,
        (Some(x), None) | (None, Some(x)) => Some(x),
        (Some(x), Some(y)) => Some(x.min(y)),
    }
}

#[derive(Clone, Debug, PartialEq)]
enum Cause {
    /// the close frames (text as the sender wrote them) of the datagram that ended the connection: the one in its 1-RTT packet,
    /// the one in an Initial/Handshake packet
    PeerClose { data: Option<String>, early: Option<String> },
    /// the node was sent an illegal input: RFC error code name
    ProtocolError(&'static str),
    Reset,
    TimedOut,
    /// the state left the open states while handling a datagram that carries nothing terminating
    Unexplained(String),
}

#[derive(Default)]
struct NodeLedger {
    seen: BTreeSet<(u8, u64)>,
    /// last certain / last possible restart of the idle timer by a received packet
    l_min: Option<u64>,
    l_max: Option<u64>,
    /// first ack-eliciting packet sent after `l_max`
    f_after: Option<u64>,
    ae_since_rx: bool,
    /// (time, RFC PTO) at the restart events
    ptos: Vec<(u64, u64)>,
    left_open_at: Option<u64>,
    pto_at_leave: u64,
    cause: Option<Cause>,
    local_close_at: Option<u64>,
    app_reason: Vec<u8>,
    connected: bool,
    saw_lost: bool,
    data_after_close: Vec<String>,
    /// illegal input built by this node: (RFC code the receiver must report)
    injected: Option<&'static str>,
}

struct TermObs {
    tx: TxObs,
    cur: Option<(RxInfo, Snapshot)>,
    led: [NodeLedger; 2],
    addrs: [std::net::SocketAddr; 2],
    mad: Duration,
    cnt: BTreeMap<String, u64>,
    /// the server endpoint was replaced at this instant: what node 1 builds from then on belongs to OTHER connections (a fresh
    /// endpoint answers the client's retransmissions with a new handshake the client cannot authenticate)
    /// (as the number of datagram records that existed then: the old connection's last datagrams carry the same instant)
    server_replaced_at: Option<usize>,
}

fn ns(d: Duration) -> u64 {
    d.as_nanos() as u64
}

fn is_open(s: &Snapshot) -> bool {
    s.state == "handshake" || s.state == "established"
}

fn pto_of(s: &Snapshot, mad: Duration) -> u64 {
    ns(rfc_pto(&s.path, if s.highest_space == 2 { mad } else { Duration::ZERO }))
}

/// the `Close(...)` frame text of a packet's debug line
fn close_text(line: &str) -> Option<String> {
    let i = line.find("Close(")?;
    let rest = &line[i..];
    // up to the matching parenthesis, honouring byte-string literals
    let (mut depth, mut in_str, mut esc) = (0i32, false, false);
    for (k, c) in rest.char_indices() {
        if in_str {
            if esc {
                esc = false;
            } else if c == '\\' {
                esc = true;
            } else if c == '"' {
                in_str = false;
            }
            continue;
        }
        match c {
            '"' => in_str = true,
            '(' => depth += 1,
            ')' => {
                depth -= 1;
                if depth == 0 {
                    return Some(rest[..=k].to_string());
                }
            }
            _ => {}
        }
    }
    None
}

/// `reason: b"..."` of a debug rendering (the byte-string literal, quotes included)
fn reason_lit(s: &str) -> Option<String> {
    let i = s.find("reason: b\"")? + 8;
    let rest = &s[i..];
    let mut esc = false;
    for (k, c) in rest.char_indices().skip(2) {
        if esc {
            esc = false;
        } else if c == '\\' {
            esc = true;
        } else if c == '"' {
            return Some(rest[..=k].to_string());
        }
    }
    None
}

fn code_of(s: &str) -> Option<String> {
    let i = s.find("error_code: ")? + 12;
    Some(s[i..].chars().take_while(|c| c.is_ascii_alphanumeric() || *c == '_').collect())
}

pub fn term(seed: u64, out: &mut Outcome) {
    let mut rng = Rng::new(seed ^ 0x7e41);
    let (mut tc, _) = random_transport(&mut rng);
    let (mut ts, _) = random_transport(&mut rng);
    let idle = [*rng.pick(&IDLE_CHOICES), *rng.pick(&IDLE_CHOICES)];
    let neg = negotiated_idle(idle[0], idle[1]);
    for (i, t) in [&mut tc, &mut ts].into_iter().enumerate() {
        t.max_idle_timeout(idle[i].map(|ms| IdleTimeout::try_from(Duration::from_millis(ms)).unwrap()));
        t.max_concurrent_bidi_streams(VarInt::from_u32(100));
        t.max_concurrent_uni_streams(VarInt::from_u32(100));
        t.keep_alive_interval(None);
    }
    // 0 nobody, 1 client, 2 server, 3 both
    let ka = if rng.chance(1, 2) { 0 } else { 1 + rng.below(3) };
    let ka_ms = neg.map_or(1_000, |n| (n / 4).max(20));
    if ka == 1 || ka == 3 {
        tc.keep_alive_interval(Some(Duration::from_millis(ka_ms)));
    }
    if ka == 2 || ka == 3 {
        ts.keep_alive_interval(Some(Duration::from_millis(ka_ms)));
    }
    let (mut sim, ccfg) = default_pair(seed, tc, ts);
    sim.model_trace = true;
    sim.net = random_net(&mut rng);
    sim.net.path_mtu = sim.net.path_mtu.max(1400);
    sim.net.drop_permille = sim.net.drop_permille.min(100);
    sim.net.corrupt_permille = 0;
    sim.net.truncate_permille = 0;
    sim.net.replay_permille = 0;
    if neg == Some(300) {
        // a timeout below the round trip is a different experiment (the connection dies of latency): keep some margin
        sim.net.latency_ns = sim.net.latency_ns.min(10_000_000);
        sim.net.jitter_ns = sim.net.jitter_ns.min(2_000_000);
    }
    TxObs::arm(&mut sim);
    let mut w = Workload::new(seed);
    w.sides[CLIENT].plans = Workload::random_plans(&mut rng, 3, 400_000);
    w.sides[SERVER].plans = Workload::random_plans(&mut rng, 2, 100_000);
    let cch = sim.connect(ccfg);
    w.ch[CLIENT] = Some(cch);

    // 0 client close, 1 server close, 2 both, 3 client vanishes, 4 server vanishes, 5 server endpoint replaced, 6 nothing,
    // 7 server closes and its endpoint restarts at once, 8 client closes and the server endpoint restarts at once,
    // 9..12 protocol error provoked by a random side (illegal frame x3, reserved bits), 13 [CONNECTION_CLOSE, STREAM, PING]
    let action = rng.below(14);
    let hostile = rng.below(2) as usize;
    let act_step = rng.range(1, 120);
    let code = *rng.pick(&[rng.clone().below(1000) as u32, 0, 16383, 16384, (1 << 30) - 1, 1 << 30, u32::MAX]);
    let rl = *rng.pick(&[0usize, 5, 39, 700, 1000, 1100, 1190, 1300, 1500, 3000]);
    let reason: Vec<u8> = rng.bytes(rl);
    let n_forged = rng.below(8);
    if action >= 9 {
        sim.nodes[hostile].max_datagrams = 1;
    }

    let obs = Rc::new(RefCell::new(TermObs {
        tx: TxObs::new(8),
        cur: None,
        led: Default::default(),
        addrs: [sim.nodes[CLIENT].addr, sim.nodes[SERVER].addr],
        mad: Duration::from_millis(25),
        cnt: BTreeMap::new(),
        server_replaced_at: None,
    }));

    // ---- what each side puts on the wire: idle-timer ledger (RFC 9000 10.1: first ack-eliciting packet after a receive)
    let o1 = obs.clone();
    sim.tx_tap = Some(Box::new(move |sim: &mut Sim, node: usize, ch: usize, before: &Snapshot, t: &quinn_proto::Transmit, buf: &[u8]| {
        let mut g = o1.borrow_mut();
        let o = &mut *g;
        let idx = o.tx.on_tx(sim, node, ch, t, buf);
        let pto = pto_of(before, o.mad);
        for i in idx {
            let ae = o.tx.recs[i].pkts.iter().any(|p| p.ack_eliciting());
            let l = &mut o.led[node];
            if ae && !l.ae_since_rx {
                l.ae_since_rx = true;
                l.f_after = Some(sim.now);
                l.ptos.push((sim.now, pto));
            }
        }
    }));

    // ---- what each side is handed
    let o2 = obs.clone();
    sim.rx_tap = Some(Box::new(move |sim: &mut Sim, node: usize, ch: usize, _len: usize, post: bool| {
        let mut g = o2.borrow_mut();
        let o = &mut *g;
        if !post {
            let info = o.tx.next_rx(sim, node, ch);
            o.cur = info.map(|i| (i, sim.snap(node, ch)));
            return;
        }
        let Some((info, b)) = o.cur.take() else { return };
        let a = sim.snap(node, ch);
        let now = sim.now;
        let replaced = o.server_replaced_at;
        let rec = info.rec.filter(|i| !(o.tx.recs[*i].node == SERVER && replaced.is_some_and(|k| *i >= k))).map(|i| o.tx.recs[i].clone()).filter(|r| r.node != node);
        let from_peer = info.from == o.addrs[1 - node];
        let mad = o.mad;
        if let (Some(r), true) = (rec.as_ref(), from_peer) {
            let l = &mut o.led[node];
            let mut fresh_any = false;
            let mut fresh_certain = false;
            for p in &r.pkts {
                if l.seen.insert((p.space, p.pn)) {
                    fresh_any = true;
                    // CERTAIN to be processed (lower bound of the timeout): a 1-RTT packet handed to an established connection;
                    // a long-header packet while the keys of its space exist. Short-header packets that arrive during the
                    // handshake may be dropped, packets of discarded spaces are: those only count as POSSIBLE restarts
                    if (p.space == 2 && !p.long && b.state == "established") || (p.long && p.space < 2 && b.spaces[p.space as usize].has_keys) {
                        fresh_certain = true;
                    }
                }
            }
            if fresh_any && is_open(&b) {
                l.l_max = Some(now);
                l.ae_since_rx = false;
                l.f_after = None;
                let pto = pto_of(&b, mad).max(pto_of(&a, mad));
                l.ptos.push((now, pto));
                if fresh_certain {
                    l.l_min = Some(now);
                    let keep_from = l.ptos.len().saturating_sub(8);
                    l.ptos.drain(..keep_from);
                }
            }
        }
        // C08 "stops delivering data": a datagram handled in a closed state changes no receive accounting
        // ("closed" = its own state says so, OR the application had already called close() / been told ConnectionLost: the
        // harness' own record, so a connection that wrongly stays open internally is still judged)
        let closed_for_app = o.led[node].local_close_at.is_some() || o.led[node].saw_lost;
        if (!is_open(&b) || closed_for_app) && (a.streams.data_recvd != b.streams.data_recvd || a.streams.recv_state != b.streams.recv_state || a.streams.n_recv != b.streams.n_recv || a.dgram_in_len != b.dgram_in_len || a.dgram_in_buffered != b.dgram_in_buffered) {
            o.led[node].data_after_close.push(format!("t={now}: a datagram of {} bytes handled in state {} changed the receive accounting: data_recvd {} -> {}, receive streams {} -> {}, datagrams buffered {} -> {}", info.len, b.state, b.streams.data_recvd, a.streams.data_recvd, b.streams.n_recv, a.streams.n_recv, b.dgram_in_len, a.dgram_in_len));
        }
        if is_open(&b) && !is_open(&a) {
            // "stops delivering data": frames BEHIND the peer's CONNECTION_CLOSE in the same packet are not acted on. When the
            // sender's log shows data-carrying frames (STREAM, DATAGRAM, RESET_STREAM) only behind the close frame, the
            // receive accounting must not have moved
            if let Some(r) = rec.as_ref() {
                for p in r.pkts.iter().filter(|p| p.is_close() && p.space == 2) {
                    let k = p.types.iter().position(|t| matches!(*t, 0x1c | 0x1d)).unwrap_or(0);
                    let data = |t: &u64| matches!(*t, 0x04 | 0x08..=0x0f | 0x30 | 0x31);
                    if !p.types[..k].iter().any(data) && p.types[k..].iter().any(data) && r.pkts.iter().filter(|q| q.space == 2).count() == 1
                        && (a.streams.data_recvd != b.streams.data_recvd || a.streams.n_recv != b.streams.n_recv || a.streams.recv_state != b.streams.recv_state || a.dgram_in_len != b.dgram_in_len)
                    {
                        o.led[node].data_after_close.push(format!("t={now}: the packet [{}] closed the connection and the frames behind the CONNECTION_CLOSE were still delivered: data_recvd {} -> {}, receive streams {} -> {}", p.line.chars().take(200).collect::<String>(), b.streams.data_recvd, a.streams.data_recvd, b.streams.n_recv, a.streams.n_recv));
                    }
                }
            }
            // the connection left the open states while handling this datagram: what did its sender put into it?
            let inj = o.led[1 - node].injected;
            let l = &mut o.led[node];
            l.left_open_at.get_or_insert(now);
            l.pto_at_leave = pto_of(&b, mad).max(pto_of(&a, mad));
            let cause = match rec.as_ref() {
                None if from_peer && info.genuine => Cause::Reset, // built by the peer's ENDPOINT, not by a connection
                None => Cause::Unexplained(format!("a datagram of {} bytes from {} that no connection built", info.len, info.from)),
                Some(r) => {
                    let closes: Vec<(String, bool)> = r.pkts.iter().filter(|p| p.is_close()).filter_map(|p| close_text(&p.line).map(|c| (c, p.space == 2))).collect();
                    if let (Some(code), false) = (inj, r.pkts.iter().any(|p| p.is_close())) {
                        // (the injected packet is the only thing the hostile side sends that is not legal)
                        Cause::ProtocolError(code)
                    } else if !closes.is_empty() {
                        let data = closes.iter().find(|(_, d)| *d).cloned();
                        let early = closes.iter().find(|(_, d)| !*d).cloned();
                        Cause::PeerClose { data: data.map(|x| x.0), early: early.map(|x| x.0) }
                    } else {
                        Cause::Unexplained(format!("packets {:?}", r.pkts.iter().map(|p| format!("{}:{} {}", p.space, p.pn, p.line.chars().take(120).collect::<String>())).collect::<Vec<_>>()))
                    }
                }
            };
            l.cause.get_or_insert(cause);
        }
    }));

    let mut acted_at: Option<u64> = None;
    let mut acted_after_handshake = false;
    let mut close_tx_ok = 0u64;
    let mut vanished: Option<usize> = None;
    let mut forged_left = n_forged;
    let mut forged_handled = 0u64;
    let mut cut_at: [Option<u64>; 2] = [None; 2];
    // a protocol-error action whose injection could not be made (no 1-RTT keys yet) leaves the connection alone
    let mut effective = action;
    let horizon = 100_000_000_000u64;
    let end = sim.run_until(horizon * 3, 300_000, |sim| {
        if w.ch[SERVER].is_none() {
            if let Some(&ch) = sim.nodes[SERVER].accepted.first() {
                w.ch[SERVER] = Some(ch);
            }
        }
        // application events: data delivered after the application knows the connection is over?
        for node in 0..2 {
            let Some(ch) = w.ch[node] else { continue };
            let mut o = obs.borrow_mut();
            let l = &mut o.led[node];
            for e in sim.nodes[node].conns[&ch].app_events.iter() {
                match e {
                    Event::Connected => l.connected = true,
                    Event::ConnectionLost { .. } => l.saw_lost = true,
                    Event::Stream(StreamEvent::Readable { .. }) | Event::Stream(StreamEvent::Opened { .. }) | Event::DatagramReceived => {
                        if l.saw_lost || l.local_close_at.is_some() {
                            l.data_after_close.push(format!("t={}: application event {e:?} after {}", sim.now, if l.saw_lost { "ConnectionLost" } else { "its close()" }));
                        }
                    }
                    _ => {}
                }
            }
        }
        w.tick(sim);
        if acted_at.is_none() && sim.steps >= act_step && (w.ch[SERVER].is_some() || sim.steps > act_step + 50) {
            acted_at = Some(sim.now);
            acted_after_handshake = sim.nodes[CLIENT].conns[&cch].obs.connected && w.ch[SERVER].is_some_and(|s| sim.nodes[SERVER].conns[&s].obs.connected);
            let sch = w.ch[SERVER];
            let mut do_close = |sim: &mut Sim, node: usize, ch: usize| {
                let now = sim.t();
                let b = sim.snap(node, ch);
                if !is_open(&b) {
                    return;
                }
                sim.conn(node, ch).close(now, VarInt::from_u32(code), reason.clone().into());
                let a = sim.snap(node, ch);
                let pto3 = a.timers[2].map_or(0, |t| sim.off(t).saturating_sub(sim.now));
                sim.model_ops.push(format!("life close {} {pto3} {}", sim.now, life_state(sim.base, &b)));
                sim.model_impl.push(life_state(sim.base, &a));
                sim.nodes[node].conns.get_mut(&ch).unwrap().obs.closed_locally_at = Some(sim.now);
                {
                    let mut o = obs.borrow_mut();
                    let mad = o.mad;
                    let l = &mut o.led[node];
                    l.local_close_at = Some(sim.now);
                    l.left_open_at.get_or_insert(sim.now);
                    l.pto_at_leave = pto_of(&b, mad);
                    l.app_reason = reason.clone();
                }
                // C08: the close is announced at once, whatever the congestion / pacing / flow-control state
                let before = sim.snap(node, ch);
                let mut buf = Vec::new();
                let t = sim.conn(node, ch).poll_transmit(now, 1, &mut buf);
                // the only excuse for silence is the anti-amplification limit, and only towards an address the HARNESS has not
                // seen validated either (crate::addrval): a path wrongly kept unvalidated, or keys dropped too early, excuse nothing
                // (an open connection always holds the keys of at least one packet number space)
                let peer_validated = sim.av.is_validated(node, ch, &before.path.remote);
                let blocked_by_amp = !peer_validated && !before.path.validated && before.path.total_sent >= 3 * before.path.total_recvd;
                let has_keys = true;
                match t {
                    Some(t) => {
                        close_tx_ok += 1;
                        let idx = obs.borrow_mut().tx.on_tx(sim, node, ch, &t, &buf);
                        let o = obs.borrow();
                        let carries_close = idx.iter().any(|i| o.tx.recs[*i].pkts.iter().any(|p| p.is_close()));
                        let peer_addr = o.addrs[1 - node];
                        drop(o);
                        if !carries_close || t.destination != peer_addr {
                            sim.fail("close-not-announced-at-once", format!("node {node}: the first datagram after close() goes to {} (peer at {peer_addr}) and carries a CONNECTION_CLOSE frame: {carries_close}", t.destination));
                        }
                        if t.size > before.path.current_mtu as usize {
                            sim.fail("datagram-exceeds-mtu", format!("node {node}: closing datagram of {} bytes > current_mtu {} (code {code}, reason {} bytes)", t.size, before.path.current_mtu, reason.len()));
                        }
                        let data = buf[..t.size].to_vec();
                        let from = sim.nodes[node].addr;
                        *sim.nodes[node].sent_to.entry(t.destination).or_default() += t.size as u64;
                        sim.send_wire(node, from, t.destination, t.ecn, data);
                    }
                    None => {
                        if has_keys && !blocked_by_amp {
                            sim.fail("close-not-announced-at-once", format!("node {node}: poll_transmit right after close() returned None (in_flight {} cwnd {} state {})", before.path.in_flight_bytes, before.path.cwnd, before.state));
                        }
                    }
                }
            };
            let restart_server = |sim: &mut Sim| {
                let clock = sim.clock.clone();
                let fresh = quinn_proto::Endpoint::new(
                    std::sync::Arc::new(endpoint_config(seed ^ 1, 8, None)),
                    Some(std::sync::Arc::new(server_config(seed, TransportConfig::default(), &clock))),
                    true,
                );
                sim.nodes[SERVER].ep = fresh;
                let mut ob = obs.borrow_mut();
                ob.server_replaced_at = Some(ob.tx.recs.len());
                drop(ob);
                for c in sim.nodes[SERVER].conns.values_mut() {
                    c.removed = true;
                }
            };
            match action {
                0 => do_close(sim, CLIENT, cch),
                1 => {
                    if let Some(s) = sch {
                        do_close(sim, SERVER, s)
                    }
                }
                2 => {
                    do_close(sim, CLIENT, cch);
                    if let Some(s) = sch {
                        do_close(sim, SERVER, s)
                    }
                }
                3 | 4 => {
                    let who = if action == 3 { CLIENT } else { SERVER };
                    vanished = Some(who);
                    cut_at[who] = Some(sim.now);
                    let a = sim.nodes[who].addr;
                    sim.wire.retain(|d| d.from != a);
                    sim.wire_filter = Some(Box::new(move |d: &mut Dgram, _r: &mut Rng| d.from != a));
                }
                5 | 7 | 8 => {
                    if action == 7 {
                        if let Some(s) = sch {
                            do_close(sim, SERVER, s)
                        }
                    }
                    if action == 8 {
                        do_close(sim, CLIENT, cch);
                    }
                    restart_server(sim);
                    vanished = Some(SERVER);
                    cut_at[SERVER] = Some(sim.now);
                }
                9..=13 => {
                    let (hn, hch) = if hostile == CLIENT { (CLIENT, Some(cch)) } else { (SERVER, sch) };
                    if let Some(hch) = hch {
                        if is_open(&sim.snap(hn, hch)) && sim.snap(hn, hch).spaces[2].has_keys && acted_after_handshake {
                            // a stream the hostile side may only receive on: initiated by its peer, unidirectional
                            let recv_only_id: u8 = if hn == CLIENT { 3 } else { 2 };
                            let (frames, rfc): (Option<Vec<u8>>, &'static str) = match action {
                                9 => (Some(vec![0x21]), "FRAME_ENCODING_ERROR"),                                             // RFC 9000 12.4: unknown frame type
                                10 => (Some(vec![0x12, 0xd0, 0, 0, 0, 0, 0, 0, 1]), "FRAME_ENCODING_ERROR"),                 // 19.11: MAX_STREAMS > 2^60
                                11 => {
                                    if hn == CLIENT && sim.rng.chance(1, 2) {
                                        (Some(vec![0x1e]), "PROTOCOL_VIOLATION")                                              // 19.20: HANDSHAKE_DONE from a client
                                    } else {
                                        (Some(vec![0x0a, recv_only_id, 0x01, 0x41]), "STREAM_STATE_ERROR")                    // 19.8: STREAM on a send-only stream of the receiver
                                    }
                                }
                                12 => (None, "PROTOCOL_VIOLATION"),                                                          // 17.2 / 17.3: reserved bits
                                _ => {
                                    let mut f = vec![0x1d];
                                    f.extend_from_slice(&(0xc000_0000_0000_0000u64 | code as u64).to_be_bytes());
                                    f.push(reason.len().min(40) as u8);
                                    f.extend_from_slice(&reason[..reason.len().min(40)]);
                                    let id = 4 * 60 + 2 + hn as u64;
                                    f.push(0x0b);
                                    f.extend_from_slice(&(0x4000u16 | id as u16).to_be_bytes());
                                    f.push(5);
                                    f.extend_from_slice(&content(id, 0, 5));
                                    (Some(f), "")
                                }
                            };
                            let ok = match frames {
                                Some(f) => sim.conn(hn, hch).verif_inject_frames(2, f),
                                None => {
                                    sim.conn(hn, hch).ping();
                                    sim.conn(hn, hch).verif_set_reserved_bits_next();
                                    true
                                }
                            };
                            if ok && action != 13 {
                                obs.borrow_mut().led[hn].injected = Some(rfc);
                            }
                            if ok && action == 13 {
                                obs.borrow_mut().led[hn].app_reason = reason[..reason.len().min(40)].to_vec();
                            }
                            if !ok {
                                effective = 6;
                            }
                        } else {
                            effective = 6;
                        }
                    } else {
                        effective = 6;
                    }
                }
                _ => {}
            }
        }
        // unauthenticated packets addressed to a connection that is closed / draining
        if let (Some(t0), Some(sch)) = (acted_at, w.ch[SERVER]) {
            if forged_left > 0 && sim.now > t0 && sim.steps % 3 == 0 {
                let victim = sim.rng.below(2) as usize;
                let vch = if victim == CLIENT { cch } else { sch };
                let st = sim.snap(victim, vch).state;
                if !sim.nodes[victim].conns[&vch].removed && (st == "closed" || st == "draining") {
                    forged_left -= 1;
                    let o = obs.borrow();
                    let cid = o.tx.recs.iter().rev().find(|r| r.node == 1 - victim && r.pkts.iter().any(|p| !p.long)).map(|r| r.dcid.clone()).unwrap_or_default();
                    let (from, to) = (o.addrs[1 - victim], o.addrs[victim]);
                    drop(o);
                    let cidb: Vec<u8> = (0..cid.len() / 2).filter_map(|i| u8::from_str_radix(&cid[2 * i..2 * i + 2], 16).ok()).collect();
                    let mut r = Rng::new(sim.rng.next());
                    let long = |first: u8, version: u32, payload: &[u8]| {
                        let mut p = vec![first];
                        p.extend_from_slice(&version.to_be_bytes());
                        p.push(cidb.len() as u8);
                        p.extend_from_slice(&cidb);
                        p.push(8);
                        p.extend_from_slice(&[7u8; 8]);
                        p.extend_from_slice(payload);
                        p
                    };
                    let data = match r.below(5) {
                        0 => long(0xf0, 1, &[]),
                        1 => long(0x80, 0, &[]),
                        2 => long(0xf3, 1, &[0x1c, 0, 0, 0]),
                        3 => long(0x85, 0, &[0x1c, 0, 0, 0]),
                        _ => {
                            let mut p = r.bytes(40);
                            p[0] = 0x40 | (p[0] & 0x3f);
                            for (i, b) in cidb.iter().enumerate().take(8) {
                                p[1 + i] = *b;
                            }
                            p
                        }
                    };
                    let qlen = sim.nodes[victim].conns[&vch].events.len();
                    let at = sim.now;
                    sim.handle_datagram(victim, Dgram { at, seq: 0, from, to, ecn: None, data, origin: usize::MAX, genuine: false });
                    if sim.nodes[victim].conns[&vch].events.len() > qlen {
                        forged_handled += 1;
                    }
                }
            }
        }
        acted_at.is_some_and(|t| sim.now > t + horizon)
    });
    sim.rx_tap = None;
    sim.tx_tap = None;
    let o = Rc::try_unwrap(obs).ok().expect("taps dropped").into_inner();
    let acted = acted_at.unwrap_or(0);
    // the one packet that carried the illegal input may have been lost (it is not retransmitted): then nothing happened
    if (9..=12).contains(&effective) && !o.led.iter().any(|l| matches!(l.cause, Some(Cause::ProtocolError(_)))) {
        effective = 6;
        out.count("illegal-input-lost-or-not-sent", 1);
    }
    if effective == 13 && !o.led.iter().any(|l| matches!(l.cause, Some(Cause::PeerClose { .. }))) {
        effective = 6;
    }

    // which datagrams of the two connections did the network NOT deliver (loss, path MTU, a vanished sender)? A datagram
    // the sender built whose bytes were never handed to an endpoint
    let undelivered: Vec<(u64, usize)> = {
        let mut seen = vec![false; o.tx.recs.len()];
        for r in sim.route_log.as_ref().map(|v| v.as_slice()).unwrap_or(&[]) {
            if let Some(i) = o.tx.lookup(&r.data) {
                seen[i] = true;
            }
        }
        o.tx.recs.iter().enumerate().filter(|(i, _)| !seen[*i]).map(|(_, r)| (r.at, r.node)).collect()
    };
    // ---- oracles
    let kind_of = |l: &str| l.trim_start_matches("ConnectionLost(").split(|c| c == '(' || c == ')' || c == ' ').next().unwrap_or("").to_string();
    for node in 0..2 {
        let peer = 1 - node;
        let Some(ch) = w.ch[node] else { continue };
        let (lost, drained_events, drained_at, removed) = {
            let nc = &sim.nodes[node].conns[&ch];
            (nc.obs.lost.clone(), nc.obs.drained_events, nc.obs.drained_at, nc.removed)
        };
        // (a restarted server endpoint may create a NEW connection under the old handle from the client's retransmissions:
        //  neither it nor the lost one is judged)
        if removed || (node == SERVER && cut_at[SERVER].is_some() && vanished == Some(SERVER) && action != 4) {
            continue;
        }
        let l = &o.led[node];
        let sn = sim.snap(node, ch);
        // --- at most once / never for a local close
        // (the recorded findings that involve `Reset` are tied to a stateless reset really handled: lostkeys.rs)
        let resets = sim.ledger.stateless_resets_handled(node, ch);
        if lost.len() > 1 {
            sim.fail(&crate::lostkeys::twice_key(&lost, resets), format!("node {node}: {lost:?} (stateless resets of the peer endpoint handled: {resets})"));
        }
        if drained_events > 1 {
            sim.fail("drain-notified-twice", format!("node {node} conn {ch}"));
        }
        let local_first = l.local_close_at.is_some() && l.local_close_at == l.left_open_at;
        if local_first && !lost.is_empty() {
            let k = crate::lostkeys::after_local_close_key(&lost[0], resets, "lost-after-local-close:other");
            sim.fail(k, format!("node {node} closed locally at {:?} yet polled {lost:?} (stateless resets of the peer endpoint handled: {resets})", l.local_close_at));
        }
        // --- at least once, and which reason
        // ended = the Drained endpoint event was emitted (the harness saw it), not merely the connection's own state
        let ended = sn.state == "drained" || sim.nodes[node].conns[&ch].obs.drained_events > 0;
        let cause = if local_first {
            None
        } else if let Some(c) = l.cause.clone() {
            Some(c)
        } else if ended && l.left_open_at.is_none() {
            // it left the open states outside packet handling and outside close(): only its own timers do that
            Some(Cause::TimedOut)
        } else {
            None
        };
        if ended && !local_first && lost.is_empty() {
            sim.fail("lost-never-reported", format!("node {node} conn {ch} is drained (cause as seen by the harness: {cause:?}, action {action}) and never reported ConnectionLost"));
        }
        if let (Some(c), Some(first)) = (cause.as_ref(), lost.first()) {
            let kind = kind_of(first);
            let bad = |sim: &mut Sim, want: &str| sim.fail("lost-wrong-reason", format!("node {node} (action {action}): expected {want}; it polled {first}"));
            match c {
                Cause::TimedOut => {
                    if kind != "TimedOut" {
                        bad(&mut sim, "TimedOut (the connection ended on its own timers, no terminating packet was handed to it)");
                    }
                }
                Cause::Reset => {
                    if kind != "Reset" {
                        bad(&mut sim, "Reset (it left the open states while handling a datagram built by the peer's endpoint, not by a connection: a stateless reset)");
                    }
                }
                Cause::ProtocolError(code) => {
                    if kind != "TransportError" || !first.contains(code) {
                        bad(&mut sim, &format!("TransportError with code {code} (RFC 9000) for the illegal input its peer was made to send"));
                    }
                }
                Cause::PeerClose { data, early } => {
                    // the report must render one of the close frames that reached it: same kind, same code, same reason bytes
                    let app = o.led[peer].app_reason.clone();
                    let matches_frame = |f: &String| -> bool {
                        let k = if f.contains("Close(Application(") { "ApplicationClosed" } else { "ConnectionClosed" };
                        kind == k && code_of(first) == code_of(f) && reason_lit(first) == reason_lit(f)
                    };
                    let hit = data.iter().chain(early.iter()).find(|f| matches_frame(f)).cloned();
                    match hit {
                        None => {
                            let same_code = data.iter().chain(early.iter()).any(|f| code_of(first) == code_of(f) && (kind == "ApplicationClosed") == f.contains("Close(Application("));
                            if same_code {
                                sim.fail("close-reason-bytes-differ", format!("node {node}: the close frame(s) that reached it: {:?} / {:?}; it reported {}", data.as_ref().map(|x| x.chars().take(100).collect::<String>()), early.as_ref().map(|x| x.chars().take(100).collect::<String>()), first.chars().take(140).collect::<String>()));
                            } else {
                                bad(&mut sim, &format!("the peer's close as it was on the wire: 1-RTT packet {:?}, Initial/Handshake packet {:?}", data.as_ref().map(|x| x.chars().take(120).collect::<String>()), early.as_ref().map(|x| x.chars().take(120).collect::<String>())));
                            }
                        }
                        Some(_) => {}
                    }
                    // ... and what was on the wire is what the closer's application asked for
                    // (only for a close the PEER's application made: its own close(), or the hand-made packet of action 13 when the
                    //  peer is the side that built it. The CONNECTION_CLOSE(NO_ERROR) a connection sends in reply to a peer's close,
                    //  RFC 9000 10.2.2, in every space it still has keys for, is not an application close of that side)
                    if o.led[peer].local_close_at.is_some() || (action == 13 && peer == hostile) {
                        if let Some(f) = data.as_ref().filter(|f| f.contains("Close(Application(")) {
                            let appl = format!("{:?}", Bytes::from(app.clone()));
                            let want_code = format!("error_code: {code},");
                            let wire = reason_lit(f).unwrap_or_default();
                            let body = &wire[..wire.len().saturating_sub(1)];
                            let wire_ok = if app.len() <= 1000 { wire == appl } else { appl.starts_with(body) && body.len() >= 1000 };
                            if !f.contains(&want_code) || !wire_ok {
                                sim.fail("close-reason-bytes-differ", format!("node {peer} closed with code {code} and a reason of {} bytes {}; its 1-RTT close frame: {}", app.len(), appl.chars().take(80).collect::<String>(), f.chars().take(160).collect::<String>()));
                            }
                        }
                        if let Some(f) = early.as_ref() {
                            // RFC 9000 10.2.3: in Initial/Handshake packets an application close is sent as the generic
                            // CONNECTION_CLOSE(APPLICATION_ERROR) without reason (nothing of the application state leaks)
                            if !(f.contains("Close(Connection(") && f.contains("APPLICATION_ERROR") && reason_lit(f).as_deref() == Some("b\"\"")) {
                                sim.fail("close-generic-form-leaks", format!("node {peer} closed (application close) while it still used Initial/Handshake packets; the close frame in such a packet: {}", f.chars().take(160).collect::<String>()));
                            }
                        }
                    }
                    // a close that only a 1-RTT packet carried must be reported with the application's code
                    if let (Some(f), None) = (data.as_ref(), early.as_ref()) {
                        if f.contains("Close(Application(") && kind != "ApplicationClosed" {
                            bad(&mut sim, "ApplicationClosed (only a 1-RTT close frame reached it)");
                        }
                    }
                    // the side that provoked a protocol error learns the RFC's code for it
                    if let Some(want) = o.led[node].injected {
                        if !(kind == "ConnectionClosed" && first.contains(want)) {
                            bad(&mut sim, &format!("ConnectionClosed with code {want}: the peer was sent an illegal input by this side"));
                        }
                    }
                }
                Cause::Unexplained(what) => {
                    sim.fail("lost-wrong-reason", format!("node {node} (action {action}) left the open states while handling {what}: nothing terminating was sent to it; it polled {first}"));
                }
            }
        }
        // --- drained within 3 PTO of leaving the open states, whatever the closing cause; at once for reset / timeout
        if let Some(t0) = l.left_open_at {
            match drained_at {
                Some(td) => {
                    let at_once = matches!(cause, Some(Cause::Reset));
                    let bound = if at_once { t0 } else { t0 + 3 * l.pto_at_leave };
                    if td > bound {
                        sim.fail("drain-later-than-3pto", format!("node {node}: left the open states at {t0} ({}), drained at {td} > {bound} (3 x PTO {} ns; PTO = srtt + max(4 rttvar, 1 ms) + max_ack_delay at that instant)", if local_first { "close()".to_string() } else { format!("{cause:?}").chars().take(60).collect::<String>() }, l.pto_at_leave));
                    }
                }
                None => sim.fail("drain-never", format!("node {node}: left the open states at {t0}, never drained by {}", sim.now)),
            }
        }
        if !ended && acted_at.is_some() && (neg.is_some() && (effective != 6 || ka == 0) || l.left_open_at.is_some()) {
            // who keeps it alive? the last datagrams of both sides
            let tail: Vec<&crate::txobs::DgramRec> = o.tx.recs.iter().rev().take(40).collect();
            let ack_only = tail.len() == 40 && tail.iter().all(|r| r.pkts.iter().all(|p| p.types.iter().all(|t| matches!(*t, 0 | 2 | 3))));
            // "a connection that keeps exchanging traffic never times out": is APPLICATION data still flowing? (a slow transfer:
            // stream windows of 500 bytes over a long round trip last longer than the horizon.) New STREAM / DATAGRAM / CRYPTO
            // data in a packet sent during the last two idle periods = the applications are not silent, nothing is demanded.
            // Control frames alone (PING, MAX_DATA, ...) do not count: a connection kept alive only by them is reported.
            let pto = l.ptos.iter().map(|(_, p)| *p).max().unwrap_or(0);
            let period = (neg.unwrap_or(0) * 1_000_000).max(3 * pto);
            let since = sim.now.saturating_sub(2 * period);
            let app_traffic = l.left_open_at.is_none()
                && o.tx.recs.iter().rev().take_while(|r| r.at >= since).any(|r| r.pkts.iter().any(|p| p.types.iter().any(|t| matches!(*t, 0x06 | 0x08..=0x0f | 0x30 | 0x31))));
            if app_traffic && effective == 6 && is_open(&sn) {
                out.count("still-transferring-at-the-horizon", 1);
            } else if ack_only && is_open(&sn) {
                sim.fail("idle-timeout-prevented-by-ack-of-ack", format!("node {node} conn {ch} still {} at t={} (action {action}: both applications silent, no keep-alive, negotiated idle timeout {neg:?} ms): the last 40 datagrams of the two endpoints carry nothing but ACK frames, each acknowledging the other's acknowledgement (RFC 9000 13.2.1: a non-ack-eliciting packet MUST NOT be answered with a non-ack-eliciting packet), so the idle timer is restarted for ever; network marks CE: {}", sn.state, sim.now, sim.net.ce));
            } else {
                sim.fail("drain-never", format!("node {node} conn {ch} still {} at the end (action {action}, negotiated idle timeout {neg:?} ms, keep-alive {ka})", sn.state));
            }
        }
        // --- "stops delivering data"
        if let Some(d) = l.data_after_close.first() {
            sim.fail("data-delivered-after-close", format!("node {node}: {d}"));
        }
        // --- idle timeout
        if let Some(first) = lost.first() {
            if kind_of(first) == "TimedOut" {
                let td = drained_at.unwrap_or(sim.now);
                if ka != 0 && vanished.is_none() && effective == 6 && ka_ms < neg.unwrap_or(u64::MAX) {
                    // "keeps exchanging keep-alives": the HARNESS establishes that the path delivered and the peer was there:
                    // from the last peer packet this side was handed until its timeout (at least one idle period = four
                    // keep-alive intervals) the network lost no datagram of either connection, in either direction, and the peer
                    // was not drained before this side. Then every keep-alive due in that silence and every acknowledgement of
                    // one arrived, and only a missing keep-alive explains the silence. (A timeout with peer packets HANDLED
                    // inside the period is `idle-timeout-too-early`.)
                    let from = l.l_max.unwrap_or(0);
                    let lost_in_window = undelivered.iter().filter(|(t, _)| *t >= from && *t <= td).count();
                    let peer_gone_first = w.ch[peer].and_then(|pch| sim.nodes[peer].conns[&pch].obs.drained_at).is_some_and(|t| t < td);
                    if lost_in_window == 0 && !peer_gone_first {
                        sim.fail("idle-timeout-despite-keep-alive", format!("node {node}: {first} at {td} although keep-alives (every {ka_ms} ms, sides {ka}) were due, the peer was alive and the network delivered every datagram of both connections sent in [{from}, {td}] (from the last peer packet it was handed to the timeout); negotiated idle timeout {neg:?} ms"));
                    } else {
                        out.count("keep-alive-timeouts-explained-by-loss-or-dead-peer", 1);
                    }
                }
                match neg {
                    None => {
                        // before the peer's parameters arrive the local value applies
                        if idle[node].is_none() {
                            sim.fail("idle-timeout-too-early", format!("node {node}: TimedOut at {td} although neither side set an idle timeout"));
                        }
                    }
                    Some(n) => {
                        let n_ns = n * 1_000_000;
                        let lmin = l.l_min.unwrap_or(0);
                        if td < lmin + n_ns {
                            sim.fail("idle-timeout-too-early", format!("node {node}: last peer packet handled at {lmin}, TimedOut at {td}: {} ns later, the negotiated idle timeout is min({:?}, {:?}) = {n} ms", td - lmin, idle[0], idle[1]));
                        }
                        // upper bound: last restart by RFC 9000 10.1 + max(timeout, 3 PTO)
                        let hi_ms = if l.connected { n } else { idle[node].unwrap_or(n).max(n) };
                        let e = l.l_max.unwrap_or(0).max(l.f_after.unwrap_or(0));
                        let pto = l.ptos.iter().filter(|(t, _)| *t >= lmin).map(|(_, p)| *p).max().unwrap_or(0);
                        let bound = e + (hi_ms * 1_000_000).max(3 * pto) + sim.drv.late_ns;
                        if td > bound {
                            sim.fail("idle-timeout-too-late", format!("node {node}: last peer packet handled at {:?}, first ack-eliciting packet sent after it at {:?}; TimedOut at {td} > {bound} = that + max(idle {hi_ms} ms, 3 x PTO {pto} ns)", l.l_max, l.f_after));
                        }
                    }
                }
            }
        }
        let _ = (cut_at, peer);
    }
    out.runs += 1;
    out.evaluations += sim.steps;
    if acted_after_handshake {
        out.nontrivial += 1;
    }
    out.count(&format!("action:{action}"), 1);
    out.count(&format!("end:{end:?}"), 1);
    out.count("close-announced-checks", close_tx_ok);
    out.count("forged-packets-handled-in-closed-states", forged_handled);
    out.count(&format!("idle:{:?}/{:?}", idle[0], idle[1]), 1);
    out.count(&format!("keep-alive:{ka}"), 1);
    for node in 0..2 {
        if let Some(c) = o.led[node].cause.as_ref() {
            let k = format!("{c:?}");
            out.count(&format!("cause:{}", k.split(|ch: char| !ch.is_ascii_alphanumeric()).next().unwrap_or("")), 1);
        }
        if let Some(ch) = w.ch[node] {
            for x in &sim.nodes[node].conns[&ch].obs.lost {
                out.count(&format!("reported:{}", kind_of(x)), 1);
            }
        }
    }
    out.count("packets-misaligned-in-log", o.tx.misaligned);
    for (k, v) in &o.cnt {
        out.count(k, *v);
    }
    if out.samples.len() < 3 {
        let l: Vec<_> = (0..2).map(|n| sim.nodes[n].conns.values().map(|c| (c.obs.lost.iter().map(|x| x.chars().take(90).collect::<String>()).collect::<Vec<_>>(), c.obs.drained_events, c.obs.closed_locally_at, c.obs.drained_at)).collect::<Vec<_>>()).collect();
        out.samples.push(format!("seed {seed}: action {action} (hostile side {hostile}) at step {act_step} (t={acted}ns, after handshake: {acted_after_handshake}), idle client/server {:?}/{:?} ms -> {neg:?}, keep-alive {ka}; causes seen {:?}; per node (lost, drained events, closed at, drained at): {l:?}", idle[0], idle[1], [o.led[0].cause.as_ref().map(|c| format!("{c:?}").chars().take(50).collect::<String>()), o.led[1].cause.as_ref().map(|c| format!("{c:?}").chars().take(50).collect::<String>())]));
    }
    if std::env::var("VERIF_SIM_VERBOSE").is_ok() {
        let all = std::env::var("VERIF_SIM_VERBOSE").map_or(false, |v| v == "2");
        for r in sim.trace.iter().filter(|r| !matches!(r, Rec::Tx { .. })) {
            eprintln!("{r:?}");
        }
        if all {
            for r in &o.tx.recs {
                eprintln!("tx n{} t={} -> {} {:?}", r.node, r.at, r.dst, r.pkts.iter().map(|p| format!("{}:{} {}", p.space, p.pn, p.line.chars().take(140).collect::<String>())).collect::<Vec<_>>());
            }
        }
        for node in 0..2 {
            let l = &o.led[node];
            eprintln!("ledger node {node}: l_min {:?} l_max {:?} f_after {:?} left_open_at {:?} pto_at_leave {} cause {:?} local_close_at {:?} ptos {:?}", l.l_min, l.l_max, l.f_after, l.left_open_at, l.pto_at_leave, l.cause, l.local_close_at, l.ptos);
        }
    }
    for f in sim.fails.drain(..) {
        out.fails.push(format!("{f} seed={seed}"));
    }
    out.take_trace(seed, &mut sim);
}
