//! Scenario `zrtt2`: 0-RTT end to end with an OBSERVABLE rejected attempt (C17, C02, C05).
//!
//! Every byte the client application hands to the connection is salted with the number of the attempt it belongs
//! to (attempt 0 = before the handshake completed, attempt 1 = the repetition after a rejection), so anything of a
//! rejected attempt that reaches the server application is seen. The early workload has streams of every kind
//! (finished, kept open, empty and finished, reset, receive half stopped, longer than the remembered credit),
//! application datagrams and run-time limit changes (`set_receive_window`, `set_max_concurrent_streams`) issued
//! before the handshake completes; the server application starts its own workload the moment it accepts (0.5-RTT
//! data), accepts late, answers with a Retry first, keeps / enlarges / reduces its transport parameters while
//! keeping its TLS state, or has lost its TLS state / refuses early data.
//!
//! All oracles are statements of the property text (C17 / RFC 9000 7.4.1, 13.3 / RFC 9221), applied to what the two
//! applications and the client's plaintext transmit log show; none reads quinn's internal decisions.
use std::collections::{BTreeMap, BTreeSet};
use std::net::{IpAddr, Ipv4Addr, SocketAddr};
use std::sync::{Arc, Mutex};
use std::time::Duration;

use bytes::Bytes;
use quinn_proto::{
    Dir, Endpoint, Event, FinishError, IdleTimeout, ReadError, SendDatagramError, ServerConfig, StreamEvent, StreamId,
    TransportConfig, VarInt, WriteError,
};

use crate::scenarios::{random_net, random_transport, Outcome};
use crate::sim::*;
use crate::workload::sid;
use crate::Rng;

pub const ZRTT2_RULE: &str = "one execution = a first connection to obtain a session ticket (and the server's transport parameters to remember), then a second connection with 0-RTT whose early workload is salted per attempt: client streams of every kind (finished, kept open until connected, EMPTY and finished, reset after 0..n bytes, bidirectional with the receive half stopped by the application, longer than the remembered stream / connection credit), 0..20 application datagrams, set_receive_window (x2 / x10 / x20 / shrink) and set_max_concurrent_streams (raise from 0/1, lower) calls before the first packet and between the first flight and the end of the handshake; the server application starts its own streams and datagrams at accept (0.5-RTT), accepts at once or 2 ms..1.5 s late (early packets buffered by the endpoint), optionally answers the first Initial with a Retry; second server = unchanged | same TLS state with LARGER transport parameters | same TLS state with REDUCED parameters (RFC 9000 7.4.1: must not accept 0-RTT) | TLS state lost (fresh session store) | session kept but early data refused (max_early_data_size 0), the last two with arbitrary new limits incl. no / small max_datagram_frame_size; every subset of the first 8 datagrams dropped (seeded) plus random loss / duplication / reordering / replay. Oracles (property text): accepted => every early stream is read by the server application exactly once, in order, with the bytes of attempt 0, finished streams end, the reset stream is seen as reset, datagrams at most once; rejected => no byte / datagram of attempt 0 reaches the server application (zero-rtt-rejected-data-visible), the early stream ids are gone on the client (zero-rtt-early-stream-not-reported), numbering restarts at 0 (zero-rtt-numbering-not-restarted), send limits are exactly the new server's values (zero-rtt-rejected-limits-not-fresh), a STOP_SENDING of the rejected attempt takes no effect (the repeated workload has its plans rotated, so the same id carries another kind of stream), and the repeated workload completes like on a fresh connection - including the credit the client application granted during the attempt (zero-rtt-rejected-credit-update-lost); across a Retry every retransmittable frame sent in 0-RTT before the Retry (STREAM ranges and FINs unless the stream is reset later, RESET_STREAM, STOP_SENDING, MAX_DATA, MAX_STREAM_DATA, MAX_STREAMS; *_BLOCKED and DATAGRAM exempt, RFC 9000 13.3) is sent again afterwards (zero-rtt-retry-lost-frame, from the client's plaintext transmit log) and the server ends with the credit the client announced; no transport error between the honest peers (flow-control-/flow-stream-limit-error-between-honest-peers, zero-rtt-rejected-datagram-exceeds-new-limit, connection-lost-under-fair-loss); all send streams released at the end (zero-rtt-send-streams-not-released); C02 handshake and workload complete. non-trivial = the second connection had 0-RTT keys and transmitted early stream data or datagrams before the handshake completed";

const RESET_CODE: u32 = 77;
const STOP_CODE: u32 = 55;
const STOPPED_RESET_CODE: u32 = 78;

#[derive(Clone, Copy, Debug, PartialEq, Eq)]
struct SrvParams {
    rw: u32,
    srw: u32,
    bi: u32,
    uni: u32,
    dg: Option<usize>,
}

impl SrvParams {
    fn apply(&self, t: &mut TransportConfig) {
        t.receive_window(VarInt::from_u32(self.rw));
        t.stream_receive_window(VarInt::from_u32(self.srw));
        t.max_concurrent_bidi_streams(VarInt::from_u32(self.bi));
        t.max_concurrent_uni_streams(VarInt::from_u32(self.uni));
        t.datagram_receive_buffer_size(self.dg);
        t.max_idle_timeout(Some(IdleTimeout::try_from(Duration::from_secs(600)).unwrap()));
    }
    /// the max_datagram_frame_size transport parameter this configuration advertises
    fn max_dgram_frame(&self) -> Option<u64> {
        self.dg.map(|x| x.min(u16::MAX as usize) as u64)
    }
    fn reduced_from(&self, old: &SrvParams) -> Vec<&'static str> {
        let mut v = Vec::new();
        if self.rw < old.rw {
            v.push("initial_max_data");
        }
        if self.srw < old.srw {
            v.push("initial_max_stream_data");
        }
        if self.bi < old.bi {
            v.push("initial_max_streams_bidi");
        }
        if self.uni < old.uni {
            v.push("initial_max_streams_uni");
        }
        if self.max_dgram_frame().unwrap_or(0) < old.max_dgram_frame().unwrap_or(0) {
            v.push("max_datagram_frame_size");
        }
        v
    }
}

#[derive(Clone, Copy, Debug, PartialEq, Eq)]
enum Mode {
    Same,
    AcceptLarger,
    AcceptSmaller,
    RejectFreshTls,
    RejectKeepSession,
}

fn tls_server(store: Arc<dyn rustls::server::StoresServerSessions>, early: bool) -> Arc<quinn_proto::crypto::rustls::QuicServerConfig> {
    let (cert, key) = cert_and_key();
    let mut tls = rustls::ServerConfig::builder_with_provider(Arc::new(rustls::crypto::ring::default_provider()))
        .with_protocol_versions(&[&rustls::version::TLS13])
        .unwrap()
        .with_no_client_auth()
        .with_single_cert(vec![cert], key)
        .unwrap();
    tls.max_early_data_size = if early { u32::MAX } else { 0 };
    tls.session_storage = store;
    let crypto: quinn_proto::crypto::rustls::QuicServerConfig = tls.try_into().unwrap();
    Arc::new(crypto)
}

fn quic_server(seed: u64, crypto: Arc<quinn_proto::crypto::rustls::QuicServerConfig>, t: TransportConfig, clock: &SimClock) -> ServerConfig {
    let mut mk = [0u8; 64];
    Rng::new(seed ^ 0x70ce).bytes(64).iter().enumerate().for_each(|(i, b)| mk[i] = *b);
    let prk = ring::hkdf::Salt::new(ring::hkdf::HKDF_SHA256, &[]).extract(&mk);
    let mut cfg = ServerConfig::new(crypto, Arc::new(prk));
    cfg.transport_config(Arc::new(t));
    cfg.time_source(Arc::new(clock.clone()));
    // a handshake that loses most of its first datagrams backs its PTO off beyond the default lifetime of a Retry token
    // (15 s): an expired token is a legitimate INVALID_TOKEN close, not what this scenario is about
    cfg.retry_token_lifetime(Duration::from_secs(600));
    cfg
}

#[derive(Clone, Copy, Debug, PartialEq, Eq)]
enum Kind {
    /// written and finished
    Fin,
    /// written early, finished only once the handshake has completed
    HoldFin,
    /// finished without a single byte
    EmptyFin,
    /// reset after `reset_at` bytes
    Reset,
    /// bidirectional; written and finished, the receive half is stopped by the application at once
    StopRecv,
    /// longer than the credit the client remembers: the early write blocks, the rest follows on Writable
    Limited,
}

#[derive(Clone, Debug)]
struct Plan {
    dir: Dir,
    kind: Kind,
    len: u64,
    reset_at: u64,
    chunk: usize,
}

#[derive(Clone, Debug, Default)]
struct SendSt {
    total: u64,
    chunk: usize,
    written: u64,
    hold: bool,
    reset_at: Option<u64>,
    finished: bool,
    fin_acked: bool,
    reset: Option<u64>,
    stopped: Option<u64>,
    kind: Option<Kind>,
}

#[derive(Clone, Debug, Default)]
struct RecvSt {
    data: Vec<u8>,
    fin: bool,
    reset: Option<u64>,
    stopped_by_us: bool,
    max_len: usize,
}

#[derive(Clone, Debug)]
enum Op {
    Open,
    Dgram(usize),
    RecvWin(u64),
    MaxConc(Dir, u64),
}

struct Side {
    node: usize,
    ch: Option<usize>,
    /// content salt of what this side writes now
    salt: u64,
    attempt: u8,
    plans: Vec<Plan>,
    next_plan: usize,
    send: BTreeMap<u64, SendSt>,
    recv: BTreeMap<u64, RecvSt>,
    dgram_lens: Vec<usize>,
    dgram_queue: Vec<usize>,
    /// (attempt, index) of every datagram the connection took
    dgram_sent: Vec<(u8, usize)>,
    dgram_recvd: Vec<Vec<u8>>,
    released: bool,
    rng: Rng,
    opened: Vec<u64>,
    events: u64,
}

fn dgram_payload(tag: u8, salt: u64, idx: usize, len: usize) -> Vec<u8> {
    let mut v = vec![tag, idx as u8];
    for i in 0..len.saturating_sub(2) {
        v.push(content_byte_s(salt, 1000 + idx as u64, i as u64));
    }
    v
}

impl Side {
    fn new(node: usize, salt: u64, seed: u64) -> Self {
        Self {
            node,
            ch: None,
            salt,
            attempt: 0,
            plans: Vec::new(),
            next_plan: 0,
            send: BTreeMap::new(),
            recv: BTreeMap::new(),
            dgram_lens: Vec::new(),
            dgram_queue: Vec::new(),
            dgram_sent: Vec::new(),
            dgram_recvd: Vec::new(),
            released: false,
            rng: Rng::new(seed ^ (0x7a11 + node as u64)),
            opened: Vec::new(),
            events: 0,
        }
    }

    fn dgram_tag(&self) -> u8 {
        if self.node == CLIENT {
            0xd0 + self.attempt
        } else {
            0xe0
        }
    }

    /// open the next plan if the connection lets us
    fn open_next(&mut self, sim: &mut Sim) -> bool {
        let Some(ch) = self.ch else { return false };
        if self.next_plan >= self.plans.len() {
            return false;
        }
        let p = self.plans[self.next_plan].clone();
        let Some(id) = sim.conn(self.node, ch).streams().open(p.dir) else { return false };
        self.next_plan += 1;
        let k = sid(id);
        self.opened.push(k);
        let st = SendSt {
            total: p.len,
            chunk: p.chunk,
            hold: p.kind == Kind::HoldFin && !self.released,
            reset_at: if p.kind == Kind::Reset { Some(p.reset_at.min(p.len)) } else { None },
            kind: Some(p.kind),
            ..Default::default()
        };
        self.send.insert(k, st);
        if p.dir == Dir::Bi {
            let max_len = *self.rng.pick(&[1usize, 13, 500, 4096, 100_000]);
            self.recv.insert(k, RecvSt { max_len, ..Default::default() });
            if p.kind == Kind::StopRecv {
                if sim.conn(self.node, ch).recv_stream(id).stop(VarInt::from_u32(STOP_CODE)).is_ok() {
                    self.recv.get_mut(&k).unwrap().stopped_by_us = true;
                }
            }
        }
        self.write_more(sim, id);
        true
    }

    fn open_more(&mut self, sim: &mut Sim) {
        while self.open_next(sim) {}
    }

    fn write_more(&mut self, sim: &mut Sim, id: StreamId) {
        let Some(ch) = self.ch else { return };
        let k = sid(id);
        let Some(mut st) = self.send.get(&k).cloned() else { return };
        if st.finished || st.reset.is_some() || st.stopped.is_some() {
            return;
        }
        let limit = st.reset_at.unwrap_or(st.total);
        let mut closed = false;
        while st.written < limit {
            let n = ((limit - st.written) as usize).min(st.chunk.max(1));
            let data = content_s(self.salt, k, st.written, n);
            match sim.conn(self.node, ch).send_stream(id).write(&data) {
                Ok(w) => {
                    if w == 0 || w > n {
                        sim.fail("write-returned-bad-count", format!("write of {n} returned {w}"));
                        break;
                    }
                    st.written += w as u64;
                }
                Err(WriteError::Blocked) => break,
                Err(WriteError::Stopped(c)) => {
                    st.stopped = Some(c.into_inner());
                    break;
                }
                Err(WriteError::ClosedStream) => {
                    closed = true;
                    break;
                }
            }
        }
        if st.written == limit && st.stopped.is_none() && !closed {
            if st.reset_at.is_some() {
                if sim.conn(self.node, ch).send_stream(id).reset(VarInt::from_u32(RESET_CODE)).is_ok() {
                    st.reset = Some(RESET_CODE as u64);
                }
            } else if !st.hold {
                match sim.conn(self.node, ch).send_stream(id).finish() {
                    Ok(()) => st.finished = true,
                    Err(FinishError::Stopped(c)) => st.stopped = Some(c.into_inner()),
                    Err(FinishError::ClosedStream) => {}
                }
            }
        }
        if st.stopped.is_some() {
            // the peer no longer wants the stream: give it up so that its state can be released
            let _ = sim.conn(self.node, ch).send_stream(id).reset(VarInt::from_u32(STOPPED_RESET_CODE));
        }
        self.send.insert(k, st);
    }

    fn read_more(&mut self, sim: &mut Sim, id: StreamId) {
        let Some(ch) = self.ch else { return };
        let k = sid(id);
        let Some(mut st) = self.recv.get(&k).cloned() else { return };
        if st.fin || st.reset.is_some() || st.stopped_by_us {
            return;
        }
        let mut fails: Vec<(&'static str, String)> = Vec::new();
        {
            let conn = sim.conn(self.node, ch);
            let mut rs = conn.recv_stream(id);
            let rd = rs.read(true);
            if let Ok(mut chunks) = rd {
                loop {
                    match chunks.next(st.max_len.max(1)) {
                        Ok(Some(c)) => {
                            if c.bytes.is_empty() {
                                fails.push(("empty-chunk", format!("stream {k}: empty chunk at {}", c.offset)));
                                break;
                            }
                            if c.offset != st.data.len() as u64 {
                                fails.push(("stream-data-gap-or-reorder", format!("stream {k}: ordered chunk at {}, expected {}", c.offset, st.data.len())));
                            }
                            st.data.extend_from_slice(&c.bytes);
                        }
                        Ok(None) => {
                            st.fin = true;
                            break;
                        }
                        Err(ReadError::Blocked) => break,
                        Err(ReadError::Reset(c)) => {
                            st.reset = Some(c.into_inner());
                            break;
                        }
                    }
                }
                let _ = chunks.finalize();
            }
        }
        for (key, w) in fails {
            sim.fail(key, format!("node {}: {w}", self.node));
        }
        self.recv.insert(k, st);
    }

    fn send_dgrams(&mut self, sim: &mut Sim) {
        let Some(ch) = self.ch else { return };
        while let Some(&idx) = self.dgram_queue.first() {
            let d = dgram_payload(self.dgram_tag(), self.salt, idx, self.dgram_lens[idx]);
            match sim.conn(self.node, ch).datagrams().send(Bytes::from(d), false) {
                Ok(()) => {
                    self.dgram_sent.push((self.attempt, idx));
                    self.dgram_queue.remove(0);
                }
                Err(SendDatagramError::Blocked(_)) => break,
                Err(_) => {
                    // too large for / not supported by this peer: the application gives this one up
                    self.dgram_queue.remove(0);
                }
            }
        }
    }

    /// the handshake is complete: streams kept open so far are finished now
    fn release(&mut self, sim: &mut Sim) {
        self.released = true;
        let ids: Vec<u64> = self.send.iter().filter(|(_, s)| s.hold).map(|(k, _)| *k).collect();
        for k in ids {
            self.send.get_mut(&k).unwrap().hold = false;
            self.write_more(sim, StreamId::from(VarInt::from_u64(k).unwrap()));
        }
    }

    /// act on pending application events; returns true if `Connected` was among them
    fn tick(&mut self, sim: &mut Sim, mut on_connected: impl FnMut(&mut Side, &mut Sim)) {
        let Some(ch) = self.ch else { return };
        if !sim.nodes[self.node].conns.contains_key(&ch) {
            return;
        }
        loop {
            let ev = sim.nodes[self.node].conns.get_mut(&ch).unwrap().app_events.pop_front();
            let Some(ev) = ev else { break };
            self.events += 1;
            match ev {
                Event::Connected => on_connected(self, sim),
                Event::Stream(StreamEvent::Available { .. }) => self.open_more(sim),
                Event::Stream(StreamEvent::Writable { id }) => self.write_more(sim, id),
                Event::Stream(StreamEvent::Finished { id }) => {
                    if let Some(s) = self.send.get_mut(&sid(id)) {
                        if s.fin_acked {
                            sim.fail("finished-event-twice", format!("node {} stream {} reported Finished twice", self.node, sid(id)));
                        }
                        if !s.finished {
                            sim.fail("finished-without-finish", format!("node {} stream {} reported Finished but finish() was never called", self.node, sid(id)));
                        }
                        s.fin_acked = true;
                    }
                }
                Event::Stream(StreamEvent::Stopped { id, error_code }) => {
                    if let Some(s) = self.send.get_mut(&sid(id)) {
                        if s.stopped.is_none() && !s.fin_acked {
                            s.stopped = Some(error_code.into_inner());
                            let _ = sim.conn(self.node, ch).send_stream(id).reset(VarInt::from_u32(STOPPED_RESET_CODE));
                        }
                    }
                }
                Event::Stream(StreamEvent::Opened { dir }) => loop {
                    let id = sim.conn(self.node, ch).streams().accept(dir);
                    let Some(id) = id else { break };
                    let max_len = *self.rng.pick(&[1usize, 13, 500, 4096, 100_000]);
                    self.recv.insert(sid(id), RecvSt { max_len, ..Default::default() });
                    if dir == Dir::Bi {
                        // a short answer on the reverse direction
                        let total = self.rng.below(120);
                        self.send.insert(sid(id), SendSt { total, chunk: 50, ..Default::default() });
                        self.write_more(sim, id);
                    }
                    self.read_more(sim, id);
                },
                Event::Stream(StreamEvent::Readable { id }) => self.read_more(sim, id),
                Event::DatagramReceived => {
                    while let Some(d) = sim.conn(self.node, ch).datagrams().recv() {
                        self.dgram_recvd.push(d.to_vec());
                    }
                }
                Event::DatagramsUnblocked => self.send_dgrams(sim),
                _ => {}
            }
        }
    }

    /// every obligation of this side's sending half is met (as far as this side and the peer application can tell)
    fn done(&self, peer: &Side) -> bool {
        if self.next_plan < self.plans.len() {
            return false;
        }
        for (k, s) in &self.send {
            if s.stopped.is_some() {
                continue;
            }
            let r = peer.recv.get(k);
            if r.is_some_and(|r| r.stopped_by_us) {
                continue;
            }
            if s.reset.is_some() {
                if !r.is_some_and(|r| r.reset.is_some()) {
                    return false;
                }
            } else if !(s.finished && s.fin_acked && r.is_some_and(|r| r.fin)) {
                return false;
            }
        }
        true
    }

    fn summary(&self) -> String {
        format!(
            "node{}: attempt {} opened {}/{} send {:?} recv {:?} dgrams sent {} recvd {} queued {}",
            self.node,
            self.attempt,
            self.next_plan,
            self.plans.len(),
            self.send.iter().map(|(k, v)| (*k, v.kind, v.written, v.total, v.finished, v.fin_acked, v.reset, v.stopped)).collect::<Vec<_>>(),
            self.recv.iter().map(|(k, v)| (*k, v.data.len(), v.fin, v.reset, v.stopped_by_us)).collect::<Vec<_>>(),
            self.dgram_sent.len(),
            self.dgram_recvd.len(),
            self.dgram_queue.len()
        )
    }
}

fn wake(sim: &mut Sim, at: u64) {
    let to = sim.nodes[SERVER].addr;
    let from = SocketAddr::new(IpAddr::V4(Ipv4Addr::new(192, 0, 2, 1)), 9);
    sim.push_wire(Dgram { at, seq: 0, from, to, ecn: None, data: Vec::new(), origin: usize::MAX, genuine: false });
}

// ---------------------------------------------------------------------------------------------------------------
// plaintext transmit log (`Connection::verif_txlog`): the retransmittable frames of a packet
// ---------------------------------------------------------------------------------------------------------------

#[derive(Clone, Debug, PartialEq, Eq)]
pub enum TxFrame {
    Stream { id: u64, off: u64, len: u64, fin: bool },
    ResetStream { id: u64 },
    StopSending { id: u64 },
    MaxData(u64),
    MaxStreamData { id: u64, off: u64 },
    MaxStreams { bi: bool, count: u64 },
    DataBlocked(u64),
    StreamDataBlocked { id: u64, off: u64 },
    StreamsBlocked { bi: bool, limit: u64 },
    Datagram { len: u64 },
}

fn num_after(s: &str, key: &str) -> Option<u64> {
    let i = s.find(key)? + key.len();
    let t: String = s[i..].chars().take_while(|c| c.is_ascii_digit()).collect();
    t.parse().ok()
}

/// length of a `Bytes` Debug literal starting right after `b"`; returns (decoded length, index after the closing quote)
fn bytes_literal_len(s: &[u8], mut i: usize) -> (u64, usize) {
    let mut n = 0u64;
    while i < s.len() {
        match s[i] {
            b'"' => return (n, i + 1),
            b'\\' => {
                if s.get(i + 1) == Some(&b'x') {
                    i += 4;
                } else {
                    i += 2;
                }
                n += 1;
            }
            _ => {
                i += 1;
                n += 1;
            }
        }
    }
    (n, i)
}

/// Frames of one txlog line (`"<space> <pn>: <frame:?> <frame:?> ..."`), STREAM / DATAGRAM payloads reduced to lengths.
pub fn parse_txlog_frames(line: &str) -> Vec<TxFrame> {
    let b = line.as_bytes();
    let mut out = Vec::new();
    let mut i = 0;
    let starts = |i: usize, p: &str| b[i..].starts_with(p.as_bytes());
    while i < b.len() {
        if starts(i, " Stream(Stream {") {
            // Stream(Stream { id: StreamId(2), offset: 0, fin: true, data: b"..." })
            let Some(dpos) = line[i..].find("data: b\"") else { break };
            let head = &line[i..i + dpos];
            let (len, end) = bytes_literal_len(b, i + dpos + 8);
            out.push(TxFrame::Stream { id: num_after(head, "StreamId(").unwrap_or(u64::MAX), off: num_after(head, "offset: ").unwrap_or(0), len, fin: head.contains("fin: true") });
            i = if b[end..].starts_with(b" })") { end + 3 } else { end };
        } else if starts(i, " Datagram(Datagram {") {
            let Some(dpos) = line[i..].find("data: b\"") else { break };
            let (len, end) = bytes_literal_len(b, i + dpos + 8);
            out.push(TxFrame::Datagram { len });
            i = if b[end..].starts_with(b" })") { end + 3 } else { end };
        } else if starts(i, " ") {
            // any other frame: up to the next " <Capital>" at nesting depth 0
            let mut j = i + 1;
            let mut depth = 0i32;
            while j < b.len() {
                match b[j] {
                    b'(' | b'{' | b'[' => depth += 1,
                    b')' | b'}' | b']' => depth -= 1,
                    b' ' if depth == 0 => break,
                    _ => {}
                }
                j += 1;
            }
            let f = &line[i + 1..j];
            let bi = f.contains("dir: Bi");
            if f.starts_with("ResetStream(") {
                out.push(TxFrame::ResetStream { id: num_after(f, "StreamId(").unwrap_or(u64::MAX) });
            } else if f.starts_with("StopSending(") {
                out.push(TxFrame::StopSending { id: num_after(f, "StreamId(").unwrap_or(u64::MAX) });
            } else if f.starts_with("MaxData(") {
                out.push(TxFrame::MaxData(num_after(f, "MaxData(").unwrap_or(0)));
            } else if f.starts_with("MaxStreamData") {
                out.push(TxFrame::MaxStreamData { id: num_after(f, "StreamId(").unwrap_or(u64::MAX), off: num_after(f, "offset: ").unwrap_or(0) });
            } else if f.starts_with("MaxStreams") {
                out.push(TxFrame::MaxStreams { bi, count: num_after(f, "count: ").unwrap_or(0) });
            } else if f.starts_with("DataBlocked") {
                out.push(TxFrame::DataBlocked(num_after(f, "offset: ").unwrap_or(0)));
            } else if f.starts_with("StreamDataBlocked") {
                out.push(TxFrame::StreamDataBlocked { id: num_after(f, "StreamId(").unwrap_or(u64::MAX), off: num_after(f, "offset: ").unwrap_or(0) });
            } else if f.starts_with("StreamsBlocked") {
                out.push(TxFrame::StreamsBlocked { bi, limit: num_after(f, "limit: ").unwrap_or(0) });
            }
            i = j;
        } else {
            i += 1;
        }
    }
    out
}

fn covered(ranges: &mut Vec<(u64, u64)>, a: u64, b: u64) -> bool {
    if a >= b {
        return true;
    }
    ranges.sort();
    let mut at = a;
    for (x, y) in ranges.iter() {
        if *x > at {
            break;
        }
        at = at.max(*y);
        if at >= b {
            return true;
        }
    }
    false
}

/// RFC 9000 13.3 applied to a Retry (17.2.5.2: the server has processed nothing of what was sent before it): every
/// retransmittable frame the client sent in 0-RTT packets before the Retry must be sent again after it, unless
/// something sent later supersedes it. `pre` / `post`: frames of Data-space packets before / after the Retry.
pub fn retry_lost_frames(pre: &[TxFrame], post: &[TxFrame]) -> Vec<String> {
    let mut lost = Vec::new();
    let mut ranges: BTreeMap<u64, Vec<(u64, u64)>> = BTreeMap::new();
    let mut fins: BTreeSet<u64> = BTreeSet::new();
    let mut resets: BTreeSet<u64> = BTreeSet::new();
    for f in post {
        match f {
            TxFrame::Stream { id, off, len, fin } => {
                ranges.entry(*id).or_default().push((*off, off + len));
                if *fin {
                    fins.insert(*id);
                }
            }
            TxFrame::ResetStream { id } => {
                resets.insert(*id);
            }
            _ => {}
        }
    }
    for f in pre {
        let ok = match f {
            TxFrame::Stream { id, off, len, fin } => resets.contains(id) || (covered(ranges.entry(*id).or_default(), *off, off + len) && (!*fin || fins.contains(id))),
            TxFrame::ResetStream { id } => resets.contains(id),
            TxFrame::StopSending { id } => post.iter().any(|g| matches!(g, TxFrame::StopSending { id: j } if j == id)),
            TxFrame::MaxData(v) => post.iter().any(|g| matches!(g, TxFrame::MaxData(w) if w >= v)),
            TxFrame::MaxStreamData { id, off } => post.iter().any(|g| matches!(g, TxFrame::MaxStreamData { id: j, off: w } if j == id && w >= off)),
            TxFrame::MaxStreams { bi, count } => post.iter().any(|g| matches!(g, TxFrame::MaxStreams { bi: b2, count: w } if b2 == bi && w >= count)),
            // blocked signals are repeated only while the sender is still blocked on that limit (13.3): a frame of
            // the same kind for the same scope, or data beyond the limit, shows it was (no longer) needed
            TxFrame::DataBlocked(_) | TxFrame::StreamDataBlocked { .. } | TxFrame::StreamsBlocked { .. } => true,
            TxFrame::Datagram { .. } => true,
        };
        if !ok {
            lost.push(format!("{f:?}"));
        }
    }
    lost
}

// ---------------------------------------------------------------------------------------------------------------

fn check_streams(sim: &mut Sim, receiver: &Side, sender: &Side, stale_salt: Option<u64>, early_ids: &[u64]) {
    let rejected = stale_salt.is_some();
    for (k, r) in &receiver.recv {
        let Some(s) = sender.send.get(k) else {
            if r.data.is_empty() && !r.fin && r.reset.is_none() && StreamId::from(VarInt::from_u64(*k).unwrap()).initiator() == crate::workload::side_of(receiver.node) {
                continue;
            }
            if rejected && early_ids.contains(k) {
                sim.fail("zero-rtt-rejected-data-visible", format!("node {}: stream {k} exists only in the rejected attempt, yet the application accepted it ({} bytes, fin {}, reset {:?})", receiver.node, r.data.len(), r.fin, r.reset));
            } else {
                sim.fail("stream-from-nowhere", format!("node {} accepted stream {k} the peer never opened", receiver.node));
            }
            continue;
        };
        for (o, b) in r.data.iter().enumerate() {
            let exp = content_byte_s(sender.salt, *k, o as u64);
            if *b != exp {
                if stale_salt.is_some_and(|st| *b == content_byte_s(st, *k, o as u64)) {
                    let n = r.data.iter().enumerate().filter(|(o, b)| **b == content_byte_s(stale_salt.unwrap(), *k, *o as u64)).count();
                    sim.fail("zero-rtt-rejected-data-visible", format!("node {}: stream {k}: byte at offset {o} (and {n} bytes in all) is content of the REJECTED attempt", receiver.node));
                } else {
                    sim.fail("stream-data-altered", format!("node {}: stream {k}: byte at offset {o} is {b} but {exp} was written", receiver.node));
                }
                break;
            }
        }
        if r.data.len() as u64 > s.written {
            sim.fail("more-read-than-written", format!("stream {k}: {} bytes read, {} written", r.data.len(), s.written));
        }
        if r.fin {
            if !s.finished {
                sim.fail("fin-without-finish", format!("stream {k}: end of stream reported but the sender never finished"));
            } else if r.data.len() as u64 != s.written {
                sim.fail("fin-before-all-data", format!("stream {k}: end of stream after {} bytes, {} were written before finish", r.data.len(), s.written));
            }
        }
        if let Some(c) = s.stopped {
            if !r.stopped_by_us {
                let key = if rejected { "zero-rtt-rejected-data-visible" } else { "stream-stopped-without-stop" };
                sim.fail(key, format!("node {}: stream {k}: the sender was told to stop (code {c}) but this application never stopped the stream{}", receiver.node, if rejected { " in the attempt that counts: a STOP_SENDING of the REJECTED attempt took effect" } else { "" }));
            }
        }
        if let Some(c) = r.reset {
            match s.reset {
                None if s.stopped.is_none() => sim.fail("reset-without-reset", format!("stream {k}: reader saw reset {c} but the sender never reset")),
                Some(c2) if c != c2 && s.stopped.is_none() => sim.fail("reset-code-altered", format!("stream {k}: reset code {c} != {c2}")),
                _ => {}
            }
        }
    }
}

fn check_dgrams(sim: &mut Sim, receiver: &Side, sender: &Side, salts: &[u64], rejected: bool) {
    let mut seen: BTreeSet<(u8, usize)> = BTreeSet::new();
    for d in &receiver.dgram_recvd {
        if d.len() < 2 {
            sim.fail("datagram-not-sent-or-duplicated", format!("node {} received a {}-byte datagram nobody sent", receiver.node, d.len()));
            continue;
        }
        let (attempt, idx) = if sender.node == CLIENT { (d[0].wrapping_sub(0xd0), d[1] as usize) } else { (0, d[1] as usize) };
        let known = sender.dgram_sent.contains(&(attempt, idx)) && salts.get(attempt as usize).is_some_and(|s| *d == dgram_payload(d[0], *s, idx, sender.dgram_lens[idx]));
        if !known {
            sim.fail("datagram-not-sent-or-duplicated", format!("node {} received a datagram of {} bytes (tag {:#x} index {idx}) that matches nothing the peer sent", receiver.node, d.len(), d[0]));
            continue;
        }
        if rejected && sender.node == CLIENT && attempt == 0 {
            sim.fail("zero-rtt-rejected-data-visible", format!("node {}: datagram {idx} ({} bytes) of the REJECTED attempt was delivered to the application", receiver.node, d.len()));
        }
        if !seen.insert((attempt, idx)) {
            sim.fail("datagram-not-sent-or-duplicated", format!("node {} received datagram {idx} of attempt {attempt} twice", receiver.node));
        }
    }
}

pub fn zrtt2(seed: u64, out: &mut Outcome) {
    let verbose = std::env::var("VERIF_SIM_VERBOSE").is_ok();
    let mut rng = Rng::new(seed ^ 0x2e77_0002);
    // ---- configurations
    let (mut tc, _) = random_transport(&mut rng);
    let w0: u32 = *rng.pick(&[1000u32, 5000, 20_000, 1_250_000]);
    let sw0: u32 = *rng.pick(&[500u32, 3000, 20_000, 1_000_000]);
    let lim_c: [u32; 2] = [*rng.pick(&[0u32, 1, 3, 100]), *rng.pick(&[0u32, 1, 3, 100])];
    tc.receive_window(VarInt::from_u32(w0));
    tc.stream_receive_window(VarInt::from_u32(sw0));
    tc.max_concurrent_bidi_streams(VarInt::from_u32(lim_c[0]));
    tc.max_concurrent_uni_streams(VarInt::from_u32(lim_c[1]));
    let dg_c: Option<usize> = *rng.pick(&[None, Some(2000usize), Some(100_000), Some(100_000)]);
    tc.datagram_receive_buffer_size(dg_c);
    tc.datagram_send_buffer_size(*rng.pick(&[1500usize, 20_000, 1_000_000]));
    tc.max_idle_timeout(Some(IdleTimeout::try_from(Duration::from_secs(600)).unwrap()));
    let p1 = SrvParams {
        rw: *rng.pick(&[3000u32, 20_000, 200_000, 1_000_000]),
        srw: *rng.pick(&[1000u32, 5000, 50_000, 500_000]),
        bi: *rng.pick(&[1u32, 2, 4, 100]),
        uni: *rng.pick(&[1u32, 2, 4, 100]),
        dg: *rng.pick(&[Some(100_000usize), Some(100_000), Some(100_000), Some(1300), None]),
    };
    let (mut ts1, _) = random_transport(&mut rng);
    p1.apply(&mut ts1);
    let mode = match rng.below(100) {
        0..=29 => Mode::Same,
        30..=44 => Mode::AcceptLarger,
        45..=54 => Mode::AcceptSmaller,
        55..=79 => Mode::RejectFreshTls,
        _ => Mode::RejectKeepSession,
    };
    let use_retry = rng.chance(1, 3);
    let accept_delay = *rng.pick(&[0u64, 0, 0, 2_000_000, 50_000_000, 400_000_000, 1_500_000_000]);
    // ---- endpoints
    let clock = SimClock(Arc::new(Mutex::new(std::time::UNIX_EPOCH + Duration::from_secs(1_700_000_000))));
    let store1: Arc<dyn rustls::server::StoresServerSessions> = rustls::server::ServerSessionMemoryCache::new(256);
    let crypto1 = tls_server(store1.clone(), true);
    let scfg1 = quic_server(seed, crypto1.clone(), ts1, &clock);
    let server = Endpoint::new(Arc::new(endpoint_config(seed ^ 1, 8, None)), Some(Arc::new(scfg1)), true);
    let client = Endpoint::new(Arc::new(endpoint_config(seed ^ 2, 8, None)), None, true);
    let mut sim = Sim::new(seed, client, server, clock.clone());
    let ccfg = client_config(seed, tc);
    sim.net.latency_ns = *rng.pick(&[1_000_000u64, 10_000_000]);
    // ---- first connection: get a ticket
    let c1 = sim.connect(ccfg.clone());
    sim.time_cap = Some(400_000_000);
    let _ = sim.run_until(5_000_000_000, 20_000, |sim| sim.now > 300_000_000 && sim.nodes[CLIENT].conns[&c1].obs.confirmed);
    let got_ticket = sim.nodes[CLIENT].conns[&c1].obs.confirmed;
    let now = sim.t();
    sim.conn(CLIENT, c1).close(now, VarInt::from_u32(0), Bytes::new());
    sim.time_cap = Some(sim.now + 5_000_000_000);
    let _ = sim.run_until(sim.now + 5_000_000_000, 20_000, |_| false);
    sim.time_cap = None;
    for n in 0..2 {
        for c in sim.nodes[n].conns.values_mut() {
            c.removed = true;
        }
    }
    sim.nodes[SERVER].accepted.clear();
    sim.fails.clear();
    sim.trace.clear();
    // ---- the server of the second connection
    let pick_new = |rng: &mut Rng| SrvParams {
        rw: *rng.pick(&[2000u32, 10_000, 1_000_000]),
        srw: *rng.pick(&[1000u32, 5000, 500_000]),
        bi: *rng.pick(&[1u32, 2, 100]),
        uni: *rng.pick(&[1u32, 2, 100]),
        dg: *rng.pick(&[None, Some(500usize), Some(100_000), Some(100_000)]),
    };
    let p2 = match mode {
        Mode::Same => p1,
        Mode::AcceptLarger => SrvParams {
            rw: p1.rw.saturating_mul(*rng.pick(&[1u32, 4])),
            srw: p1.srw.saturating_mul(*rng.pick(&[1u32, 4])),
            bi: p1.bi + *rng.pick(&[0u32, 1, 5]),
            uni: p1.uni + *rng.pick(&[0u32, 1, 5]),
            dg: p1.dg,
        },
        Mode::AcceptSmaller => {
            let mut p = p1;
            loop {
                if rng.chance(1, 3) {
                    p.rw = (p1.rw / 4).max(500);
                }
                if rng.chance(1, 3) {
                    p.srw = (p1.srw / 4).max(200);
                }
                if rng.chance(1, 4) && p1.bi > 1 {
                    p.bi = p1.bi / 2;
                }
                if rng.chance(1, 4) && p1.uni > 1 {
                    p.uni = p1.uni / 2;
                }
                if rng.chance(1, 4) && p1.dg.is_some() {
                    p.dg = *rng.pick(&[None, Some(300usize)]);
                }
                if !p.reduced_from(&p1).is_empty() {
                    break p;
                }
            }
        }
        Mode::RejectFreshTls | Mode::RejectKeepSession => pick_new(&mut rng),
    };
    if mode != Mode::Same {
        let (mut ts2, _) = random_transport(&mut rng);
        p2.apply(&mut ts2);
        let crypto2 = match mode {
            Mode::AcceptLarger | Mode::AcceptSmaller => crypto1.clone(),
            Mode::RejectFreshTls => tls_server(rustls::server::ServerSessionMemoryCache::new(256), true),
            _ => tls_server(store1.clone(), false),
        };
        let scfg2 = quic_server(seed, crypto2, ts2, &clock);
        sim.nodes[SERVER].ep.set_server_config(Some(Arc::new(scfg2)));
    }
    let reject_configured = matches!(mode, Mode::RejectFreshTls | Mode::RejectKeepSession);
    sim.nodes[SERVER].policy = IncomingPolicy::Hold;
    sim.net = random_net(&mut rng);
    sim.net.path_mtu = sim.net.path_mtu.max(1400);
    sim.net.corrupt_permille = 0;
    sim.net.truncate_permille = 0;
    sim.record_plain = true;
    sim.route_log = Some(Vec::new());
    let drop_mask = if rng.chance(1, 4) { 0 } else { rng.below(256) };
    let counter = std::rc::Rc::new(std::cell::Cell::new(0u64));
    let c2 = counter.clone();
    sim.wire_filter = Some(Box::new(move |_d: &mut Dgram, _r: &mut Rng| {
        let i = c2.get();
        c2.set(i + 1);
        !(i < 8 && (drop_mask >> i) & 1 == 1)
    }));
    // ---- workloads
    let salt0 = 1 + rng.below(100);
    let salt1 = salt0 + 1 + rng.below(100);
    let salt_s = 210 + rng.below(40);
    let mut cl = Side::new(CLIENT, salt0, seed);
    let mut sv = Side::new(SERVER, salt_s, seed);
    let kinds = [Kind::Fin, Kind::Fin, Kind::HoldFin, Kind::EmptyFin, Kind::Reset, Kind::StopRecv, Kind::Limited];
    let npc = 1 + rng.below(6) as usize;
    for _ in 0..npc {
        let kind = *rng.pick(&kinds);
        let dir = if kind == Kind::StopRecv || rng.chance(1, 2) { Dir::Bi } else { Dir::Uni };
        let len = match kind {
            Kind::EmptyFin => 0,
            Kind::Limited => (p1.srw as u64).min(p1.rw as u64) + rng.range(1, 20_000),
            _ => match rng.below(3) {
                0 => rng.below(50),
                1 => rng.below(3000),
                _ => rng.below(30_000),
            },
        };
        cl.plans.push(Plan { dir, kind, len, reset_at: rng.below(len + 1), chunk: *rng.pick(&[1usize, 7, 100, 1200, 5000, 70_000]) });
    }
    // what the client application does about its own receive limits before the handshake completes
    let mut script: Vec<Op> = (0..npc).map(|_| Op::Open).collect();
    let ndg = if p1.dg.is_some() && rng.chance(2, 3) { rng.below(21) as usize } else { 0 };
    for i in 0..ndg {
        cl.dgram_lens.push(*rng.pick(&[2usize, 10, 300, 1000, 1100]) + rng.below(60) as usize);
        script.push(Op::Dgram(i));
    }
    let mut lim_c_final = lim_c;
    let mut w1: Option<u64> = None;
    if rng.chance(1, 2) {
        let v = match rng.below(5) {
            0 => w0 as u64 / 2,
            1 => w0 as u64 * 2,
            2 => w0 as u64 * 10,
            _ => w0 as u64 * 20,
        };
        w1 = Some(v);
        script.push(Op::RecvWin(v));
    }
    for (d, dir) in [(0usize, Dir::Bi), (1, Dir::Uni)] {
        if rng.chance(1, 3) {
            let v = match lim_c[d] {
                0 | 1 => *rng.pick(&[1u64, 3, 5]),
                n => *rng.pick(&[n as u64 + 1, n as u64 + 10, (n / 2) as u64]),
            };
            lim_c_final[d] = v as u32;
            script.push(Op::MaxConc(dir, v));
        }
    }
    // random interleaving that keeps the order of the Open ops
    for i in (1..script.len()).rev() {
        let j = rng.below(i as u64 + 1) as usize;
        script.swap(i, j);
    }
    let phase_b = if rng.chance(1, 2) { script.len() } else { rng.below(script.len() as u64 + 1) as usize };
    // server: streams and datagrams started at accept; plans the client's (final) limits can never admit are dropped
    let nps = rng.below(4) as usize;
    for _ in 0..nps {
        let dir = if rng.chance(1, 2) { Dir::Bi } else { Dir::Uni };
        let len = match rng.below(3) {
            0 => rng.below(50),
            1 => rng.below(3000),
            _ => rng.below(40_000),
        };
        sv.plans.push(Plan { dir, kind: Kind::Fin, len, reset_at: 0, chunk: *rng.pick(&[7usize, 100, 1200, 5000, 70_000]) });
    }
    let di = |d: Dir| if d == Dir::Bi { 0 } else { 1 };
    sv.plans.retain(|p| lim_c_final[di(p.dir)] > 0);
    if dg_c.is_some() && rng.chance(1, 2) {
        for _ in 0..rng.below(6) {
            sv.dgram_lens.push(*rng.pick(&[2usize, 10, 300, 1000]) + rng.below(60) as usize);
        }
        sv.dgram_queue = (0..sv.dgram_lens.len()).collect();
    }
    // ---- second connection
    let cch = sim.connect(ccfg);
    cl.ch = Some(cch);
    let had_0rtt = sim.conn(CLIENT, cch).has_0rtt();
    let run_op = |cl: &mut Side, sim: &mut Sim, op: &Op| match op {
        Op::Open => {
            cl.open_next(sim);
        }
        Op::Dgram(i) => {
            cl.dgram_queue.push(*i);
            cl.send_dgrams(sim);
        }
        Op::RecvWin(v) => sim.conn(CLIENT, cch).set_receive_window(VarInt::from_u64(*v).unwrap()),
        Op::MaxConc(d, v) => sim.conn(CLIENT, cch).set_max_concurrent_streams(*d, VarInt::from_u64(*v).unwrap()),
    };
    let mut script_pos = 0;
    if had_0rtt {
        while script_pos < phase_b {
            run_op(&mut cl, &mut sim, &script[script_pos]);
            script_pos += 1;
        }
    }
    let early_written_a: u64 = cl.send.values().map(|s| s.written).sum();
    // bookkeeping shared with the run loop
    let mut retry_sent = false;
    let mut retry_plain_idx: Option<usize> = None;
    let mut plain_len_at_tick = sim.plain.len();
    let mut route_seen = 0usize;
    let mut pending_accept: Vec<(u64, quinn_proto::Incoming)> = Vec::new();
    let mut early_ids: Vec<u64> = Vec::new();
    let mut rejected_seen = false;
    let mut early_tx_bytes = 0u64;
    let mut stale_dgram_in_queue = 0usize;
    let mut rejected_plain_idx: Option<usize> = None;
    let end = sim.run_until(3_000_000_000_000, 300_000, |sim| {
        // a Retry reached the client in this step: everything the log holds from the start of the step on was
        // transmitted after it
        if let Some(rl) = sim.route_log.as_ref() {
            for r in &rl[route_seen..] {
                if r.node == CLIENT && r.data.len() > 5 && r.data[0] & 0xf0 == 0xf0 && r.data[1..5] != [0, 0, 0, 0] && retry_plain_idx.is_none() {
                    retry_plain_idx = Some(plain_len_at_tick);
                }
            }
            route_seen = rl.len();
        }
        if sim.route_log.as_ref().is_some_and(|rl| rl.len() > 50_000) {
            sim.route_log.as_mut().unwrap().clear();
            route_seen = 0;
        }
        // connection attempts the server application holds
        for (_node, _t, inc) in std::mem::take(&mut sim.held) {
            if sv.ch.is_some() {
                sim.nodes[SERVER].ep.ignore(inc);
                continue;
            }
            if use_retry && inc.may_retry() {
                let mut buf = Vec::new();
                match sim.nodes[SERVER].ep.retry(inc, &mut buf) {
                    Ok(t) => {
                        retry_sent = true;
                        let from = sim.nodes[SERVER].addr;
                        sim.send_wire(SERVER, from, t.destination, t.ecn, buf[..t.size].to_vec());
                    }
                    Err(e) => sim.nodes[SERVER].ep.ignore(e.into_incoming()),
                }
                continue;
            }
            if !pending_accept.is_empty() {
                sim.nodes[SERVER].ep.ignore(inc);
                continue;
            }
            let due = sim.now + accept_delay;
            if accept_delay > 0 {
                wake(sim, due);
            }
            pending_accept.push((due, inc));
        }
        if pending_accept.first().is_some_and(|(due, _)| *due <= sim.now) {
            let (_, inc) = pending_accept.remove(0);
            let mut buf = Vec::new();
            let now = sim.t();
            match sim.nodes[SERVER].ep.accept(inc, now, &mut buf, None) {
                Ok((ch, mut conn)) => {
                    conn.verif_txlog_enable();
                    sim.nodes[SERVER].conns.insert(ch.0, NodeConn { conn, events: Default::default(), app_events: Default::default(), obs: ConnObs::default(), removed: false });
                    sim.nodes[SERVER].accepted.push(ch.0);
                    sv.ch = Some(ch.0);
                    // 0.5-RTT: the server application does not wait for the handshake to complete
                    sv.released = true;
                    sv.open_more(sim);
                    sv.send_dgrams(sim);
                }
                Err(e) => {
                    sim.nodes[SERVER].accept_errors.push(format!("{:?}", e.cause));
                    if let Some(t) = e.response {
                        let from = sim.nodes[SERVER].addr;
                        sim.send_wire(SERVER, from, t.destination, t.ecn, buf[..t.size].to_vec());
                    }
                }
            }
        }
        // the second part of the early script: after the first flight has left, before the handshake completes
        if had_0rtt && script_pos < script.len() && sim.nodes[CLIENT].conns[&cch].obs.tx_datagrams > 0 && sim.conn(CLIENT, cch).is_handshaking() {
            while script_pos < script.len() {
                run_op(&mut cl, sim, &script[script_pos]);
                script_pos += 1;
            }
        }
        if sim.conn(CLIENT, cch).is_handshaking() {
            early_tx_bytes = sim.nodes[CLIENT].conns[&cch].obs.tx_bytes;
        }
        cl.tick(sim, |cl, sim| {
            let accepted = sim.conn(CLIENT, cch).accepted_0rtt();
            if had_0rtt && !accepted {
                rejected_seen = true;
                rejected_plain_idx = Some(plain_len_at_tick);
                early_ids = cl.opened.clone();
                // C17: the client's early streams report the rejection
                for k in &early_ids {
                    let id = StreamId::from(VarInt::from_u64(*k).unwrap());
                    let r = sim.conn(CLIENT, cch).send_stream(id).write(b"x");
                    if !matches!(r, Err(WriteError::ClosedStream)) {
                        sim.fail("zero-rtt-early-stream-not-reported", format!("after the rejection a write on early stream {k} returned {r:?} instead of ClosedStream"));
                    }
                }
                // ... and the connection is like a fresh one: limits are the new server's, nothing counts as sent
                let s = sim.snap(CLIENT, cch).streams;
                if s.next != [0, 0] || s.data_sent != 0 || s.unacked_data != 0 || s.send_streams != 0 || s.max_data != p2.rw as u64 || s.max != [p2.bi as u64, p2.uni as u64] {
                    sim.fail("zero-rtt-rejected-limits-not-fresh", format!("after the rejection: next stream indices {:?} (want [0, 0]), data_sent {} unacked {} send_streams {} (want 0), max_data {} (new server: {}), max streams {:?} (new server: [{}, {}])", s.next, s.data_sent, s.unacked_data, s.send_streams, s.max_data, p2.rw, s.max, p2.bi, p2.uni));
                }
                stale_dgram_in_queue = sim.snap(CLIENT, cch).dgram_out_len;
                // the application starts over
                cl.attempt = 1;
                cl.salt = salt1;
                cl.next_plan = 0;
                // ... with the plans in another order, so that the same stream id now carries a stream of another kind:
                // a control frame of the rejected attempt (RESET_STREAM, STOP_SENDING, ...) that is still sent hits a
                // stream that was never reset / stopped in this attempt
                if cl.plans.len() > 1 {
                    cl.plans.rotate_left(1);
                }
                cl.send.clear();
                cl.recv.clear();
                cl.opened.clear();
                cl.dgram_queue = (0..cl.dgram_lens.len()).collect();
                cl.released = true;
                cl.open_more(sim);
                if let (Some(first), Some(e)) = (cl.opened.first(), early_ids.first()) {
                    // the first stream of a direction gets index 0 again
                    let idx = first >> 2;
                    if idx != 0 {
                        sim.fail("zero-rtt-numbering-not-restarted", format!("first stream opened after the rejection has id {first} (index {idx}); the rejected attempt started with id {e}"));
                    }
                }
            } else {
                if accepted && matches!(mode, Mode::AcceptLarger) {
                    let s = sim.snap(CLIENT, cch).streams;
                    if s.max_data < p2.rw as u64 || s.max[0] < p2.bi as u64 || s.max[1] < p2.uni as u64 {
                        sim.fail("zero-rtt-accepted-limits-not-raised", format!("0-RTT accepted with larger parameters, but the client's limits are max_data {} (server: {}), max streams {:?} (server: [{}, {}])", s.max_data, p2.rw, s.max, p2.bi, p2.uni));
                    }
                }
                cl.release(sim);
                cl.open_more(sim);
            }
            cl.send_dgrams(sim);
        });
        if script_pos < script.len() && !sim.conn(CLIENT, cch).is_handshaking() {
            // the handshake was faster than the script (or there were no 0-RTT keys): the rest are plain run-time calls
            while script_pos < script.len() {
                run_op(&mut cl, sim, &script[script_pos]);
                script_pos += 1;
            }
        }
        sv.tick(sim, |_, _| {});
        plain_len_at_tick = sim.plain.len();
        let lost = !sim.nodes[CLIENT].conns[&cch].obs.lost.is_empty() || sv.ch.is_some_and(|s| !sim.nodes[SERVER].conns[&s].obs.lost.is_empty());
        lost || (sv.ch.is_some() && script_pos == script.len() && sim.nodes[CLIENT].conns[&cch].obs.connected && cl.done(&sv) && sv.done(&cl))
    });
    for (_, inc) in pending_accept.drain(..) {
        sim.nodes[SERVER].ep.ignore(inc);
    }
    for (_, _, inc) in std::mem::take(&mut sim.held) {
        sim.nodes[SERVER].ep.ignore(inc);
    }
    // ---- verdicts
    let accepted = sim.conn(CLIENT, cch).accepted_0rtt();
    let connected = sim.nodes[CLIENT].conns[&cch].obs.connected;
    let lost_c = sim.nodes[CLIENT].conns[&cch].obs.lost.clone();
    let lost_s: Vec<String> = sv.ch.map(|s| sim.nodes[SERVER].conns[&s].obs.lost.clone()).unwrap_or_default();
    let rejected = had_0rtt && connected && !accepted;
    let early_written: u64 = early_written_a;
    let ctx = format!("mode {mode:?}, remembered {p1:?}, new {p2:?}, client rw {w0} -> {w1:?}, client stream limits {lim_c:?} -> {lim_c_final:?}, retry sent {retry_sent}, accept delay {} ms, drop mask {drop_mask:#010b}, 0-RTT keys {had_0rtt}, accepted {accepted}", accept_delay / 1_000_000);
    let mut consequences_only = false;
    // The recorded finding is this CONFIGURATION (TLS session state kept, parameters reduced) together with the evidence
    // that the server did accept early data; what it excuses is only what its text lists: the server's FLOW_CONTROL_ERROR /
    // STREAM_LIMIT_ERROR / PROTOCOL_VIOLATION on early data, or the client's PROTOCOL_VIOLATION("0-RTT accepted with
    // incompatible transport parameters"), and the peer's view of that close.  Any other report in such an execution (another
    // error code, a reset, a timeout), and every oracle of an execution that stays alive, is judged as usual.
    let listed_consequence = |l: &String| {
        (l.contains("TransportError") || l.contains("ConnectionClosed"))
            && (l.contains("FLOW_CONTROL_ERROR") || l.contains("STREAM_LIMIT_ERROR") || l.contains("PROTOCOL_VIOLATION"))
    };
    let server_listed_error = lost_s.iter().any(|l| l.contains("TransportError") && listed_consequence(l));
    if mode == Mode::AcceptSmaller && (accepted || (server_listed_error && !connected) || lost_c.iter().any(|l| l.contains("incompatible transport parameters"))) {
        // RFC 9000 7.4.1: "A server MUST NOT accept 0-RTT ... if [the remembered values are] reduced": what follows
        // (the server's FLOW_CONTROL_ERROR / STREAM_LIMIT_ERROR / PROTOCOL_VIOLATION on the early data it chose to
        // process, or the client's PROTOCOL_VIOLATION on the handshake) is a consequence of this
        sim.fail("zero-rtt-accepted-with-reduced-parameters", format!("the server accepted 0-RTT although it reduced {:?} below the values it sent with the ticket ({ctx}); outcome: client {lost_c:?} server {lost_s:?}", p2.reduced_from(&p1)));
        consequences_only = !(lost_c.is_empty() && lost_s.is_empty()) && lost_c.iter().chain(lost_s.iter()).all(listed_consequence);
    }
    if accepted && reject_configured {
        sim.fail("zero-rtt-accepted-by-a-server-that-lost-its-state", format!("client reports accepted_0rtt although the server cannot have accepted early data ({ctx})"));
    }
    let alive = lost_c.is_empty() && lost_s.is_empty();
    let complete = sv.ch.is_some() && cl.done(&sv) && sv.done(&cl);
    // credit the client put on the wire in 0-RTT packets that the server never processed (rejection: all of them;
    // Retry: those before it): RFC 9000 13.3 wants the current value sent again, so the server must end up with it
    let pfx = format!("n{CLIENT} c{cch} 2 ");
    let frames = |lines: &[String]| -> Vec<TxFrame> { lines.iter().filter_map(|l| l.strip_prefix(&pfx)).flat_map(|l| parse_txlog_frames(&l[l.find(':').map_or(0, |i| i + 1)..])).collect() };
    let unprocessed: Vec<TxFrame> = if rejected {
        frames(&sim.plain[..rejected_plain_idx.unwrap_or(0).min(sim.plain.len())])
    } else if let (true, Some(idx)) = (accepted, retry_plain_idx) {
        frames(&sim.plain[..idx.min(sim.plain.len())])
    } else {
        Vec::new()
    };
    let announced_data = unprocessed.iter().filter_map(|f| if let TxFrame::MaxData(v) = f { Some(*v) } else { None }).max();
    let announced_streams = |bi: bool| unprocessed.iter().filter_map(|f| match f { TxFrame::MaxStreams { bi: b, count } if *b == bi => Some(*count), _ => None }).max();
    let sv_ch = sv.ch;
    let credit_gap = |sim: &Sim| -> Vec<String> {
        let mut v = Vec::new();
        let Some(sch) = sv_ch else { return v };
        let ss = sim.snap(SERVER, sch).streams;
        if let Some(a) = announced_data {
            if ss.max_data < a {
                v.push(format!("MAX_DATA({a}) was sent in 0-RTT, the server's connection send limit is still {}", ss.max_data));
            }
        }
        for (d, bi) in [(0usize, true), (1, false)] {
            if let Some(a) = announced_streams(bi) {
                if ss.max[d] < a {
                    v.push(format!("MAX_STREAMS({}, {a}) was sent in 0-RTT, the server may still open only {}", if bi { "bidi" } else { "uni" }, ss.max[d]));
                }
            }
        }
        v
    };
    let credit_key = if rejected { "zero-rtt-rejected-credit-update-lost" } else { "zero-rtt-retry-lost-frame" };
    let mut stalled_on_credit = false;
    if !consequences_only && connected && sv.ch.is_some() && !complete {
        // a stall (possibly ended by the idle timeout) while the server waits for credit it was never told about
        let only_timeouts = lost_c.iter().chain(lost_s.iter()).all(|l| l.contains("TimedOut"));
        let gap = credit_gap(&sim);
        let ss = sim.snap(SERVER, sv.ch.unwrap()).streams;
        let server_waits = (ss.data_sent >= ss.max_data && sv.send.values().any(|s| s.written < s.total)) || sv.next_plan < sv.plans.len();
        if only_timeouts && !gap.is_empty() && server_waits {
            stalled_on_credit = true;
            sim.fail(credit_key, format!("the connection stalled (run ended {end:?}, client {lost_c:?} server {lost_s:?}): the server application waits for credit the client application granted before the handshake completed ({w1:?} / {lim_c_final:?}): {}; the frames went with the 0-RTT packets the server never processed and were never sent again ({ctx}); {} ; {}", gap.join("; "), cl.summary(), sv.summary()));
        }
    }
    if !alive && !consequences_only && !stalled_on_credit {
        let all = format!("{lost_c:?}{lost_s:?}");
        let k = if all.contains("DATAGRAM") || all.contains("datagram") {
            "zero-rtt-rejected-datagram-exceeds-new-limit"
        } else if all.contains("FLOW_CONTROL") {
            "flow-control-error-between-honest-peers"
        } else if all.contains("STREAM_LIMIT") {
            "flow-stream-limit-error-between-honest-peers"
        } else {
            "connection-lost-under-fair-loss"
        };
        sim.fail(k, format!("client {lost_c:?} server {lost_s:?} ({ctx}; {} datagrams queued during 0-RTT were still unsent when the rejection was known, new max_datagram_frame_size {:?})", stale_dgram_in_queue, p2.max_dgram_frame()));
    }
    if alive && !consequences_only && (!connected || sv.ch.is_none()) {
        sim.fail("handshake-never-completed", format!("run ended {end:?} ({ctx})"));
    }
    if !consequences_only {
        let stale = if rejected { Some(salt0) } else { None };
        check_streams(&mut sim, &sv, &cl, stale, &early_ids);
        check_streams(&mut sim, &cl, &sv, None, &[]);
        check_dgrams(&mut sim, &sv, &cl, &[salt0, salt1], rejected);
        check_dgrams(&mut sim, &cl, &sv, &[salt_s], false);
    }
    if alive && connected && sv.ch.is_some() && !consequences_only && !complete && !stalled_on_credit {
        sim.fail("workload-incomplete", format!("run ended {end:?} ({ctx}); {} ; {}", cl.summary(), sv.summary()));
    }
    // across a Retry: what was sent in 0-RTT before it is sent again
    let mut retry_frames = 0usize;
    if let Some(idx) = retry_plain_idx {
        // (a stall that ended in idle timeouts is judged too: the missing frame is what explains it)
        let only_timeouts = lost_c.iter().chain(lost_s.iter()).all(|l| l.contains("TimedOut"));
        if accepted && (alive || only_timeouts) && !consequences_only {
            let pre = frames(&sim.plain[..idx.min(sim.plain.len())]);
            let post = frames(&sim.plain[idx.min(sim.plain.len())..]);
            retry_frames = pre.len();
            let lost = retry_lost_frames(&pre, &post);
            if !lost.is_empty() && (complete || end != RunEnd::Done) {
                sim.fail("zero-rtt-retry-lost-frame", format!("sent in 0-RTT before the Retry and never again afterwards: {} ({ctx}; {} frames before the Retry, {} after)", lost.join(", "), pre.len(), post.len()));
            }
        }
    }
    // end state after everything settled on a clean network
    if alive && complete && end == RunEnd::Done && !consequences_only {
        sim.net.drop_permille = 0;
        let t_end = sim.now + 10_000_000_000;
        sim.time_cap = Some(t_end);
        let _ = sim.run_until(t_end, 100_000, |sim| {
            cl.tick(sim, |_, _| {});
            sv.tick(sim, |_, _| {});
            false
        });
        sim.time_cap = None;
        let cs = sim.snap(CLIENT, cch);
        let ss = sim.snap(SERVER, sv.ch.unwrap());
        if cs.state == "established" && ss.state == "established" {
            for (node, s, side) in [(CLIENT, &cs, &cl), (SERVER, &ss, &sv)] {
                if s.streams.send_streams != 0 {
                    sim.fail("zero-rtt-send-streams-not-released", format!("node {node}: every stream was finished / reset and read by the peer, yet {} send streams are still held ({ctx}); {}", s.streams.send_streams, side.summary()));
                }
            }
            // the credit the client announced in packets the server never processed has reached the server
            let gap = credit_gap(&sim);
            if !gap.is_empty() {
                sim.fail(credit_key, format!("{} ({ctx})", gap.join("; ")));
            }
        }
    }
    out.runs += 1;
    out.evaluations += sim.steps;
    let early_sent = had_0rtt && early_tx_bytes > 1200 && (early_written > 0 || !cl.dgram_sent.is_empty() || rejected_seen);
    if early_sent {
        out.nontrivial += 1;
    }
    out.count(&format!("end:{end:?}"), 1);
    out.count(&format!("mode:{mode:?}"), 1);
    out.count(if had_0rtt { "had-0rtt-keys" } else { "no-0rtt-keys" }, 1);
    out.count(if accepted { "0rtt-accepted" } else { "0rtt-not-accepted" }, 1);
    out.count("rejected-and-restarted", rejected_seen as u64);
    out.count("retry-sent", retry_sent as u64);
    out.count("first-connection-confirmed", got_ticket as u64);
    out.count("retry-reached-client", retry_plain_idx.is_some() as u64);
    out.count("frames-in-0rtt-before-retry", retry_frames as u64);
    out.count("late-accept", (accept_delay > 0) as u64);
    out.count("early-bytes-written", early_written);
    out.count("early-script-second-part", (phase_b < script.len()) as u64);
    out.count("stale-datagrams-at-rejection", stale_dgram_in_queue as u64);
    out.count("server-datagrams-received", sv.dgram_recvd.len() as u64);
    for p in &cl.plans {
        out.count(&format!("plan:{:?}", p.kind), 1);
    }
    if out.samples.len() < 3 {
        out.samples.push(format!("seed {seed}: {ctx}, script {:?} (second part from {phase_b}), plans {:?}, end {end:?} at {} ms", script, cl.plans.iter().map(|p| (p.kind, p.dir, p.len)).collect::<Vec<_>>(), sim.now / 1_000_000));
    }
    if verbose {
        eprintln!("CTX {ctx}");
        eprintln!("script {script:?} phase_b {phase_b}\nclient plans {:?}\nserver plans {:?}", cl.plans, sv.plans);
        eprintln!("{}\n{}", cl.summary(), sv.summary());
        eprintln!("retry idx {retry_plain_idx:?} end {end:?} t={} ms", sim.now / 1_000_000);
        if std::env::var("VERIF_SIM_VERBOSE").is_ok_and(|v| v == "2") {
            for (i, l) in sim.plain.iter().enumerate() {
                let l: String = l.chars().take(400).collect();
                eprintln!("PLAIN {i} {l}");
            }
            for r in sim.trace.iter().filter(|r| !matches!(r, Rec::Tx { .. })) {
                eprintln!("{r:?}");
            }
        }
        for node in 0..2 {
            for (ch, nc) in sim.nodes[node].conns.iter().filter(|(_, c)| !c.removed) {
                eprintln!("node {node} conn {ch} stats {:?}\n   snapshot {:?}", nc.conn.stats(), nc.conn.verif_snapshot());
            }
        }
        eprintln!("net {:?} faults {:?}", sim.net, sim.faults);
    }
    for f in sim.fails.drain(..) {
        out.fails.push(format!("{f} seed={seed}"));
    }
}
