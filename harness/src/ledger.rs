//! C07: per-destination anti-amplification ledger over EVERY datagram a node emits (connection transmits to any
//! address and endpoint-level responses), armed by the harness' own notion of "validated address".
//!
//! Nothing here looks at quinn's `PathData::validated`. A destination `D` counts as validated for node `n` only
//! once one of the causes the property lists was OBSERVED by the harness:
//!   * `n` itself chose to talk to `D` (`Endpoint::connect`; the limit protects third parties from servers),
//!   * a datagram from `D` that contained a long-header Handshake packet (cleartext type bits, walking coalesced
//!     packets) was accepted by a connection of `n` (its count of authenticated packets grew),
//!   * an Initial from `D` carried, in its cleartext token field, a token that `n` had put into a Retry packet
//!     addressed to `D`,
//!   * a scenario that really moves a peer to `D` and sees it answer a challenge calls `trust` itself.
//! Byte counts are the simulator's own (`Node::recv_from`, `Node::sent_to`), cumulative per address: they are
//! never rebased when a connection changes its path.
use std::collections::{HashMap, HashSet, VecDeque};
use std::net::SocketAddr;

#[derive(Default)]
pub struct DestLedger {
    /// cumulative per-destination oracle for connection transmits (opt-in per scenario)
    pub on: bool,
    /// per node (any number of nodes: scenario `multi` has more than two)
    validated: HashMap<usize, HashSet<SocketAddr>>,
    /// per (node, connection): for each queued datagram event, did the datagram contain a Handshake packet?
    marks: HashMap<(usize, usize), VecDeque<(bool, bool)>>,
    /// every short-header-form datagram an ENDPOINT (not a connection) of this simulation emitted, i.e. every stateless
    /// reset, with the emitting node (C08: which `ConnectionLost(Reset)` reports have a stateless reset behind them)
    resets_emitted: HashMap<Vec<u8>, usize>,
    /// per (node, connection): stateless resets of ANOTHER node's endpoint the connection was handed
    resets_handled: HashMap<(usize, usize), u32>,
    /// per (node, destination): tokens of the Retry packets the node sent there
    retry_tokens: HashMap<(usize, SocketAddr), Vec<Vec<u8>>>,
    pub checks: u64,
    pub off_path_tx: u64,
    /// per (node, connection): the remote address of the current path epoch and the simulator's cumulative byte
    /// counts (sent to it, received from it) at the moment the connection's path moved there
    epoch: HashMap<(usize, usize), (SocketAddr, u64, u64)>,
    /// per (node, connection, address): how many times the connection's path moved TO that address
    visits: HashMap<(usize, usize, SocketAddr), u32>,
}

fn varint(d: &[u8], at: usize) -> Option<(u64, usize)> {
    let b = *d.get(at)?;
    let n = 1usize << (b >> 6);
    let mut v = (b & 0x3f) as u64;
    for i in 1..n {
        v = (v << 8) | *d.get(at + i)? as u64;
    }
    Some((v, n))
}

/// One long-header packet at the start of `d`: (type bits 0 Initial / 1 0-RTT / 2 Handshake / 3 Retry, version,
/// token of an Initial, total length or None when it extends to the end of the datagram)
pub fn long_packet(d: &[u8]) -> Option<(u8, u32, Vec<u8>, Option<usize>)> {
    if d.len() < 7 || d[0] & 0x80 == 0 {
        return None;
    }
    let version = u32::from_be_bytes([d[1], d[2], d[3], d[4]]);
    let ty = (d[0] >> 4) & 3;
    let dl = d[5] as usize;
    let sl = *d.get(6 + dl)? as usize;
    let mut at = 7 + dl + sl;
    if at > d.len() {
        return None;
    }
    if version == 0 || ty == 3 {
        return Some((ty, version, Vec::new(), None));
    }
    let mut token = Vec::new();
    if ty == 0 {
        let (tl, n) = varint(d, at)?;
        at += n;
        token = d.get(at..at.checked_add(tl as usize)?)?.to_vec();
        at += tl as usize;
    }
    let (len, n) = varint(d, at)?;
    let end = (at + n).checked_add(len as usize)?;
    if end > d.len() {
        return None;
    }
    Some((ty, version, token, Some(end)))
}

/// Does the datagram contain a long-header Handshake packet (walking coalesced packets)?
pub fn has_handshake_packet(d: &[u8]) -> bool {
    let mut off = 0;
    while off < d.len() {
        let Some((ty, version, _, end)) = long_packet(&d[off..]) else { return false };
        if version != 0 && ty == 2 {
            return true;
        }
        match end {
            Some(e) if e > 0 => off += e,
            _ => return false,
        }
    }
    false
}

impl DestLedger {
    pub fn trust(&mut self, node: usize, a: SocketAddr) {
        self.validated.entry(node).or_default().insert(a);
    }

    pub fn is_validated(&self, node: usize, a: &SocketAddr) -> bool {
        self.validated.get(&node).is_some_and(|v| v.contains(a))
    }

    /// every datagram handed to `Endpoint::handle` of `node`
    pub fn on_rx(&mut self, node: usize, from: SocketAddr, data: &[u8]) {
        if let Some((0, v, token, _)) = long_packet(data) {
            if v != 0 && !token.is_empty() && self.retry_tokens.get(&(node, from)).is_some_and(|ts| ts.contains(&token)) {
                self.validated.entry(node).or_default().insert(from);
            }
        }
    }

    /// Does this datagram start with an Initial whose cleartext token field holds a token that `node` put into a Retry
    /// packet addressed to `from`? (per datagram: the cause of validation of the connection this very Initial creates)
    pub fn initial_carries_retry_token(&self, node: usize, from: SocketAddr, data: &[u8]) -> bool {
        match long_packet(data) {
            Some((0, v, token, _)) => v != 0 && !token.is_empty() && self.retry_tokens.get(&(node, from)).is_some_and(|ts| ts.contains(&token)),
            _ => false,
        }
    }

    /// the datagram was routed to connection `ch` (its event was queued)
    pub fn routed(&mut self, node: usize, ch: usize, data: &[u8]) {
        let reset = self.resets_emitted.get(data).is_some_and(|n| *n != node);
        self.marks.entry((node, ch)).or_default().push_back((has_handshake_packet(data), reset));
    }

    /// the connection handled the oldest queued datagram event; `authed_grew`: its count of authenticated
    /// packets grew while doing so
    pub fn handled(&mut self, node: usize, ch: usize, from: SocketAddr, authed_grew: bool) {
        let (hs, reset) = self.marks.get_mut(&(node, ch)).and_then(|q| q.pop_front()).unwrap_or((false, false));
        if reset {
            *self.resets_handled.entry((node, ch)).or_default() += 1;
        }
        if hs && authed_grew {
            self.validated.entry(node).or_default().insert(from);
        }
    }

    /// an endpoint-level datagram (no connection) leaves `node`
    pub fn ep_tx(&mut self, node: usize, dst: SocketAddr, data: &[u8]) {
        if data.first().is_some_and(|b| b & 0x80 == 0) {
            // the only short-header-form datagram an endpoint builds itself is a stateless reset
            self.resets_emitted.insert(data.to_vec(), node);
        }
        if let Some((3, v, _, _)) = long_packet(data) {
            if v != 0 {
                let dl = data[5] as usize;
                let sl = data[6 + dl] as usize;
                let at = 7 + dl + sl;
                if data.len() >= at + 16 {
                    self.retry_tokens.entry((node, dst)).or_default().push(data[at..data.len() - 16].to_vec());
                }
            }
        }
    }

    /// How many stateless resets built by another node's endpoint (genuine, or replayed byte for byte) connection `ch`
    /// of `node` has handled so far.
    pub fn stateless_resets_handled(&self, node: usize, ch: usize) -> u32 {
        self.resets_handled.get(&(node, ch)).copied().unwrap_or(0)
    }

    /// the connection's path moved to `to` (observed by the simulator: `Connection::remote_address` changed while a
    /// datagram was handled); `sent_base` / `recvd_base`: cumulative counts of `to` that do NOT belong to the new epoch
    /// (the datagram that revealed the path does)
    pub fn path_moved(&mut self, node: usize, ch: usize, to: SocketAddr, sent_base: u64, recvd_base: u64) {
        self.epoch.insert((node, ch), (to, sent_base, recvd_base));
        *self.visits.entry((node, ch, to)).or_default() += 1;
    }

    /// Key of a CUMULATIVE excess towards the connection's own (never validated) path address `dst`, judged at the
    /// start of a datagram with `sent` / `recvd` bytes ever exchanged with `dst`.
    ///
    /// The recorded finding `amplification-limit-exceeded-cumulative` is a HISTORY: the peer made the path move to
    /// `dst` at least twice within the execution (alternating spoofed sources), every migration granted a fresh
    /// budget, and the bytes of the CURRENT stay alone are within "3x, completing one datagram".  Only that history
    /// gets the recorded key.  A cumulative excess on a path that never returned to the address, or one whose
    /// current epoch by itself is beyond 3x (the gate proper is broken), is `...-cumulative-other-cause`.
    pub fn cumulative_key(&self, node: usize, ch: usize, dst: SocketAddr, sent: u64, recvd: u64) -> &'static str {
        let visits = self.visits.get(&(node, ch, dst)).copied().unwrap_or(0);
        let (sb, rb) = match self.epoch.get(&(node, ch)) {
            Some((a, sb, rb)) if *a == dst => (*sb, *rb),
            _ => (0, 0),
        };
        let epoch_ok = Self::may_start(sent.saturating_sub(sb), recvd.saturating_sub(rb));
        if visits >= 2 && epoch_ok {
            "amplification-limit-exceeded-cumulative"
        } else {
            "amplification-limit-exceeded-cumulative-other-cause"
        }
    }

    /// the facts `cumulative_key` decides on, for the failure message
    pub fn history(&self, node: usize, ch: usize, dst: SocketAddr, sent: u64, recvd: u64) -> String {
        let visits = self.visits.get(&(node, ch, dst)).copied().unwrap_or(0);
        let (sb, rb) = match self.epoch.get(&(node, ch)) {
            Some((a, sb, rb)) if *a == dst => (*sb, *rb),
            _ => (0, 0),
        };
        format!("the path moved to this address {visits} time(s) in this execution; during the current stay {} bytes sent, {} received", sent.saturating_sub(sb), recvd.saturating_sub(rb))
    }

    /// "never more than three times the bytes received from it, apart from completing one datagram once any
    /// budget remains": may a datagram to the unvalidated `dst` be STARTED with these cumulative counts?
    pub fn may_start(sent: u64, recvd: u64) -> bool {
        sent < 3 * recvd
    }
}
