//! C07: per-destination anti-amplification ledger over EVERY datagram a node emits (connection transmits to any
//! address and endpoint-level responses), armed by the harness' own notion of "validated address".
//!
//! Nothing here looks at quinn's `PathData::validated`. A destination `D` counts as validated for node `n` only
//! once one of the causes the property lists was OBSERVED by the harness:
//!   * `n` itself chose to talk to `D` (`Endpoint::connect`; the limit protects third parties from servers),
//!   * a datagram from `D` that contained a long-header Handshake packet (cleartext type bits, walking coalesced
//!     packets) was accepted by a connection of `n` (its count of authenticated packets grew),
//!   * an Initial from `D` carried, in its cleartext token field, a token that `n` had put into a Retry packet
//!     addressed to `D`,
//!   * a scenario that really moves a peer to `D` and sees it answer a challenge calls `trust` itself.
//! Byte counts are the simulator's own (`Node::recv_from`, `Node::sent_to`), cumulative per address: they are
//! never rebased when a connection changes its path.
use std::collections::{HashMap, HashSet, VecDeque};
use std::net::SocketAddr;

#[derive(Default)]
pub struct DestLedger {
    /// cumulative per-destination oracle for connection transmits (opt-in per scenario)
    pub on: bool,
    /// per node (any number of nodes: scenario `multi` has more than two)
    validated: HashMap<usize, HashSet<SocketAddr>>,
    /// per (node, connection): for each queued datagram event, did the datagram contain a Handshake packet?
    marks: HashMap<(usize, usize), VecDeque<bool>>,
    /// per (node, destination): tokens of the Retry packets the node sent there
    retry_tokens: HashMap<(usize, SocketAddr), Vec<Vec<u8>>>,
    pub checks: u64,
    pub off_path_tx: u64,
}

fn varint(d: &[u8], at: usize) -> Option<(u64, usize)> {
    let b = *d.get(at)?;
    let n = 1usize << (b >> 6);
    let mut v = (b & 0x3f) as u64;
    for i in 1..n {
        v = (v << 8) | *d.get(at + i)? as u64;
    }
    Some((v, n))
}

/// One long-header packet at the start of `d`: (type bits 0 Initial / 1 0-RTT / 2 Handshake / 3 Retry, version,
/// token of an Initial, total length or None when it extends to the end of the datagram)
pub fn long_packet(d: &[u8]) -> Option<(u8, u32, Vec<u8>, Option<usize>)> {
    if d.len() < 7 || d[0] & 0x80 == 0 {
        return None;
    }
    let version = u32::from_be_bytes([d[1], d[2], d[3], d[4]]);
    let ty = (d[0] >> 4) & 3;
    let dl = d[5] as usize;
    let sl = *d.get(6 + dl)? as usize;
    let mut at = 7 + dl + sl;
    if at > d.len() {
        return None;
    }
    if version == 0 || ty == 3 {
        return Some((ty, version, Vec::new(), None));
    }
    let mut token = Vec::new();
    if ty == 0 {
        let (tl, n) = varint(d, at)?;
        at += n;
        token = d.get(at..at.checked_add(tl as usize)?)?.to_vec();
        at += tl as usize;
    }
    let (len, n) = varint(d, at)?;
    let end = (at + n).checked_add(len as usize)?;
    if end > d.len() {
        return None;
    }
    Some((ty, version, token, Some(end)))
}

/// Does the datagram contain a long-header Handshake packet (walking coalesced packets)?
pub fn has_handshake_packet(d: &[u8]) -> bool {
    let mut off = 0;
    while off < d.len() {
        let Some((ty, version, _, end)) = long_packet(&d[off..]) else { return false };
        if version != 0 && ty == 2 {
            return true;
        }
        match end {
            Some(e) if e > 0 => off += e,
            _ => return false,
        }
    }
    false
}

impl DestLedger {
    pub fn trust(&mut self, node: usize, a: SocketAddr) {
        self.validated.entry(node).or_default().insert(a);
    }

    pub fn is_validated(&self, node: usize, a: &SocketAddr) -> bool {
        self.validated.get(&node).is_some_and(|v| v.contains(a))
    }

    /// every datagram handed to `Endpoint::handle` of `node`
    pub fn on_rx(&mut self, node: usize, from: SocketAddr, data: &[u8]) {
        if let Some((0, v, token, _)) = long_packet(data) {
            if v != 0 && !token.is_empty() && self.retry_tokens.get(&(node, from)).is_some_and(|ts| ts.contains(&token)) {
                self.validated.entry(node).or_default().insert(from);
            }
        }
    }

    /// Does this datagram start with an Initial whose cleartext token field holds a token that `node` put into a Retry
    /// packet addressed to `from`? (per datagram: the cause of validation of the connection this very Initial creates)
    pub fn initial_carries_retry_token(&self, node: usize, from: SocketAddr, data: &[u8]) -> bool {
        match long_packet(data) {
            Some((0, v, token, _)) => v != 0 && !token.is_empty() && self.retry_tokens.get(&(node, from)).is_some_and(|ts| ts.contains(&token)),
            _ => false,
        }
    }

    /// the datagram was routed to connection `ch` (its event was queued)
    pub fn routed(&mut self, node: usize, ch: usize, data: &[u8]) {
        self.marks.entry((node, ch)).or_default().push_back(has_handshake_packet(data));
    }

    /// the connection handled the oldest queued datagram event; `authed_grew`: its count of authenticated
    /// packets grew while doing so
    pub fn handled(&mut self, node: usize, ch: usize, from: SocketAddr, authed_grew: bool) {
        let hs = self.marks.get_mut(&(node, ch)).and_then(|q| q.pop_front()).unwrap_or(false);
        if hs && authed_grew {
            self.validated.entry(node).or_default().insert(from);
        }
    }

    /// an endpoint-level datagram (no connection) leaves `node`
    pub fn ep_tx(&mut self, node: usize, dst: SocketAddr, data: &[u8]) {
        if let Some((3, v, _, _)) = long_packet(data) {
            if v != 0 {
                let dl = data[5] as usize;
                let sl = data[6 + dl] as usize;
                let at = 7 + dl + sl;
                if data.len() >= at + 16 {
                    self.retry_tokens.entry((node, dst)).or_default().push(data[at..data.len() - 16].to_vec());
                }
            }
        }
    }

    /// "never more than three times the bytes received from it, apart from completing one datagram once any
    /// budget remains": may a datagram to the unvalidated `dst` be STARTED with these cumulative counts?
    pub fn may_start(sent: u64, recvd: u64) -> bool {
        sent < 3 * recvd
    }
}
