//! Identity of a panic of the code under test (builder `findaudit`).
//!
//! The reachability-class oracle (`Runner::panic_oracle`, opclass.rs) used to name a panic by component and op kind
//! only (`C03-panic-on-peer-input.cc.ack`): once such a key is listed in known_findings.txt EVERY later panic of
//! that op - another line, another cause - was printed as the KNOWN-FINDING and the check exited 0.  A recorded
//! defect must be "identified by the specific input, call site or history that fails, so that a DIFFERENT
//! violation of the same property is still reported", so the key now also carries WHICH panic it was:
//!
//! `<Cxx>-panic-on-...<comp>.<op>@<source file>:<message>[+<configuration class>]`
//!
//!  * source file: where `core::panic::Location` says the panic was raised, as a module path (`congestion.bbr`,
//!    `packet`, `token`; for a panic raised inside another crate the crate name comes first: `std.time`,
//!    `core.num`).  No line number: an unrelated edit above the site must not turn the finding into a violation.
//!  * message: the panic payload with every run of digits replaced by `N` (lengths, indices and values differ from
//!    input to input) and everything that is not alphanumeric replaced by `-`.
//!  * configuration class: given by the component's op-class tracker (`Tracker::config_class`) for the findings
//!    that only exist under a particular configuration (e.g. a token lifetime of 2^62 s or more).
//!
//! The location and message come from a process-wide panic hook (the executors and `Runner` use `catch_unwind`,
//! which returns only the payload; executors that catch a panic themselves and answer `panic` are covered too,
//! because the hook runs where the panic is raised).  The FIRST panic raised while an op runs names it (later ones
//! - destructors of a poisoned state - are consequences).
use std::sync::{Mutex, Once};

static FIRST: Mutex<Option<(String, String)>> = Mutex::new(None);
static ONCE: Once = Once::new();

/// Install the recording hook (idempotent).  The hook that was installed before (microdiff's silent one, or the
/// default printer) keeps running after ours.
pub fn install() {
    ONCE.call_once(|| {
        let prev = std::panic::take_hook();
        std::panic::set_hook(Box::new(move |info| {
            let file = info.location().map_or("unknown".to_string(), |l| l.file().to_string());
            let msg = if let Some(s) = info.payload().downcast_ref::<&str>() {
                (*s).to_string()
            } else if let Some(s) = info.payload().downcast_ref::<String>() {
                s.clone()
            } else {
                "non-string-payload".to_string()
            };
            if let Ok(mut g) = FIRST.lock() {
                if g.is_none() {
                    *g = Some((file, msg));
                }
            }
            prev(info);
        }));
    });
}

/// forget what was recorded (call before an op runs)
pub fn clear() {
    if let Ok(mut g) = FIRST.lock() {
        *g = None;
    }
}

/// `<source file>:<message>` of the first panic raised since `clear`, or `unidentified` when the response `panic`
/// was produced without a panic being raised in this process
pub fn take() -> String {
    let got = FIRST.lock().ok().and_then(|mut g| g.take());
    match got {
        Some((file, msg)) => format!("{}:{}", file_id(&file), slug(&msg)),
        None => "unidentified".to_string(),
    }
}

/// `/x/quinn-proto/src/congestion/bbr/mod.rs` -> `congestion.bbr`; `/rustc/<hash>/library/std/src/time.rs` -> `std.time`
pub fn file_id(path: &str) -> String {
    let p = path.replace('\\', "/");
    let (krate, rest) = match p.rfind("/src/") {
        Some(i) => (p[..i].rsplit('/').next().unwrap_or(""), &p[i + 5..]),
        None => match p.strip_prefix("src/") {
            Some(r) => ("", r),
            None => ("", p.as_str()),
        },
    };
    let rest = rest.strip_suffix(".rs").unwrap_or(rest);
    let rest = rest.strip_suffix("/mod").unwrap_or(rest);
    // the crate under test is implied; cargo registry directories carry a version (`bytes-1.10.1`)
    let krate = krate.trim_end_matches(|c: char| c.is_ascii_digit() || c == '.').trim_end_matches('-');
    let mut s = String::new();
    if !krate.is_empty() && krate != "quinn-proto" {
        s.push_str(krate);
        s.push('.');
    }
    s.push_str(&rest.replace('/', "."));
    s
}

/// line- and value-independent form of a panic message
pub fn slug(msg: &str) -> String {
    let mut out = String::new();
    let mut prev = ' ';
    for c in msg.chars() {
        let m = if c.is_ascii_digit() {
            'N'
        } else if c.is_ascii_alphanumeric() {
            c
        } else {
            '-'
        };
        if (m == 'N' || m == '-') && prev == m {
            continue;
        }
        out.push(m);
        prev = m;
        if out.len() >= 96 {
            break;
        }
    }
    out.trim_matches('-').to_string()
}

#[cfg(test)]
mod tests {
    use super::*;
    #[test]
    fn ids() {
        assert_eq!(file_id("/tmp/w/repo/quinn-proto/src/congestion/bbr/mod.rs"), "congestion.bbr");
        assert_eq!(file_id("quinn-proto/src/packet.rs"), "packet");
        assert_eq!(file_id("/rustc/abc/library/std/src/time.rs"), "std.time");
        assert_eq!(file_id("/root/.cargo/registry/src/index/bytes-1.10.1/src/buf/buf_impl.rs"), "bytes.buf.buf_impl");
        assert_eq!(slug("attempt to multiply with overflow"), "attempt-to-multiply-with-overflow");
        assert_eq!(slug("index out of bounds: the len is 3 but the index is 17"), "index-out-of-bounds-the-len-is-N-but-the-index-is-N");
        assert_eq!(slug("assertion failed: len < 2usize.pow(14)"), "assertion-failed-len-Nusize-pow-N");
    }
}
