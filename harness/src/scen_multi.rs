//! Scenario `multi` (C09, C08 "forgotten by the endpoint"): many connections on one server endpoint and on
//! 1..5 client endpoints, with per-connection salted content, every CID length, CID rotation, slot / handle /
//! CID-value reuse, held `Incoming`s, client address changes, and replays against forgotten connections.
//!
//! The oracles are written from the property text:
//!  * `routing-forgotten-connection-still-routes`: `Endpoint::handle` returned a `ConnectionEvent` for a handle
//!    that is not open (the harness knows the open set: it saw every connect / accept / Drained);
//!  * `routing-wrong-connection`: a datagram was handed to a connection that neither issued its destination CID
//!    (ledger: the handshake CID and every NEW_CONNECTION_ID frame in the connection's plaintext transmit log),
//!    nor owns the initial DCID (Initial / 0-RTT), nor owns the address tuple (zero-length CIDs), nor was given the
//!    trailing 16 bytes as a stateless reset token by its peer; or was buffered for a pending attempt with another DCID;
//!  * `isolation-data` (salted content, in `Workload`), `isolation-lost`, `isolation-close-leak`, `isolation-incomplete`;
//!  * `routing-cid-views-diverge`: endpoint tables vs the open set, the connections' own CID bookkeeping and the
//!    pending attempts the harness holds.
use std::collections::{BTreeMap, BTreeSet, HashMap, VecDeque};
use std::net::{IpAddr, Ipv4Addr, Ipv6Addr, SocketAddr};
use std::sync::{Arc, Mutex};
use std::time::Duration;

use quinn_proto::{
    ConnectionId, ConnectionIdGenerator, Dir, Endpoint, HashedConnectionIdGenerator, IdleTimeout, Incoming,
    RandomConnectionIdGenerator, TransportConfig, VarInt,
};

use crate::scenarios::Outcome;
use crate::sim::*;
use crate::workload::*;
use crate::Rng;

pub const MULTI_RULE: &str = "one execution = one server endpoint and 1..5 client endpoints (own addresses) running 6..14 connections, 3..8 of them concurrently, each with its own workload whose content is salted per connection; CID length of every endpoint drawn from 0..20 (weighted towards 0, 1, 2), generator SeededCids (all lengths) / RandomConnectionIdGenerator (0, 4..20) / HashedConnectionIdGenerator, cid_lifetime none or 150 ms..2 s (rotation through Timer::PushNewCid and retire_prior_to); every Incoming is held by the application and accepted at once / after a delay (datagrams buffered) / after it went stale / retried / refused / ignored; connections are closed by either side when complete or mid-transfer and successors are opened afterwards (handles, slab slots and, with 1-2 byte CIDs, CID values reused); client endpoints change address once or twice in a row (local_address_changed or ping); network with jitter, loss, duplication and delayed replays; after a connection drained on both sides its old datagrams and datagrams ending in every reset token it issued are sent again from all its old addresses. Excluded (routing not well-defined, documented in endpoint.rs): more than one live connection per client endpoint with zero-length client CIDs, more than one live connection per client address and any address change with zero-length server CIDs; Retry with server CIDs shorter than 3 bytes (unregistered Retry CID, finding SD-19/D5). Oracles: routing-forgotten-connection-still-routes, routing-wrong-connection, routing-cid-views-diverge, isolation-data / -lost / -close-leak / -incomplete, C01 content oracles, no panic; non-trivial = >= 3 connections were open on the server at once, a handle was reused and >= 1 probe hit a forgotten connection";

#[derive(Clone, Copy, Debug, PartialEq, Eq)]
enum GenKind {
    Seeded,
    Random,
    Hashed,
}

#[derive(Clone, Debug)]
struct EpCfg {
    cid_len: usize,
    gen: GenKind,
    lifetime: Option<Duration>,
}

fn pick_epcfg(rng: &mut Rng) -> EpCfg {
    let mut cid_len = match rng.below(8) {
        0 => 0,
        1 => 1,
        2 => 2,
        3 => 8,
        _ => rng.range(3, 20) as usize,
    };
    let gen = match rng.below(5) {
        0 | 1 => GenKind::Random,
        2 => GenKind::Hashed,
        _ => GenKind::Seeded,
    };
    // the real generators draw from the thread RNG: keep the lengths where a value collision is plausible (and the
    // run therefore depends on the drawn bytes) on the seeded generator
    let gen = if gen == GenKind::Random && (1..4).contains(&cid_len) { GenKind::Seeded } else { gen };
    if gen == GenKind::Hashed {
        cid_len = 8;
    }
    let lifetime = if cid_len > 0 && rng.chance(1, 2) { Some(Duration::from_millis(*rng.pick(&[150u64, 400, 1000, 2000]))) } else { None };
    EpCfg { cid_len, gen, lifetime }
}

fn make_endpoint_config(seed: u64, c: &EpCfg) -> quinn_proto::EndpointConfig {
    let mut cfg = endpoint_config(seed, c.cid_len, c.lifetime);
    let (len, lt) = (c.cid_len, c.lifetime);
    match c.gen {
        GenKind::Seeded => {}
        GenKind::Random => {
            cfg.cid_generator(Arc::new(move || {
                let mut g = RandomConnectionIdGenerator::new(len);
                if let Some(l) = lt {
                    g.set_lifetime(l);
                }
                Box::new(g) as Box<dyn ConnectionIdGenerator>
            }));
        }
        GenKind::Hashed => {
            let key = seed ^ 0x4a54;
            cfg.cid_generator(Arc::new(move || {
                let mut g = HashedConnectionIdGenerator::from_key(key);
                if let Some(l) = lt {
                    g.set_lifetime(l);
                }
                Box::new(g) as Box<dyn ConnectionIdGenerator>
            }));
        }
    }
    cfg
}

/// One connection object on one endpoint.
struct Side {
    uid: usize,
    node: usize,
    ch: usize,
    open: bool,
    forgot_step: Option<u64>,
    /// every CID this connection issued (value ledger; from its own handshake CID and its plaintext transmit log)
    issued: BTreeSet<Vec<u8>>,
    /// the reset tokens it issued together with them
    tokens_issued: BTreeSet<[u8; 16]>,
    /// server side: Initial / 0-RTT destination CIDs of the attempt it was accepted from
    initial_keys: BTreeSet<Vec<u8>>,
    /// the peer's address when the connection was established (zero-length CIDs: the tuple it owns)
    tuple: SocketAddr,
    /// reset tokens it has been holding for its peer's CIDs (sampled from its own view)
    peer_tokens: BTreeSet<[u8; 16]>,
    lost_seen: usize,
    connected: bool,
    /// datagrams that were handed to it: (source address, bytes)
    samples: Vec<(SocketAddr, Vec<u8>)>,
    routed: u64,
    ghost: bool,
    /// a datagram was handed to this connection only because it ends in a reset token that ANOTHER, already forgotten
    /// connection of the peer endpoint had issued too (same CID value, hence same token): what happened
    shared_token_hit: Option<String>,
    /// largest `retire_prior_to` this connection has announced for its own CIDs (only a CID-lifetime expiry,
    /// Timer::PushNewCid, advances it): discriminates the recorded finding routing-rotation-exceeds-peer-cid-limit
    rpt_seen: u64,
}

#[derive(Clone, Copy, Debug, PartialEq, Eq)]
enum Action {
    Accept,
    Retry,
    Refuse,
    Ignore,
}

struct Pending {
    inc: Incoming,
    idx: usize,
    key: Vec<u8>,
    uid: Option<usize>,
    action: Action,
    due: u64,
    stale: bool,
}

struct LConn {
    uid: usize,
    cnode: usize,
    cside: usize,
    ssides: Vec<usize>,
    init_dcid: Vec<u8>,
    w: Workload,
    /// 0 client, 1 server, 2 both
    closer: usize,
    /// close when the workload is complete, or at this step if it comes first
    close_step: Option<u64>,
    closed: bool,
    refused: bool,
    /// an attempt of this connection was ignored, held for long or accepted stale: the client's probe timeout has
    /// backed off (it is not reset before the first 1-RTT acknowledgement), so one lost packet can take longer to repair
    /// than a 5..10 s idle timeout - a TimedOut of such a connection is not evidence of interference
    slow_start: bool,
    /// one side has reported a loss already
    peer_gone: bool,
    attempts: u32,
    /// addresses the client endpoint had while this connection was alive
    addrs: Vec<SocketAddr>,
    finished: bool,
    probes_at: Option<u64>,
    probed: bool,
    checked: bool,
    complete_at_close: bool,
}

struct St {
    rng: Rng,
    seed: u64,
    cfgs: Vec<EpCfg>,
    sides: Vec<Side>,
    occ: HashMap<(usize, usize), usize>,
    lconns: Vec<LConn>,
    pending: Vec<Pending>,
    /// probes against forgotten connections: (due, from, to, bytes, reset token they end in)
    probe_q: Vec<(u64, SocketAddr, SocketAddr, Vec<u8>, Option<[u8; 16]>)>,
    views_reported: BTreeSet<String>,
    /// stateless resets the endpoints generated: (node, step, size, DCID of the inciting datagram, inciting datagram genuine?)
    resets_made: Vec<(usize, u64, usize, Vec<u8>, bool)>,
    /// (issuing node, reset token) -> CID value, from the NEW_CONNECTION_ID frames of the transmit logs
    token_cid: HashMap<(usize, [u8; 16]), Vec<u8>>,
    cid_dbg: HashMap<(usize, usize), String>,
    probes_skipped: u64,
    server_idle_ms: u64,
    /// VERIF_MULTI_NOEXCL=1: run the configurations the rule excludes (to replay the recorded findings)
    no_excl: bool,
    planned: usize,
    max_live: usize,
    /// per client node: at most one live connection (zero-length CIDs somewhere)
    single: Vec<bool>,
    moves: VecDeque<u64>,
    second_move_at: Option<(u64, usize)>,
    plain_seen: usize,
    // statistics
    peak_server_open: usize,
    handles_seen: BTreeSet<(usize, usize)>,
    handle_reuse: u64,
    cid_value_reuse: u64,
    probes_sent: u64,
    moved: u64,
    accept_auth_failures: u64,
    switches: u64,
    stale_accepts: u64,
    retries: u64,
    refused: u64,
    ignored: u64,
    delayed: u64,
    buffered: u64,
    rotations: u64,
    routed_total: u64,
    last_open_step: u64,
    all_issued: HashMap<(usize, Vec<u8>), usize>,
}

fn tc_for(idle_ms: u64, rng: &mut Rng) -> TransportConfig {
    let mut t = TransportConfig::default();
    t.max_idle_timeout(Some(IdleTimeout::try_from(Duration::from_millis(idle_ms)).unwrap()));
    if rng.chance(1, 3) {
        t.receive_window(VarInt::from_u32(*rng.pick(&[3000u32, 20000])));
        t.stream_receive_window(VarInt::from_u32(*rng.pick(&[1500u32, 20000])));
    }
    t
}

fn parse_dcid(data: &[u8], cid_len: usize) -> Option<(bool, bool, Vec<u8>)> {
    let b0 = *data.first()?;
    if b0 & 0x80 != 0 {
        let l = *data.get(5)? as usize;
        if l > 20 || data.len() < 6 + l {
            return None;
        }
        let ty = (b0 >> 4) & 3;
        Some((true, ty <= 1, data[6..6 + l].to_vec()))
    } else {
        if data.len() < 1 + cid_len {
            return None;
        }
        Some((false, false, data[1..1 + cid_len].to_vec()))
    }
}

fn hexs(b: &[u8]) -> String {
    if b.is_empty() {
        return "-".into();
    }
    b.iter().map(|x| format!("{x:02x}")).collect()
}

/// `NewConnectionId { sequence: 1, retire_prior_to: 0, id: [1, 2], reset_token: ResetToken([..]) }` occurrences
fn parse_new_cids(line: &str) -> Vec<(u64, u64, Vec<u8>, [u8; 16])> {
    let mut out = Vec::new();
    let mut rest = line;
    while let Some(p) = rest.find("NewConnectionId { sequence: ") {
        rest = &rest[p + "NewConnectionId { sequence: ".len()..];
        let seq: u64 = rest.split(',').next().and_then(|x| x.trim().parse().ok()).unwrap_or(u64::MAX);
        let rpt: u64 = rest.find("retire_prior_to: ").and_then(|p| rest[p + 17..].split(',').next()).and_then(|x| x.trim().parse().ok()).unwrap_or(0);
        let Some(ip) = rest.find("id: [") else { break };
        let after = &rest[ip + 5..];
        let Some(ie) = after.find(']') else { break };
        let id: Vec<u8> = after[..ie].split(',').filter_map(|x| x.trim().parse().ok()).collect();
        let Some(tp) = after.find("ResetToken([") else { break };
        let t = &after[tp + 12..];
        let Some(te) = t.find(']') else { break };
        let tv: Vec<u8> = t[..te].split(',').filter_map(|x| x.trim().parse().ok()).collect();
        if tv.len() == 16 {
            let mut tok = [0u8; 16];
            tok.copy_from_slice(&tv);
            out.push((seq, rpt, id, tok));
        }
        rest = &t[te..];
    }
    out
}

/// Make the simulator visit instant `at` (an empty datagram to the server: undecodable, dropped at once).
fn wake(sim: &mut Sim, at: u64) {
    let to = sim.nodes[SERVER].addr;
    let from = SocketAddr::new(IpAddr::V4(Ipv4Addr::new(192, 0, 2, 1)), 9);
    sim.push_wire(Dgram { at, seq: 0, from, to, ecn: None, data: Vec::new(), origin: usize::MAX, genuine: false });
}

fn new_nodeconn(conn: quinn_proto::Connection) -> NodeConn {
    NodeConn { conn, events: VecDeque::new(), app_events: VecDeque::new(), obs: ConnObs::default(), removed: false }
}

impl St {
    fn live_at(&self, cnode: usize) -> usize {
        self.lconns.iter().filter(|l| l.cnode == cnode && !l.finished).count()
    }

    fn open_conn(&mut self, sim: &mut Sim, cnode: usize) {
        let uid = self.lconns.len() + 1;
        let n = 8 + self.rng.below(13) as usize;
        let mut init = self.rng.bytes(n);
        // the first byte carries the uid: initial DCIDs of one run are distinct
        init[0] = uid as u8;
        let mut cfg = client_config(self.seed ^ (uid as u64) << 8, tc_for(30_000, &mut self.rng));
        let i2 = init.clone();
        cfg.initial_dst_cid_provider(Arc::new(move || ConnectionId::new(&i2)));
        let now = sim.t();
        let server = sim.nodes[SERVER].addr;
        let (ch, mut conn) = sim.nodes[cnode].ep.connect(now, cfg, server, "localhost").expect("connect");
        conn.verif_txlog_enable();
        let cv = conn.verif_cid_view();
        sim.nodes[cnode].conns.insert(ch.0, new_nodeconn(conn));
        let mut w = Workload::new(self.seed ^ uid as u64);
        w.salt = uid as u64;
        w.other_salts = (1..=self.planned as u64 + 2).collect();
        w.nodes = [cnode, SERVER];
        w.ch[0] = Some(ch.0);
        let mk = |rng: &mut Rng, n: usize| -> Vec<Plan> {
            (0..n)
                .map(|_| Plan {
                    dir: if rng.chance(1, 2) { Dir::Bi } else { Dir::Uni },
                    len: match rng.below(3) {
                        0 => rng.below(200),
                        1 => rng.below(4000),
                        _ => rng.below(40_000),
                    },
                    chunk: *rng.pick(&[7usize, 300, 1200, 9000]),
                    finish: true,
                    reset_at: None,
                })
                .collect()
        };
        let nc = 1 + self.rng.below(3) as usize;
        let ns = self.rng.below(3) as usize;
        w.sides[0].plans = mk(&mut self.rng, nc);
        w.sides[1].plans = mk(&mut self.rng, ns);
        for side in 0..2 {
            let k = self.rng.below(3);
            for j in 0..k {
                // application datagrams carry the connection's salt
                let mut d = vec![uid as u8, side as u8, j as u8];
                d.extend((0..self.rng.below(40)).map(|i| content_byte_s(uid as u64, 9999, i)));
                w.sides[side].dgrams_to_send.push(d);
            }
        }
        let sidx = self.new_side(uid, cnode, ch.0, server, false);
        self.sides[sidx].issued.insert(cv.handshake_cid.clone());
        self.note_issue(cnode, &cv.handshake_cid, sidx);
        let closer = self.rng.below(3) as usize;
        let close_step = if self.rng.chance(1, 3) { Some(sim.steps + self.rng.range(5, 400)) } else { None };
        self.lconns.push(LConn {
            uid,
            cnode,
            cside: sidx,
            ssides: Vec::new(),
            init_dcid: init,
            w,
            closer,
            close_step,
            closed: false,
            refused: false,
            slow_start: false,
            peer_gone: false,
            attempts: 0,
            addrs: vec![sim.nodes[cnode].addr],
            finished: false,
            probes_at: None,
            probed: false,
            checked: false,
            complete_at_close: false,
        });
        self.last_open_step = sim.steps;
    }

    fn note_issue(&mut self, node: usize, cid: &[u8], sidx: usize) {
        if cid.is_empty() {
            return;
        }
        if let Some(prev) = self.all_issued.insert((node, cid.to_vec()), sidx) {
            if prev != sidx {
                self.cid_value_reuse += 1;
            }
        }
    }

    fn new_side(&mut self, uid: usize, node: usize, ch: usize, tuple: SocketAddr, ghost: bool) -> usize {
        if !self.handles_seen.insert((node, ch)) {
            self.handle_reuse += 1;
        }
        self.sides.push(Side {
            uid,
            node,
            ch,
            open: true,
            forgot_step: None,
            issued: BTreeSet::new(),
            tokens_issued: BTreeSet::new(),
            initial_keys: BTreeSet::new(),
            tuple,
            peer_tokens: BTreeSet::new(),
            lost_seen: 0,
            connected: false,
            samples: Vec::new(),
            routed: 0,
            ghost,
            shared_token_hit: None,
            rpt_seen: 0,
        });
        let i = self.sides.len() - 1;
        self.occ.insert((node, ch), i);
        i
    }

    /// NEW_CONNECTION_ID frames in the plaintext transmit logs: who issued which CID / reset token
    fn read_txlogs(&mut self, sim: &mut Sim) {
        while self.plain_seen < sim.plain.len() {
            let l = sim.plain[self.plain_seen].clone();
            self.plain_seen += 1;
            if l.contains("<undecodable>") {
                // the packet's own frames do not decode with quinn's decoder (e.g. RFC 9000 19.15: a NEW_CONNECTION_ID whose
                // Retire Prior To exceeds its Sequence Number): the receiver must close with FRAME_ENCODING_ERROR
                sim.fail("routing-sent-undecodable-frame", format!("a connection built a packet whose plaintext frames do not decode: {}", &l[..l.len().min(300)]));
            }
            if !l.contains("NewConnectionId {") {
                continue;
            }
            let mut it = l.split_whitespace();
            let node: usize = it.next().and_then(|x| x[1..].parse().ok()).unwrap_or(usize::MAX);
            let ch: usize = it.next().and_then(|x| x[1..].parse().ok()).unwrap_or(usize::MAX);
            let Some(&sidx) = self.occ.get(&(node, ch)) else { continue };
            for (seq, rpt, id, tok) in parse_new_cids(&l) {
                if rpt > seq {
                    // RFC 9000 19.15: Retire Prior To MUST be <= Sequence Number; the receiver has to treat the frame as
                    // FRAME_ENCODING_ERROR, i.e. rotation kills the connection
                    sim.fail("routing-new-connection-id-retire-prior-to-above-sequence", format!("connection #{} (node {node} handle {ch}) sent NEW_CONNECTION_ID with sequence {seq} and retire_prior_to {rpt}: {}", self.sides[sidx].uid, &l[..l.len().min(160)]));
                }
                if self.sides[sidx].issued.insert(id.clone()) {
                    self.note_issue(node, &id, sidx);
                    if seq > 8 {
                        self.rotations += 1;
                    }
                }
                self.token_cid.insert((node, tok), id.clone());
                self.sides[sidx].tokens_issued.insert(tok);
            }
        }
        if sim.plain.len() > 20_000 && std::env::var("VERIF_MULTI_TRACE").is_err() {
            sim.plain.clear();
            self.plain_seen = 0;
        }
    }

    /// CIDs the endpoint generated for a connection that the connection has not announced (yet): the endpoint's
    /// per-connection record (`ConnectionMeta::loc_cids`, not the routing table) completes the ledger
    fn sample_metas(&mut self, sim: &mut Sim) {
        for node in 0..sim.nodes.len() {
            if self.cfgs[node].cid_len == 0 {
                continue;
            }
            let v = sim.nodes[node].ep.verif_view();
            for m in &v.metas {
                let Some(&sidx) = self.occ.get(&(node, m.handle)) else { continue };
                if !self.sides[sidx].open {
                    continue;
                }
                for (_, cid) in &m.loc_cids {
                    if self.sides[sidx].issued.insert(cid.clone()) {
                        self.note_issue(node, cid, sidx);
                    }
                }
            }
        }
    }

    /// Is handing `rec` to side `sidx` allowed by the property?
    fn justified(&self, sidx: usize, rec: &RouteRec) -> bool {
        let s = &self.sides[sidx];
        let cid_len = self.cfgs[rec.node].cid_len;
        if let Some((_long, init, dcid)) = parse_dcid(&rec.data, cid_len) {
            if !dcid.is_empty() && s.issued.contains(&dcid) {
                return true;
            }
            if init && s.initial_keys.contains(&dcid) {
                return true;
            }
            if dcid.is_empty() && cid_len == 0 && s.tuple == rec.from {
                return true;
            }
        }
        // stateless reset: the trailing 16 bytes are a token this connection's peer gave it
        if rec.data.len() >= 16 {
            let mut t = [0u8; 16];
            t.copy_from_slice(&rec.data[rec.data.len() - 16..]);
            if s.peer_tokens.contains(&t) {
                return true;
            }
            let l = &self.lconns[s.uid - 1];
            let peers: Vec<usize> = if s.node == SERVER { vec![l.cside] } else { l.ssides.clone() };
            if peers.iter().any(|p| self.sides[*p].tokens_issued.contains(&t)) {
                return true;
            }
        }
        false
    }

    fn process_routes(&mut self, sim: &mut Sim) {
        let recs: Vec<RouteRec> = sim.route_log.as_mut().map(std::mem::take).unwrap_or_default();
        for rec in recs {
            self.routed_total += 1;
            let cid_len = self.cfgs[rec.node].cid_len;
            let dc = parse_dcid(&rec.data, cid_len).map(|x| x.2);
            if rec.buffered {
                self.buffered += 1;
                let ok = dc.as_ref().is_some_and(|d| self.pending.iter().any(|p| &p.key == d) || sim.held.iter().any(|(_, _, inc)| &inc.verif_route_key().1 == d));
                if !ok {
                    sim.fail("routing-wrong-connection", format!("node {} step {}: a {}-byte datagram from {} with DCID {} was buffered for a pending connection attempt, but no attempt the application holds has that DCID (held: {:?})", rec.node, rec.step, rec.data.len(), rec.from, dc.as_ref().map_or("?".into(), |d| hexs(d)), self.pending.iter().map(|p| hexs(&p.key)).collect::<Vec<_>>()));
                }
            }
            if std::env::var("VERIF_MULTI_ROUTES").is_ok() && matches!(rec.to, Routed::Response(_)) {
                eprintln!("RESPONSE step {} node {} to {} inciting len {} genuine {} first {:02x} dcid {} -> {:?}", rec.step, rec.node, rec.from, rec.data.len(), rec.genuine, rec.data.first().copied().unwrap_or(0), dc.as_ref().map_or("?".into(), |d| hexs(d)), rec.to);
            }
            if let Routed::Response(size) = rec.to {
                if rec.data.first().is_some_and(|b| b & 0x80 == 0) {
                    self.resets_made.push((rec.node, rec.step, size, dc.clone().unwrap_or_default(), rec.genuine));
                }
            }
            let Routed::Conn(ch) = rec.to else { continue };
            let occ = self.occ.get(&(rec.node, ch)).copied();
            // forgotten: the slot is vacant, or its occupant had its Drained processed in an earlier step
            let open_side = occ.filter(|i| self.sides[*i].open || self.sides[*i].forgot_step.is_some_and(|f| rec.step <= f));
            let Some(sidx) = open_side else {
                let who = occ.map_or("never used".to_string(), |i| format!("connection #{} forgotten at step {:?}", self.sides[i].uid, self.sides[i].forgot_step));
                sim.fail(
                    "routing-forgotten-connection-still-routes",
                    format!("node {} step {}: Endpoint::handle routed a {}-byte datagram from {} (DCID {}, last 16 bytes {}) to ConnectionHandle({ch}), which is not open ({who}); open handles {:?}", rec.node, rec.step, rec.data.len(), rec.from, dc.as_ref().map_or("?".into(), |d| hexs(d)), hexs(&rec.data[rec.data.len().saturating_sub(16)..]), sim.nodes[rec.node].conns.keys().collect::<Vec<_>>()),
                );
                continue;
            };
            if !self.justified(sidx, &rec) {
                let owner = dc.as_ref().and_then(|d| self.all_issued.get(&(rec.node, d.clone()))).map(|i| self.sides[*i].uid);
                sim.fail(
                    "routing-wrong-connection",
                    format!("node {} step {}: a {}-byte datagram from {} with DCID {} (last issued by connection #{owner:?}) was handed to ConnectionHandle({ch}) = connection #{}, which never issued that CID, does not own the initial DCID / address tuple and was not given the trailing bytes as a reset token", rec.node, rec.step, rec.data.len(), rec.from, dc.as_ref().map_or("?".into(), |d| hexs(d)), self.sides[sidx].uid),
                );
            }
            if std::env::var("VERIF_MULTI_ROUTES").is_ok_and(|u| u.parse() == Ok(self.sides[sidx].uid)) {
                eprintln!("ROUTE step {} node {} from {} len {} genuine {} dcid {} tail {}", rec.step, rec.node, rec.from, rec.data.len(), rec.genuine, dc.as_ref().map_or("?".into(), |d| hexs(d)), hexs(&rec.data[rec.data.len().saturating_sub(16)..]));
            }
            // stateless-reset routing: was the token also issued by an earlier connection of the peer endpoint?
            if rec.data.len() >= 16 && !dc.as_ref().is_some_and(|d| !d.is_empty() && self.sides[sidx].issued.contains(d)) {
                let mut t = [0u8; 16];
                t.copy_from_slice(&rec.data[rec.data.len() - 16..]);
                let me = self.sides[sidx].uid;
                // which CID value of the peer endpoint the token belongs to (announced pairs), and who else was given that value
                // (announced or only generated for it by the endpoint)
                let peer_node = self.lconns[me - 1].cnode;
                let peer_node = if rec.node == SERVER { peer_node } else { SERVER };
                let cid = self.token_cid.get(&(peer_node, t)).cloned();
                let earlier = self.sides.iter().find(|o| o.uid != me && o.node == peer_node && (o.tokens_issued.contains(&t) || cid.as_ref().is_some_and(|c| o.issued.contains(c))));
                // did the peer ENDPOINT reveal that token itself: a stateless reset in answer to a datagram whose DCID was this
                // CID value at a time when no connection held it?
                let made = cid.as_ref().and_then(|c| self.resets_made.iter().rev().find(|(n, step, _, d, _)| *n == peer_node && d == c && *step < rec.step).cloned());
                if let Some((n, step, size, d, genuine)) = made {
                    let what = format!(
                        "a {}-byte datagram from {} ending in reset token {} was handed to it at step {}; the token belongs to CID value {} of the peer endpoint, which node {n} had revealed at step {step} by answering a {} with that (then unassigned) DCID with a {size}-byte stateless reset{}",
                        rec.data.len(), rec.from, hexs(&t), rec.step, hexs(&d),
                        if genuine { "late or duplicated genuine datagram" } else { "datagram sent by the harness (old datagram of a forgotten connection / probe)" },
                        earlier.map_or(String::new(), |o| format!("; connection #{} (forgotten at step {:?}) had held that CID value before", o.uid, o.forgot_step))
                    );
                    if std::env::var("VERIF_SIM_VERBOSE").is_ok() {
                        eprintln!("SHARED-TOKEN #{me}: {what}");
                    }
                    self.sides[sidx].shared_token_hit = Some(what);
                }
            }
            let s = &mut self.sides[sidx];
            s.routed += 1;
            if s.samples.len() < 3 {
                s.samples.push((rec.from, rec.data.clone()));
            } else if s.samples.len() < 10 || self.rng.chance(1, 8) {
                if s.samples.len() >= 10 {
                    let k = 3 + self.rng.below(7) as usize;
                    s.samples[k] = (rec.from, rec.data.clone());
                } else {
                    s.samples.push((rec.from, rec.data.clone()));
                }
            }
        }
    }

    /// losses, drains (-> forgotten), peer tokens
    fn watch_sides(&mut self, sim: &mut Sim) {
        for i in 0..self.sides.len() {
            if !self.sides[i].open {
                continue;
            }
            let (node, ch, uid) = (self.sides[i].node, self.sides[i].ch, self.sides[i].uid);
            let Some(nc) = sim.nodes[node].conns.get(&ch) else { continue };
            let cv = nc.conn.verif_cid_view();
            if let Some(t) = cv.peer_reset_token {
                self.sides[i].peer_tokens.insert(t);
            }
            self.sides[i].rpt_seen = self.sides[i].rpt_seen.max(cv.retire_prior_to);
            for (_, _, t) in &cv.rem_cids {
                if let Some(t) = t {
                    self.sides[i].peer_tokens.insert(*t);
                }
            }
            if let Ok(u) = std::env::var("VERIF_MULTI_CIDS") {
                if u.parse() == Ok(uid) {
                    let line = format!("CIDS #{uid} node {node} ch {ch}: issued {} active {:?} rpt {} rem_active {} rem {:?}", cv.local_issued, cv.local_active_seq, cv.retire_prior_to, cv.rem_active.0, cv.rem_cids.iter().map(|x| x.0).collect::<Vec<_>>());
                    if self.cid_dbg.get(&(node, ch)) != Some(&line) {
                        eprintln!("t={} step {} {line}", sim.now, sim.steps);
                        self.cid_dbg.insert((node, ch), line);
                    }
                }
            }
            self.sides[i].connected |= nc.obs.connected;
            let lost: Vec<String> = nc.obs.lost[self.sides[i].lost_seen..].to_vec();
            self.sides[i].lost_seen += lost.len();
            let drained = nc.obs.drained_events > 0;
            for reason in lost {
                let l = &self.lconns[uid - 1];
                let exempt_timeout = l.slow_start && reason.contains("TimedOut");
                let protected = !l.closed && !l.refused && !l.peer_gone && !self.sides[i].ghost && (node != SERVER || self.sides[i].connected) && !exempt_timeout;
                if exempt_timeout || protected {
                    // whatever its peer reports afterwards (Reset, TimedOut) follows from this loss
                    self.lconns[uid - 1].peer_gone = true;
                }
                if protected && std::env::var("VERIF_SIM_VERBOSE").is_ok() {
                    let l = &self.lconns[uid - 1];
                    eprintln!("LOST #{uid} node {node} ch {ch} at {} ms step {}: {reason}", sim.now / 1_000_000, sim.steps);
                    eprintln!("  this side: {:?}", sim.nodes[node].conns[&ch].conn.verif_snapshot());
                    eprintln!("  this side cids: {:?}", sim.nodes[node].conns[&ch].conn.verif_cid_view());
                    eprintln!("  stats: {:?}", sim.nodes[node].conns[&ch].conn.stats());
                    let peers: Vec<usize> = if node == SERVER { vec![l.cside] } else { l.ssides.clone() };
                    for p in peers {
                        let ps = &self.sides[p];
                        if let Some(nc) = sim.nodes[ps.node].conns.get(&ps.ch).filter(|_| ps.open) {
                            eprintln!("  peer node {} ch {}: {:?}", ps.node, ps.ch, nc.conn.verif_snapshot());
                            eprintln!("  peer cids: {:?}", nc.conn.verif_cid_view());
                            eprintln!("  peer stats: {:?}", nc.conn.stats());
                        }
                    }
                    eprintln!("  workload: client send {:?} recv {:?}; server send {:?} recv {:?}", l.w.sides[0].send, l.w.sides[0].recv.iter().map(|(k, v)| (*k, v.bytes, v.fin)).collect::<Vec<_>>(), l.w.sides[1].send, l.w.sides[1].recv.iter().map(|(k, v)| (*k, v.bytes, v.fin)).collect::<Vec<_>>());
                    eprintln!("  endpoint view node {node}: {:?}", sim.nodes[node].ep.verif_view());
                }
                if protected && reason.contains("Reset") && self.sides[i].shared_token_hit.is_some() {
                    // RFC 9000 10.3.2: with tokens computed from (static key, CID) "the combination of connection ID and static
                    // key MUST NOT be used for another connection"; quinn reuses CID values (recorded finding, short CIDs)
                    let what = self.sides[i].shared_token_hit.clone().unwrap();
                    sim.fail("routing-reset-token-reused-with-cid-value", format!("connection #{uid} (node {node} handle {ch}) was reset by a stateless reset whose token the peer endpoint had revealed before the CID value was given to it: {what}"));
                } else if protected && reason.contains("CONNECTION_ID_LIMIT_ERROR") {
                    // RFC 9000 5.1.1: "An endpoint MUST NOT provide more connection IDs than the peer's limit": between
                    // honest peers this error means the issuer over-issued (recorded finding: a CID-lifetime expiry and a
                    // RETIRE_CONNECTION_ID handled in one batch both claim the same free slot)
                    // The recorded finding is a RACE of the rotation machinery: it needs a CID lifetime on the issuing endpoint
                    // and an expiry that has already rotated this connection's CIDs (retire_prior_to > 0, which nothing but
                    // Timer::PushNewCid advances).  An over-issue by an endpoint that never rotates, or before the first
                    // rotation, has another cause and is not the recorded finding.
                    let issuers: Vec<usize> = if node == SERVER { vec![self.lconns[uid - 1].cside] } else { self.lconns[uid - 1].ssides.clone() };
                    let rotating = issuers.iter().any(|p| self.cfgs[self.sides[*p].node].lifetime.is_some() && self.sides[*p].rpt_seen > 0);
                    let facts: Vec<String> = issuers.iter().map(|p| format!("issuer node {} cid_lifetime {:?} retire_prior_to announced {}", self.sides[*p].node, self.cfgs[self.sides[*p].node].lifetime, self.sides[*p].rpt_seen)).collect();
                    let key = if rotating { "routing-rotation-exceeds-peer-cid-limit" } else { "routing-rotation-exceeds-peer-cid-limit-other-cause" };
                    sim.fail(key, format!("connection #{uid} (node {node} handle {ch}) ended with {reason}: its peer was given more connection IDs than its active_connection_id_limit ({})", facts.join("; ")));
                } else if protected {
                    let others: Vec<String> = self.lconns.iter().filter(|o| o.uid != uid && (o.closed || o.finished)).map(|o| format!("#{}", o.uid)).collect();
                    sim.fail("isolation-lost", format!("connection #{uid} (node {node} handle {ch}) reported {reason} although nobody closed, refused or disturbed it (connections closed/drained so far: {})", others.join(" ")));
                }
                if let Some(p) = reason.find("error_code: ") {
                    let code: u64 = reason[p + 12..].chars().take_while(|c| c.is_ascii_digit()).collect::<String>().parse().unwrap_or(0);
                    if reason.contains("ApplicationClosed") && code != 1000 + uid as u64 {
                        sim.fail("isolation-close-leak", format!("connection #{uid} (node {node} handle {ch}) was told its peer closed with application code {code}; its peer closes with {} only", 1000 + uid));
                    }
                }
            }
            if drained {
                self.sides[i].open = false;
                self.sides[i].forgot_step = Some(sim.steps);
                sim.nodes[node].conns.remove(&ch);
            }
        }
        let so = self.sides.iter().filter(|s| s.open && s.node == SERVER).count();
        self.peak_server_open = self.peak_server_open.max(so);
    }

    fn send_from_server(&mut self, sim: &mut Sim, t: quinn_proto::Transmit, buf: &[u8]) {
        let from = sim.nodes[SERVER].addr;
        sim.send_wire(SERVER, from, t.destination, t.ecn, buf[..t.size].to_vec());
    }

    fn handle_incomings(&mut self, sim: &mut Sim) {
        // new attempts: decide what the application will do with them
        for (_node, t_recv, inc) in std::mem::take(&mut sim.held) {
            let (idx, key) = inc.verif_route_key();
            let odc = inc.orig_dst_cid().to_vec();
            let uid = self.lconns.iter().find(|l| l.init_dcid == odc).map(|l| l.uid);
            let scl = self.cfgs[SERVER].cid_len;
            let (mut action, mut due, mut stale) = (Action::Accept, sim.now, false);
            match uid {
                Some(u) => {
                    let l = &mut self.lconns[u - 1];
                    let first = l.attempts == 0;
                    l.attempts += 1;
                    let dup = l.finished || l.closed || !l.ssides.is_empty();
                    if dup {
                        // a late copy of an Initial of a connection that already has (had) its server side: accepting
                        // it creates a second server connection for the same client. Not accepted (a) once the
                        // connection was closed (a client that missed the close would start over with nobody left to
                        // close it), (b) with zero-length server CIDs: the new connection takes the address tuple
                        // away from the one that owns it (documented limitation of zero-length CIDs, finding D4)
                        match self.rng.below(3) {
                            0 => action = Action::Refuse,
                            1 => action = Action::Ignore,
                            _ => {
                                if (l.closed || l.finished || scl == 0) && !self.no_excl {
                                    action = Action::Ignore;
                                }
                            }
                        }
                    } else if first {
                        match self.rng.below(100) {
                            0..=54 => {}
                            55..=69 => {
                                due = sim.now + self.rng.range(1_000_000, 1_500_000_000);
                                l.slow_start |= due > sim.now + 300_000_000;
                                self.delayed += 1;
                            }
                            70..=81 => {
                                if (scl >= 3 || self.no_excl) && inc.may_retry() && !inc.remote_address_validated() {
                                    action = Action::Retry;
                                }
                            }
                            82..=85 => action = Action::Refuse,
                            86..=92 => {
                                action = Action::Ignore;
                                l.slow_start = true;
                            }
                            _ => {
                                // (with 10 s or more the client's handshake would give up before its next retransmission)
                                if self.server_idle_ms <= 5_000 {
                                    due = t_recv + self.server_idle_ms * 1_000_000 + self.rng.range(0, 300_000_000);
                                    stale = true;
                                    l.slow_start = true;
                                }
                            }
                        }
                    } else if self.rng.chance(1, 5) {
                        due = sim.now + self.rng.range(1_000_000, 300_000_000);
                    }
                }
                None => action = Action::Ignore,
            }
            if due > sim.now {
                wake(sim, due);
            }
            if std::env::var("VERIF_SIM_VERBOSE").is_ok() {
                eprintln!("ATTEMPT t={} uid {uid:?} key {} orig {} validated {} may_retry {} -> {action:?} due {due}", sim.now, hexs(&key), hexs(&odc), inc.remote_address_validated(), inc.may_retry());
            }
            self.pending.push(Pending { inc, idx, key, uid, action, due, stale });
        }
        // act on what is due
        let mut i = 0;
        while i < self.pending.len() {
            if self.pending[i].due > sim.now {
                i += 1;
                continue;
            }
            let p = self.pending.remove(i);
            let mut buf = Vec::new();
            match p.action {
                Action::Ignore => {
                    self.ignored += 1;
                    sim.nodes[SERVER].ep.ignore(p.inc);
                }
                Action::Refuse => {
                    self.refused += 1;
                    if let Some(u) = p.uid {
                        // a client that has not finished its handshake obeys the refusal, whichever copy of its Initial
                        // the application refused
                        let l = &mut self.lconns[u - 1];
                        let c = &self.sides[l.cside];
                        let connected = c.connected || sim.nodes[c.node].conns.get(&c.ch).is_some_and(|nc| nc.obs.connected);
                        if l.ssides.is_empty() || !connected {
                            l.refused = true;
                        }
                    }
                    let t = sim.nodes[SERVER].ep.refuse(p.inc, &mut buf);
                    self.send_from_server(sim, t, &buf);
                }
                Action::Retry => match sim.nodes[SERVER].ep.retry(p.inc, &mut buf) {
                    Ok(t) => {
                        self.retries += 1;
                        self.send_from_server(sim, t, &buf);
                    }
                    Err(e) => sim.nodes[SERVER].ep.ignore(e.into_incoming()),
                },
                Action::Accept => {
                    let remote = p.inc.remote_address();
                    let odc = p.inc.orig_dst_cid().to_vec();
                    let now = sim.t();
                    match sim.nodes[SERVER].ep.accept(p.inc, now, &mut buf, None) {
                        Ok((ch, mut conn)) => {
                            conn.verif_txlog_enable();
                            let cv = conn.verif_cid_view();
                            sim.nodes[SERVER].conns.insert(ch.0, new_nodeconn(conn));
                            let uid = p.uid.expect("accepted attempts belong to a connection of the run");
                            let ghost = !self.lconns[uid - 1].ssides.is_empty() || self.lconns[uid - 1].finished;
                            let sidx = self.new_side(uid, SERVER, ch.0, remote, ghost);
                            self.sides[sidx].issued.insert(cv.handshake_cid.clone());
                            self.note_issue(SERVER, &cv.handshake_cid, sidx);
                            self.sides[sidx].initial_keys.insert(odc);
                            self.sides[sidx].initial_keys.insert(p.key.clone());
                            self.lconns[uid - 1].ssides.push(sidx);
                            if self.lconns[uid - 1].closed {
                                // the application has closed this connection already (possibly a server connection made from
                                // another copy of the client's Initial): it closes every further one at once
                                let code = VarInt::from_u32(1000 + uid as u32);
                                let now = sim.t();
                                sim.conn(SERVER, ch.0).close(now, code, bytes::Bytes::from(format!("bye-{uid}")));
                            }
                        }
                        Err(e) => {
                            let cause = format!("{:?}", e.cause);
                            if std::env::var("VERIF_SIM_VERBOSE").is_ok() {
                                eprintln!("ACCEPT-ERR t={} uid {:?} key {} orig {} from {remote} cause {cause}; server cids {:?}", sim.now, p.uid, hexs(&p.key), hexs(&odc), sim.nodes[SERVER].ep.verif_view().cids.iter().map(|(c, h)| (hexs(c), *h)).collect::<Vec<_>>());
                            }
                            if let Some(t) = e.response {
                                self.send_from_server(sim, t, &buf);
                            }
                            if p.stale && cause.contains("TimedOut") {
                                self.stale_accepts += 1;
                            } else if cause.contains("authentication failed") {
                                // a late copy of a later Initial packet of the client (addressed to a server CID that has
                                // been retired since, protected with the keys of the first DCID): nothing to accept
                                self.accept_auth_failures += 1;
                            } else if p.uid.is_some_and(|u| !self.lconns[u - 1].closed && !self.lconns[u - 1].finished) {
                                sim.fail("isolation-lost", format!("accept of the attempt of connection #{:?} failed with {cause} (held {} ms, server idle timeout {} ms)", p.uid, (sim.now - p.due) / 1_000_000, self.server_idle_ms));
                            }
                        }
                    }
                }
            }
        }
    }

    fn apps(&mut self, sim: &mut Sim) {
        for li in 0..self.lconns.len() {
            if self.lconns[li].finished {
                continue;
            }
            // the server side of the workload is the server connection that completes the handshake with this client
            if self.lconns[li].w.ch[1].is_none() {
                let pick = self.lconns[li].ssides.iter().copied().find(|s| self.sides[*s].open && self.sides[*s].connected);
                if let Some(s) = pick {
                    self.lconns[li].w.ch[1] = Some(self.sides[s].ch);
                }
            }
            // a connection whose side was forgotten no longer takes part (its handle may belong to a successor)
            let l = &mut self.lconns[li];
            if !self.sides[l.cside].open {
                l.w.ch[0] = None;
            }
            if let Some(sch) = l.w.ch[1] {
                let alive = l.ssides.iter().any(|s| self.sides[*s].open && self.sides[*s].ch == sch);
                if !alive {
                    l.w.ch[1] = None;
                }
            }
            l.w.tick(sim);
            // planned termination
            if !l.closed {
                let complete = l.w.ch[1].is_some() && l.w.complete();
                let due = l.close_step.is_some_and(|s| sim.steps >= s);
                if complete || due {
                    let code = VarInt::from_u32(1000 + l.uid as u32);
                    let reason = bytes::Bytes::from(format!("bye-{}", l.uid));
                    let now = sim.t();
                    let c_open = self.sides[l.cside].open;
                    let s_open: Vec<usize> = l.ssides.iter().copied().filter(|s| self.sides[*s].open).collect();
                    // the designated closer may not exist (yet, or any more): the server side of an attempt that is
                    // still held is waited for; if it will never exist the other side closes
                    let never_server = l.refused || (!l.ssides.is_empty() && s_open.is_empty());
                    let close_client = c_open && (l.closer != 1 || never_server);
                    let close_server = !s_open.is_empty() && (l.closer != 0 || !c_open);
                    if close_client {
                        sim.conn(l.cnode, self.sides[l.cside].ch).close(now, code, reason.clone());
                    }
                    if close_server {
                        for s in &s_open {
                            sim.conn(SERVER, self.sides[*s].ch).close(now, code, reason.clone());
                        }
                    }
                    if close_client || close_server || (!c_open && s_open.is_empty()) {
                        l.closed = true;
                        l.complete_at_close = complete;
                    }
                }
            }
        }
    }

    fn finish_and_probe(&mut self, sim: &mut Sim) {
        for li in 0..self.lconns.len() {
            let uid = self.lconns[li].uid;
            if !self.lconns[li].finished {
                let l = &self.lconns[li];
                let pend = self.pending.iter().any(|p| p.uid == Some(uid) && p.action == Action::Accept);
                let c_gone = !self.sides[l.cside].open;
                let s_gone = l.ssides.iter().all(|s| !self.sides[*s].open);
                // a connection that never got a server side (refused, or closed while its attempt was held) is done
                // once its client side is forgotten
                if c_gone && s_gone && !pend {
                    let l = &mut self.lconns[li];
                    l.finished = true;
                    let at = sim.now + self.rng.range(1_000_000, 400_000_000);
                    l.probes_at = Some(at);
                    wake(sim, at);
                }
            }
            let l = &mut self.lconns[li];
            if l.finished && !l.checked {
                l.checked = true;
                let protected = !l.refused && l.close_step.is_none();
                let before = sim.fails.len();
                l.w.final_check(sim, false);
                if protected && l.closed && !l.complete_at_close {
                    sim.fail("isolation-incomplete", format!("connection #{uid} was closed before its workload completed although it was to be closed on completion"));
                }
                let _ = before;
            }
            if l.finished && !l.probed && l.probes_at.is_some_and(|t| sim.now >= t) {
                l.probed = true;
                let server = sim.nodes[SERVER].addr;
                let caddr_now = sim.nodes[l.cnode].addr;
                let mut inj: Vec<(SocketAddr, SocketAddr, Vec<u8>, Option<[u8; 16]>)> = Vec::new();
                let cs = &self.sides[l.cside];
                // (1) its old datagrams, from the addresses they came from
                for s in &l.ssides {
                    for (from, data) in &self.sides[*s].samples {
                        inj.push((*from, server, data.clone(), None));
                    }
                }
                for (from, data) in &cs.samples {
                    inj.push((*from, caddr_now, data.clone(), None));
                }
                // (2) datagrams ending in every reset token it issued, from every address it ever had
                let mut toks: Vec<[u8; 16]> = cs.tokens_issued.iter().copied().collect();
                toks.truncate(12);
                for a in &l.addrs {
                    for t in &toks {
                        let n = self.rng.range(8, 60) as usize;
                        let mut d = self.rng.bytes(n);
                        d[0] = 0x40 | (d[0] & 0x3f);
                        d.extend_from_slice(t);
                        inj.push((*a, server, d, Some(*t)));
                    }
                }
                for s in &l.ssides {
                    let mut toks: Vec<[u8; 16]> = self.sides[*s].tokens_issued.iter().copied().collect();
                    toks.extend(cs.peer_tokens.iter().copied());
                    toks.truncate(12);
                    for t in toks {
                        let n = self.rng.range(8, 60) as usize;
                        let mut d = self.rng.bytes(n);
                        d[0] = 0x40 | (d[0] & 0x3f);
                        d.extend_from_slice(&t);
                        inj.push((server, caddr_now, d, Some(t)));
                    }
                }
                for (k, (from, to, data, tok)) in inj.into_iter().enumerate() {
                    let at = sim.now + 1_000 + 25_000_000 * k as u64 + self.rng.below(5_000_000);
                    self.probe_q.push((at, from, to, data, tok));
                    wake(sim, at);
                }
            }
        }
    }

    fn fire_probes(&mut self, sim: &mut Sim) {
        if !self.probe_q.iter().any(|p| p.0 <= sim.now) {
            return;
        }
        // a token that a live connection holds or issued (CID values, hence tokens, are reused with short or
        // zero-length CIDs) is a genuine stateless reset of that connection, which it must obey: not sent
        let live: BTreeSet<[u8; 16]> = self.sides.iter().filter(|s| s.open).flat_map(|s| s.peer_tokens.iter().chain(s.tokens_issued.iter()).copied()).collect();
        let mut i = 0;
        while i < self.probe_q.len() {
            if self.probe_q[i].0 > sim.now {
                i += 1;
                continue;
            }
            let (_, from, to, data, tok) = self.probe_q.remove(i);
            // an old datagram may itself be a stateless reset (its tail is then a token): same rule
            let tok = tok.or_else(|| {
                (data.len() >= 16).then(|| {
                    let mut t = [0u8; 16];
                    t.copy_from_slice(&data[data.len() - 16..]);
                    t
                })
            });
            if tok.is_some_and(|t| live.contains(&t)) {
                self.probes_skipped += 1;
                continue;
            }
            self.probes_sent += 1;
            let at = sim.now + 1_000;
            sim.push_wire(Dgram { at, seq: 0, from, to, ecn: None, data, origin: usize::MAX, genuine: false });
        }
    }

    fn migrate(&mut self, sim: &mut Sim) {
        if self.cfgs[SERVER].cid_len == 0 {
            return;
        }
        let mut node = None;
        if let Some((s, n)) = self.second_move_at {
            if sim.steps >= s {
                node = Some(n);
                self.second_move_at = None;
            }
        }
        if node.is_none() && self.moves.front().is_some_and(|s| sim.steps >= *s) {
            let k = sim.nodes.len();
            let n = [0usize].into_iter().chain(2..k).nth(self.rng.below((k - 1) as u64) as usize).unwrap();
            node = Some(n);
        }
        let Some(n) = node else { return };
        // only established connections can follow an address change
        let ready = self.lconns.iter().filter(|l| l.cnode == n && !l.finished && self.sides[l.cside].open).all(|l| {
            sim.nodes[n].conns.get(&self.sides[l.cside].ch).is_some_and(|c| c.obs.confirmed || c.obs.drained_events > 0 || l.closed)
        });
        if !ready {
            return;
        }
        if self.moves.front().is_some_and(|s| sim.steps >= *s) {
            self.moves.pop_front();
            if self.rng.chance(1, 2) {
                // two changes in a row
                self.second_move_at = Some((sim.steps + self.rng.range(1, 30), n));
            }
        }
        self.moved += 1;
        let old = sim.nodes[n].addr;
        let new = if self.rng.chance(1, 2) {
            SocketAddr::new(old.ip(), old.port() + 7)
        } else {
            match old.ip() {
                IpAddr::V4(v) => {
                    let o = v.octets();
                    SocketAddr::new(IpAddr::V4(Ipv4Addr::new(o[0], o[1], o[2].wrapping_add(1), o[3])), old.port())
                }
                IpAddr::V6(v) => {
                    let mut s = v.segments();
                    s[6] = s[6].wrapping_add(1);
                    SocketAddr::new(IpAddr::V6(Ipv6Addr::from(s)), old.port())
                }
            }
        };
        sim.nodes[n].addr = new;
        for l in self.lconns.iter_mut().filter(|l| l.cnode == n && !l.finished) {
            l.addrs.push(new);
            let s = &self.sides[l.cside];
            if s.open {
                if let Some(nc) = sim.nodes[n].conns.get_mut(&s.ch) {
                    if self.rng.chance(1, 2) {
                        nc.conn.local_address_changed();
                    } else {
                        nc.conn.ping();
                    }
                }
            }
        }
    }

    fn views_check(&mut self, sim: &mut Sim) {
        for node in 0..sim.nodes.len() {
            let v = sim.nodes[node].ep.verif_view();
            let open: BTreeSet<usize> = sim.nodes[node].conns.keys().copied().collect();
            let metas: BTreeMap<usize, &quinn_proto::verif::MetaView> = v.metas.iter().map(|m| (m.handle, m)).collect();
            let mh: BTreeSet<usize> = metas.keys().copied().collect();
            let mut bad: Vec<String> = Vec::new();
            if mh != open {
                bad.push(format!("the endpoint remembers connections {mh:?} but the open connections are {open:?}"));
            }
            for (h, m) in &metas {
                let Some(nc) = sim.nodes[node].conns.get(h) else { continue };
                let cv = nc.conn.verif_cid_view();
                let keys: Vec<u64> = m.loc_cids.iter().map(|x| x.0).collect();
                if keys != cv.local_active_seq || m.cids_issued != cv.local_issued {
                    bad.push(format!("handle {h}: the endpoint holds CID sequences {keys:?} (issued {}) but the connection believes {:?} are active (issued {})", m.cids_issued, cv.local_active_seq, cv.local_issued));
                }
                if v.cid_len > 0 {
                    for (seq, cid) in &m.loc_cids {
                        if !v.cids.iter().any(|(c, hh)| c == cid && hh == h) {
                            bad.push(format!("handle {h}: CID {} (sequence {seq}) of the connection is not routed to it", hexs(cid)));
                        }
                    }
                }
                if let Some((r, t)) = &m.reset_token {
                    if !v.reset_tokens.iter().any(|(rr, tt, hh)| rr == r && tt == t && hh == h) {
                        // recorded finding (audit D6): the table is keyed by (remote, token) without owner; a peer that reuses
                        // CID values (1-2 byte CIDs) hands the same token to two connections of this endpoint
                        let other = v.reset_tokens.iter().find(|(rr, tt, _)| rr == r && tt == t).map(|x| x.2);
                        // The recorded cause: the peer gave the SAME token to two connections of this endpoint (CID values
                        // reused / zero-length CIDs).  Checked here, not assumed: the table routes the token to another handle,
                        // another open connection holds the same (remote, token), or another connection of this node (open or
                        // forgotten) was given that token earlier.  An entry that is missing although nobody else ever held
                        // the token has another cause.
                        let me = self.occ.get(&(node, *h)).copied();
                        let shared = other.is_some()
                            || metas.iter().any(|(h2, m2)| *h2 != *h && m2.reset_token.as_ref().is_some_and(|(r2, t2)| r2 == r && t2 == t))
                            || self.sides.iter().enumerate().any(|(i, o)| Some(i) != me && o.node == node && o.peer_tokens.contains(t));
                        let key = if shared { "routing-reset-token-entry-lost" } else { "routing-reset-token-entry-lost-other-cause" };
                        if self.views_reported.insert(format!("tok {node} {h} {}", hexs(t))) {
                            sim.fail(key, format!("node {node} step {}: handle {h} accepts stateless resets with token {} from {r}, but the reset-token table {}", sim.steps, hexs(t), other.map_or(if shared { "has no entry for it (removed together with another connection that held the same token)".to_string() } else { "has no entry for it, and no other connection of this endpoint was ever given that token".to_string() }, |o| format!("routes that token to handle {o} (the same token was given to both connections)"))));
                        }
                    }
                }
                if m.server_side && !m.init_cid.is_empty() && !v.initial.iter().any(|(k, c, _)| k == &m.init_cid && *c == Some(*h)) {
                    bad.push(format!("handle {h}: its initial DCID {} is not routed to it", hexs(&m.init_cid)));
                }
            }
            for (cid, h) in &v.cids {
                if !metas.get(h).is_some_and(|m| m.loc_cids.iter().any(|(_, c)| c == cid)) {
                    bad.push(format!("CID {} routes to handle {h}, which {}", hexs(cid), if metas.contains_key(h) { "does not hold it" } else { "is not open" }));
                }
            }
            for (r, t, h) in &v.reset_tokens {
                if !metas.get(h).is_some_and(|m| m.reset_token == Some((*r, *t))) {
                    bad.push(format!("reset token {} from {r} routes to handle {h}, {}", hexs(t), if metas.contains_key(h) { "whose current peer token is another one" } else { "which is not open" }));
                }
            }
            for (k, c, i) in &v.initial {
                if let Some(h) = c {
                    if !metas.get(h).is_some_and(|m| m.server_side && &m.init_cid == k) {
                        bad.push(format!("initial DCID {} routes to handle {h}, which is not an open server connection with that initial DCID", hexs(k)));
                    }
                }
                if let Some(i) = i {
                    if !self.pending.iter().any(|p| p.idx == *i && &p.key == k) && !sim.held.iter().any(|(_, _, inc)| inc.verif_route_key() == (*i, k.clone())) {
                        bad.push(format!("initial DCID {} routes to pending attempt slot {i}, but the application holds no such attempt (held: {:?})", hexs(k), self.pending.iter().map(|p| (p.idx, hexs(&p.key))).collect::<Vec<_>>()));
                    }
                }
            }
            let held: BTreeSet<usize> = self.pending.iter().map(|p| p.idx).chain(sim.held.iter().map(|(_, _, inc)| inc.verif_route_key().0)).collect();
            let slots: BTreeSet<usize> = v.incoming_slots.iter().copied().collect();
            if node == SERVER && held != slots {
                bad.push(format!("pending-attempt slots {slots:?} but the application holds attempts {held:?}"));
            }
            for (r, h) in v.in_remotes.iter().chain(v.out_remotes.iter()) {
                if !open.contains(h) {
                    bad.push(format!("address {r} routes to handle {h}, which is not open"));
                }
            }
            // each discrepancy is reported once (it usually persists)
            let n = bad.len();
            for b in bad {
                if self.views_reported.len() < 6 && self.views_reported.insert(format!("{node} {b}")) {
                    sim.fail("routing-cid-views-diverge", format!("node {node} step {}: {b} ({n} discrepancies at this step)", sim.steps));
                }
            }
        }
    }
}

pub fn multi(seed: u64, out: &mut Outcome) {
    let mut rng = Rng::new(seed ^ 0x3a1d);
    let scfg_ep = pick_epcfg(&mut rng);
    let server_idle_ms = *rng.pick(&[5_000u64, 10_000, 30_000]);
    let mut n_clients = 1 + rng.below(3) as usize;
    let mut ccfgs: Vec<EpCfg> = (0..5).map(|_| pick_epcfg(&mut rng)).collect();
    if scfg_ep.cid_len == 0 {
        n_clients = 3 + rng.below(3) as usize;
    }
    // a run in which every client endpoint can have one connection only needs enough endpoints
    if ccfgs[..n_clients].iter().all(|c| c.cid_len == 0) {
        n_clients = n_clients.max(3);
    }
    ccfgs.truncate(n_clients);
    let clock = SimClock(Arc::new(Mutex::new(std::time::UNIX_EPOCH + Duration::from_secs(1_700_000_000))));
    let mut scfg = server_config(seed, tc_for(server_idle_ms, &mut rng), &clock);
    scfg.migration(true);
    let server = Endpoint::new(Arc::new(make_endpoint_config(seed ^ 1, &scfg_ep)), Some(Arc::new(scfg)), true);
    let client0 = Endpoint::new(Arc::new(make_endpoint_config(seed ^ 2, &ccfgs[0])), None, true);
    let mut sim = Sim::new(seed, client0, server, clock);
    let v4 = rng.chance(1, 2);
    let caddr = |k: usize| -> SocketAddr {
        if v4 {
            SocketAddr::new(IpAddr::V4(Ipv4Addr::new(10, 0, k as u8 * 16, 1)), 44433)
        } else {
            SocketAddr::new(IpAddr::V6(Ipv6Addr::new(0, 0, 0, 0, 0, k as u16, 0, 1)), 44433)
        }
    };
    sim.nodes[SERVER].addr = if v4 { SocketAddr::new(IpAddr::V4(Ipv4Addr::new(10, 9, 0, 2)), 4433) } else { addr(4433) };
    sim.nodes[CLIENT].addr = caddr(1);
    let mut cfgs = vec![ccfgs[0].clone(), scfg_ep.clone()];
    for k in 1..n_clients {
        let ep = Endpoint::new(Arc::new(make_endpoint_config(seed ^ (0x100 + k as u64), &ccfgs[k])), None, true);
        sim.nodes.push(Node {
            ep,
            addr: caddr(k + 1),
            conns: BTreeMap::new(),
            policy: IncomingPolicy::Accept,
            accepted: Vec::new(),
            accept_errors: Vec::new(),
            recv_from: HashMap::new(),
            sent_to: HashMap::new(),
            max_datagrams: 10,
            server_config_for_accept: None,
            ep_tx: 0,
            amp_epoch: HashMap::new(),
        });
        cfgs.push(ccfgs[k].clone());
    }
    sim.nodes[SERVER].policy = IncomingPolicy::Hold;
    // several connections share one address: the per-address amplification ledger of the simulator does not apply
    sim.check_amp = false;
    sim.record_plain = true;
    sim.route_log = Some(Vec::new());
    sim.net = NetCfg {
        latency_ns: rng.range(3, 25) * 1_000_000,
        jitter_ns: *rng.pick(&[0u64, 2_000_000, 15_000_000]),
        drop_permille: *rng.pick(&[0u64, 5, 30]),
        dup_permille: *rng.pick(&[0u64, 10, 40]),
        corrupt_permille: 0,
        truncate_permille: 0,
        replay_permille: *rng.pick(&[0u64, 0, 10]),
        max_consecutive_drops: 2,
        path_mtu: 1452,
        ce: false,
    };
    let single: Vec<bool> = (0..sim.nodes.len()).map(|n| n != SERVER && (scfg_ep.cid_len == 0 || cfgs[n].cid_len == 0)).collect();
    let cap: usize = (0..sim.nodes.len()).filter(|n| *n != SERVER).map(|n| if single[n] { 1 } else { 8 }).sum();
    let max_live = (3 + rng.below(6) as usize).min(cap.max(1));
    let planned = 6 + rng.below(9) as usize;
    let n_moves = rng.below(3);
    let mut moves: Vec<u64> = (0..n_moves).map(|_| rng.range(40, 900)).collect();
    moves.sort();
    let mut st = St {
        rng: Rng::new(seed ^ 0x77aa),
        seed,
        cfgs,
        sides: Vec::new(),
        occ: HashMap::new(),
        lconns: Vec::new(),
        pending: Vec::new(),
        probe_q: Vec::new(),
        views_reported: BTreeSet::new(),
        resets_made: Vec::new(),
        token_cid: HashMap::new(),
        cid_dbg: HashMap::new(),
        probes_skipped: 0,
        server_idle_ms,
        no_excl: std::env::var("VERIF_MULTI_NOEXCL").is_ok(),
        planned,
        max_live,
        single,
        moves: moves.into(),
        second_move_at: None,
        plain_seen: 0,
        peak_server_open: 0,
        handles_seen: BTreeSet::new(),
        handle_reuse: 0,
        cid_value_reuse: 0,
        probes_sent: 0,
        moved: 0,
        accept_auth_failures: 0,
        switches: 0,
        stale_accepts: 0,
        retries: 0,
        refused: 0,
        ignored: 0,
        delayed: 0,
        buffered: 0,
        rotations: 0,
        routed_total: 0,
        last_open_step: 0,
        all_issued: HashMap::new(),
    };
    let mut settle_until: Option<u64> = None;
    let end = sim.run_until(400_000_000_000, 600_000, |sim| {
        st.read_txlogs(sim);
        st.sample_metas(sim);
        st.process_routes(sim);
        st.watch_sides(sim);
        st.handle_incomings(sim);
        st.apps(sim);
        st.finish_and_probe(sim);
        st.fire_probes(sim);
        st.migrate(sim);
        // a connection switches to the next CID of its peer (and retires the old one) without any address change:
        // retirements reach the peers in orders unrelated to issuance
        if st.rng.chance(1, 150) {
            let open: Vec<usize> = (0..st.sides.len()).filter(|i| st.sides[*i].open && st.sides[*i].node != SERVER).collect();
            if !open.is_empty() {
                let i = *st.rng.pick(&open);
                let (n, ch) = (st.sides[i].node, st.sides[i].ch);
                if let Some(nc) = sim.nodes[n].conns.get_mut(&ch) {
                    if nc.obs.confirmed && nc.obs.lost.is_empty() {
                        nc.conn.local_address_changed();
                        st.switches += 1;
                    }
                }
            }
        }
        // open successors / the first batch
        let live = st.lconns.iter().filter(|l| !l.finished).count();
        if st.lconns.len() < st.planned && live < st.max_live && (st.lconns.len() < st.max_live || sim.steps >= st.last_open_step + 3) {
            let k = sim.nodes.len();
            let cands: Vec<usize> = (0..k)
                .filter(|n| *n != SERVER)
                .filter(|n| {
                    let l = st.live_at(*n);
                    if st.single[*n] {
                        l == 0
                    } else {
                        l < 8
                    }
                })
                .collect();
            if !cands.is_empty() {
                let n = *st.rng.pick(&cands);
                st.open_conn(sim, n);
            }
        }
        st.views_check(sim);
        // done: every planned connection finished and probed, the probes delivered
        let all = st.lconns.len() >= st.planned && st.lconns.iter().all(|l| l.finished && l.probed) && st.pending.is_empty() && st.probe_q.is_empty();
        if all {
            if settle_until.is_none() {
                settle_until = Some(sim.now + 1_500_000_000);
                wake(sim, sim.now + 1_500_000_001);
            }
            return sim.now >= settle_until.unwrap();
        }
        false
    });
    // whatever arrived in the last step
    st.read_txlogs(&mut sim);
    st.process_routes(&mut sim);
    if end != RunEnd::Done {
        let left: Vec<String> = st
            .lconns
            .iter()
            .filter(|l| !l.finished)
            .map(|l| format!("#{} (closed {}, refused {}, client open {}, server sides open {})", l.uid, l.closed, l.refused, st.sides[l.cside].open, l.ssides.iter().filter(|s| st.sides[**s].open).count()))
            .collect();
        sim.fail("isolation-incomplete", format!("run ended {end:?} at {} ms with {} of {} connections opened and these not finished: {}", sim.now / 1_000_000, st.lconns.len(), st.planned, left.join(", ")));
    }
    // held attempts must be handed back (no leak warning noise)
    for p in st.pending.drain(..) {
        sim.nodes[SERVER].ep.ignore(p.inc);
    }
    for (_, _, inc) in std::mem::take(&mut sim.held) {
        sim.nodes[SERVER].ep.ignore(inc);
    }
    out.runs += 1;
    out.evaluations += st.routed_total;
    let reused = st.handle_reuse > 0;
    if st.peak_server_open >= 3 && reused && st.probes_sent > 0 {
        out.nontrivial += 1;
    }
    out.count(&format!("end:{end:?}"), 1);
    out.count("connections", st.lconns.len() as u64);
    out.count("datagrams-routed-and-judged", st.routed_total);
    out.count("handles-reused", st.handle_reuse);
    out.count("cid-values-reissued", st.cid_value_reuse);
    out.count("cid-rotations-beyond-first-batch", st.rotations);
    out.count("address-changes", st.moved);
    out.count("peer-cid-switches-without-address-change", st.switches);
    out.count("probes-against-forgotten", st.probes_sent);
    out.count("probes-withheld-token-live-again", st.probes_skipped);
    out.count("attempts-accepted-stale", st.stale_accepts);
    out.count("attempts-retried", st.retries);
    out.count("attempts-undecryptable-late-copies", st.accept_auth_failures);
    out.count("attempts-refused", st.refused);
    out.count("attempts-ignored", st.ignored);
    out.count("attempts-accepted-late", st.delayed);
    out.count("datagrams-buffered-for-attempts", st.buffered);
    out.count(&format!("server-cid-len:{}", st.cfgs[SERVER].cid_len), 1);
    out.count(&format!("server-gen:{:?}", st.cfgs[SERVER].gen), 1);
    for n in (0..sim.nodes.len()).filter(|n| *n != SERVER) {
        out.count(&format!("client-cid-len:{}", st.cfgs[n].cid_len), 1);
    }
    out.count(&format!("peak-open-on-server:{}", st.peak_server_open.min(8)), 1);
    if out.samples.len() < 3 {
        out.samples.push(format!(
            "seed {seed}: server cid {:?}, clients {:?}, {} connections (peak {} open on the server), handles reused {}, CID values reissued {}, moves {}, probes {}, stale accepts {}, end {end:?} at {} ms / {} steps",
            st.cfgs[SERVER],
            (0..sim.nodes.len()).filter(|n| *n != SERVER).map(|n| (st.cfgs[n].cid_len, st.cfgs[n].gen)).collect::<Vec<_>>(),
            st.lconns.len(),
            st.peak_server_open,
            st.handle_reuse,
            st.cid_value_reuse,
            st.moved,
            st.probes_sent,
            st.stale_accepts,
            sim.now / 1_000_000,
            sim.steps
        ));
    }
    if let Ok(f) = std::env::var("VERIF_MULTI_TRACE") {
        // "n0 c2": plaintext packets of one connection object, and what the endpoints did with the datagrams
        for l in sim.plain.iter().filter(|l| l.starts_with(&f)) {
            eprintln!("PLAIN {l}");
        }
    }
    if let Ok(f) = std::env::var("VERIF_MULTI_REC") {
        // "0 2": simulator records of one (node, handle)
        let v: Vec<usize> = f.split_whitespace().filter_map(|x| x.parse().ok()).collect();
        for r in &sim.trace {
            let hit = match r {
                Rec::Tx { node, ch, .. } | Rec::Ev { node, ch, .. } | Rec::EpEv { node, ch, .. } | Rec::Timeout { node, ch, .. } => *node == v[0] && *ch == v[1],
                _ => false,
            };
            if hit {
                eprintln!("REC {r:?}");
            }
        }
    }
    if std::env::var("VERIF_SIM_VERBOSE").is_ok() {
        eprintln!("multi seed {seed}: cfgs {:?} idle {} planned {} max_live {} net {:?}", st.cfgs, st.server_idle_ms, st.planned, st.max_live, sim.net);
        for l in &st.lconns {
            eprintln!(
                " #{} node {} ch {} ssides {:?} closer {} close_step {:?} closed {} refused {} attempts {} finished {} addrs {:?}",
                l.uid, l.cnode, st.sides[l.cside].ch, l.ssides.iter().map(|s| (st.sides[*s].ch, st.sides[*s].ghost, st.sides[*s].forgot_step)).collect::<Vec<_>>(), l.closer, l.close_step, l.closed, l.refused, l.attempts, l.finished, l.addrs
            );
        }
    }
    for f in sim.fails.drain(..) {
        out.fails.push(format!("{f} seed={seed}"));
    }
}
