//! What each endpoint PUT ON THE WIRE, in plaintext, datagram by datagram (hooks `verif_txlog` + `verif_txmeta`), and
//! which of those datagrams each connection was HANDED, from which source address (`Sim::route_log`).
//!
//! Property oracles of C15 (scenario `pathv`) and C08 (scenario `term`) are computed from this record: the kind of a
//! received packet (probing / ack-eliciting / which tokens, connection IDs, close frames it carries) is read from the
//! SENDER's own log of the packet, never from what the receiver did with it.
use std::collections::HashMap;
use std::net::SocketAddr;
use std::time::Duration;

use quinn_proto::verif::PathSnap;

use crate::sim::{Routed, Sim};

/// One packet as its sender built it
#[derive(Clone, Debug)]
pub struct Pkt {
    /// 0 Initial, 1 Handshake, 2 Data (0-RTT and 1-RTT)
    pub space: u8,
    pub pn: u64,
    pub long: bool,
    /// wire type of every frame, in order (PADDING runs are one `0`)
    pub types: Vec<u64>,
    /// the frames in the sender's debug rendering
    pub line: String,
}

fn numbers_after(line: &str, pat: &str) -> Vec<u64> {
    let mut out = Vec::new();
    let mut rest = line;
    while let Some(i) = rest.find(pat) {
        rest = &rest[i + pat.len()..];
        let n: String = rest.chars().take_while(|c| c.is_ascii_digit()).collect();
        if let Ok(v) = n.parse() {
            out.push(v);
        }
    }
    out
}

impl Pkt {
    /// RFC 9002 2: every frame other than ACK, PADDING and CONNECTION_CLOSE is ack-eliciting
    pub fn ack_eliciting(&self) -> bool {
        self.types.iter().any(|t| !matches!(*t, 0 | 2 | 3 | 0x1c | 0x1d))
    }
    /// RFC 9000 9.1: a packet that holds only PATH_CHALLENGE, PATH_RESPONSE, NEW_CONNECTION_ID and PADDING frames
    pub fn probing(&self) -> bool {
        self.types.iter().all(|t| matches!(*t, 0 | 0x1a | 0x1b | 0x18))
    }
    pub fn has(&self, ty: u64) -> bool {
        self.types.contains(&ty)
    }
    pub fn is_close(&self) -> bool {
        self.has(0x1c) || self.has(0x1d)
    }
    pub fn path_challenges(&self) -> Vec<u64> {
        if self.has(0x1a) { numbers_after(&self.line, "PathChallenge(") } else { Vec::new() }
    }
    pub fn path_responses(&self) -> Vec<u64> {
        if self.has(0x1b) { numbers_after(&self.line, "PathResponse(") } else { Vec::new() }
    }
    /// (sequence, retire_prior_to, connection id as lower-case hex) of the NEW_CONNECTION_ID frames
    pub fn new_cids(&self) -> Vec<(u64, u64, String)> {
        let mut out = Vec::new();
        if !self.has(0x18) {
            return out;
        }
        let mut rest = self.line.as_str();
        let pat = "NewConnectionId(NewConnectionId { sequence: ";
        while let Some(i) = rest.find(pat) {
            rest = &rest[i + pat.len()..];
            let seq: String = rest.chars().take_while(|c| c.is_ascii_digit()).collect();
            let rpt = numbers_after(rest, "retire_prior_to: ").first().copied().unwrap_or(0);
            // `ConnectionId` renders as a decimal byte list: `id: [1, 2, 3]`
            let id = rest
                .find("id: [")
                .map(|j| {
                    let body: String = rest[j + 5..].chars().take_while(|c| *c != ']').collect();
                    body.split(',').filter_map(|x| x.trim().parse::<u8>().ok()).map(|b| format!("{b:02x}")).collect::<String>()
                })
                .unwrap_or_default();
            if let Ok(s) = seq.parse() {
                out.push((s, rpt, id));
            }
        }
        out
    }
}

/// One datagram as its sender emitted it
#[derive(Clone, Debug)]
pub struct DgramRec {
    pub node: usize,
    pub ch: usize,
    pub at: u64,
    pub dst: SocketAddr,
    pub len: usize,
    /// destination connection ID of the first packet (lower-case hex), `cid_len`-byte CIDs assumed for short headers
    pub dcid: String,
    pub pkts: Vec<Pkt>,
}

impl DgramRec {
    /// the 1-RTT packet of the datagram (a short header has no length: at most one, the last)
    pub fn one_rtt(&self) -> Option<&Pkt> {
        self.pkts.iter().find(|p| p.space == 2 && !p.long)
    }
}

pub fn hexs(b: &[u8]) -> String {
    b.iter().map(|x| format!("{x:02x}")).collect()
}

pub fn dcid_hex(d: &[u8], cid_len: usize) -> String {
    if d.is_empty() {
        return String::new();
    }
    if d[0] & 0x80 != 0 {
        let dl = d.get(5).copied().unwrap_or(0) as usize;
        d.get(6..6 + dl).map(hexs).unwrap_or_default()
    } else {
        d.get(1..1 + cid_len).map(hexs).unwrap_or_default()
    }
}

/// A datagram handed to a connection: where it came from and, if one of the two endpoints built exactly these bytes,
/// the sender's record of it (index into `TxObs::recs`)
#[derive(Clone, Debug)]
pub struct RxInfo {
    pub from: SocketAddr,
    pub len: usize,
    pub genuine: bool,
    pub rec: Option<usize>,
    pub data: Vec<u8>,
}

#[derive(Default)]
pub struct TxObs {
    pub recs: Vec<DgramRec>,
    by_data: HashMap<Vec<u8>, usize>,
    /// per (node, connection): how many `route_log` records routed to it have been consumed
    cursor: HashMap<(usize, usize), usize>,
    /// positions in `route_log` of the records routed to (node, connection), in order
    routed: HashMap<(usize, usize), Vec<usize>>,
    scanned: usize,
    pub cid_len: usize,
    /// packets whose position in the transmit buffer did not match the meta data (never expected)
    pub misaligned: u64,
}

impl TxObs {
    pub fn new(cid_len: usize) -> Self {
        Self { cid_len, ..Default::default() }
    }

    /// Switch the hooks on for every connection the simulator creates from now on
    pub fn arm(sim: &mut Sim) {
        sim.record_plain = true;
        sim.record_meta = true;
        if sim.route_log.is_none() {
            sim.route_log = Some(Vec::new());
        }
    }

    /// Record one `Transmit` of connection (node, ch): call right after the `poll_transmit` that produced it.
    /// Returns the indices of the datagram records added.
    pub fn on_tx(&mut self, sim: &mut Sim, node: usize, ch: usize, t: &quinn_proto::Transmit, buf: &[u8]) -> Vec<usize> {
        let (metas, lines) = {
            let c = sim.conn(node, ch);
            (c.verif_take_txpkts(), c.verif_take_txlog())
        };
        let seg = t.segment_size.unwrap_or(t.size.max(1)).max(1);
        let n = t.size.div_ceil(seg);
        let first = self.recs.len();
        for i in 0..n {
            let (a, b) = (i * seg, ((i + 1) * seg).min(t.size));
            let data = &buf[a..b];
            self.recs.push(DgramRec { node, ch, at: sim.now, dst: t.destination, len: b - a, dcid: dcid_hex(data, self.cid_len), pkts: Vec::new() });
            self.by_data.entry(data.to_vec()).or_insert(first + i);
        }
        for (k, m) in metas.iter().enumerate() {
            let line = lines.get(k).cloned().unwrap_or_default();
            // "<space> <pn>: frames"
            let ok = line.starts_with(&format!("{} {}:", m.space, m.pn)) && m.start + m.len <= t.size && buf.get(m.start).is_some_and(|b| (b & 0x80 != 0) == m.long_header);
            if !ok || n == 0 {
                self.misaligned += 1;
                continue;
            }
            let i = m.start / seg;
            let frames = line.splitn(2, ':').nth(1).unwrap_or("").to_string();
            self.recs[first + i].pkts.push(Pkt { space: m.space, pn: m.pn, long: m.long_header, types: m.frame_types.clone(), line: frames });
        }
        (first..first + n).collect()
    }

    pub fn lookup(&self, data: &[u8]) -> Option<usize> {
        self.by_data.get(data).copied()
    }

    /// The datagram connection (node, ch) is about to handle (call from `rx_tap` with `post == false`, once per event)
    pub fn next_rx(&mut self, sim: &Sim, node: usize, ch: usize) -> Option<RxInfo> {
        let log = sim.route_log.as_ref()?;
        while self.scanned < log.len() {
            if let Routed::Conn(c) = log[self.scanned].to {
                self.routed.entry((log[self.scanned].node, c)).or_default().push(self.scanned);
            }
            self.scanned += 1;
        }
        let cur = self.cursor.entry((node, ch)).or_insert(0);
        let idx = *self.routed.get(&(node, ch))?.get(*cur)?;
        *cur += 1;
        let r = &log[idx];
        Some(RxInfo { from: r.from, len: r.data.len(), genuine: r.genuine, rec: self.by_data.get(&r.data).copied(), data: r.data.clone() })
    }
}

/// Probe timeout of RFC 9002 6.2.1 from the path's RTT estimate: smoothed_rtt + max(4*rttvar, kGranularity) + max_ack_delay
/// (kGranularity = 1 ms; `max_ack_delay` = the peer's transport parameter, 25 ms unless negotiated otherwise)
pub fn rfc_pto(p: &PathSnap, max_ack_delay: Duration) -> Duration {
    p.rtt_smoothed + (4 * p.rtt_var).max(Duration::from_millis(1)) + max_ack_delay
}
