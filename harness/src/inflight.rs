//! C12 ledger oracle `in-flight-bytes-unaccounted` (+ `in-flight-ack-eliciting-without-loss-timer`), evaluated on every
//! snapshot of a scenario (after every transmit, every handled datagram, every step), migrations included.
//!
//! Property text (C12): "every sent packet is accounted exactly once as acknowledged, lost or abandoned, so bytes in
//! flight return to zero"; RFC 9002 §2: a packet is ACK-ELICITING when it carries a frame other than ACK, PADDING and
//! CONNECTION_CLOSE, and IN FLIGHT when it is ack-eliciting or carries PADDING; Appendix A.8: the loss-detection timer is
//! armed while ack-eliciting packets are in flight (unless the sender sits at the anti-amplification limit).
//!
//! What a packet IS comes from the harness' own record of what the sender built (hook `verif_txmeta`: size on the wire
//! and the wire types of the frames really written, before packet protection) — never from the flags the connection
//! stored for it. Which packets are still unresolved (neither acknowledged, nor declared lost, nor abandoned), and on
//! which path object each was accounted, is read with `Connection::verif_outstanding` / `verif_path_generations`.
//! Then, for the current path and for the remembered previous path:
//!   Σ wire size of the unresolved in-flight packets of that path generation  ==  path.in_flight.bytes
//!   number of unresolved ack-eliciting packets of that path generation       ==  path.in_flight.ack_eliciting
//! and every unresolved packet is stored with the size / ack-eliciting flag its frames give it. A packet that went out
//! with a PATH_CHALLENGE but is stored as "padded, not ack-eliciting" (raw seed 3000498 of `pathv`) breaks the second
//! equation the moment it is sent: its bytes are in flight, no probe timeout covers it, and when it is lost nothing
//! ever removes it.
//!
//! Limits: packets the connection never tracked (the PATH_CHALLENGE sent once to the previous path) are outside the
//! sums; packets the harness has no record of (built by a `poll_transmit` that returned nothing) make the check of that
//! path be skipped (counted).
use std::collections::{BTreeSet, HashMap};

use crate::sim::Sim;

#[derive(Clone, Debug)]
struct Fact {
    len: usize,
    types: Vec<u64>,
}

impl Fact {
    /// RFC 9002 2: every frame other than ACK, PADDING and CONNECTION_CLOSE is ack-eliciting
    fn ack_eliciting(&self) -> bool {
        self.types.iter().any(|t| !matches!(*t, 0 | 2 | 3 | 0x1c | 0x1d))
    }
    /// RFC 9002 2: in flight = ack-eliciting or contains PADDING
    fn in_flight(&self) -> bool {
        self.ack_eliciting() || self.types.contains(&0)
    }
}

#[derive(Default)]
pub struct InFlightObs {
    /// (node, connection, space, packet number) -> what the sender built
    pkts: HashMap<(usize, usize, u8, u64), Fact>,
    reported: BTreeSet<(usize, usize, &'static str)>,
    pub checks: u64,
    pub checks_with_in_flight: u64,
    pub checks_on_unvalidated_path: u64,
    pub checks_with_prev_path: u64,
    pub skipped_unknown_packet: u64,
    pub timer_checks: u64,
    /// RFC-legal, reported as a statistic only: bytes in flight that belong to padded non-ack-eliciting packets alone,
    /// no loss-detection timer armed
    pub padding_only_without_timer: u64,
}

impl InFlightObs {
    pub fn new() -> Self {
        Self::default()
    }

    /// Record the packets connection (node, ch) has just built: call from the scenario's `tx_tap` (the records are read
    /// without consuming them; the simulator drops them after the tap)
    pub fn on_tx(&mut self, sim: &Sim, node: usize, ch: usize) {
        for m in sim.nodes[node].conns[&ch].conn.verif_peek_txpkts() {
            if m.len > 0 {
                self.pkts.insert((node, ch, m.space, m.pn), Fact { len: m.len, types: m.frame_types.clone() });
            }
        }
    }

    fn fail_once(&mut self, sim: &mut Sim, node: usize, ch: usize, key: &'static str, what: String) {
        if self.reported.insert((node, ch, key)) {
            sim.fail(key, what);
        }
    }

    /// Evaluate the ledger equations on the present state of connection (node, ch)
    pub fn check(&mut self, sim: &mut Sim, node: usize, ch: usize) {
        let Some(nc) = sim.nodes[node].conns.get(&ch) else { return };
        let s = nc.conn.verif_snapshot();
        if s.state != "established" && s.state != "handshake" {
            return;
        }
        let confirmed = nc.obs.confirmed;
        let out = nc.conn.verif_outstanding();
        let (gen_cur, gen_prev) = nc.conn.verif_path_generations();
        self.checks += 1;
        if !s.path.validated {
            self.checks_on_unvalidated_path += 1;
        }
        if gen_prev.is_some() {
            self.checks_with_prev_path += 1;
        }
        let mut cur_ack_eliciting_outstanding: Option<(u8, u64)> = None;
        let mut cur_unknown = false;
        for (which, generation, ps) in [("current", Some(gen_cur), Some(&s.path)), ("previous", gen_prev, s.prev_path.as_ref())] {
            let (Some(generation), Some(ps)) = (generation, ps) else { continue };
            let (mut bytes, mut ae, mut unknown) = (0u64, 0u64, false);
            let mut wrong: Vec<String> = Vec::new();
            for p in out.iter().filter(|p| p.path_generation == generation) {
                let Some(f) = self.pkts.get(&(node, ch, p.space, p.pn)) else {
                    unknown = true;
                    continue;
                };
                let size = if f.in_flight() { f.len as u64 } else { 0 };
                bytes += size;
                ae += f.ack_eliciting() as u64;
                if which == "current" && f.ack_eliciting() && cur_ack_eliciting_outstanding.is_none() {
                    cur_ack_eliciting_outstanding = Some((p.space, p.pn));
                }
                if p.size as u64 != size || p.ack_eliciting != f.ack_eliciting() {
                    wrong.push(format!(
                        "space {} packet {} ({} bytes, frame types {:x?}: ack-eliciting {}, in flight {}) is stored as size {} ack_eliciting {}",
                        p.space,
                        p.pn,
                        f.len,
                        f.types,
                        f.ack_eliciting(),
                        f.in_flight(),
                        p.size,
                        p.ack_eliciting
                    ));
                }
            }
            if unknown {
                self.skipped_unknown_packet += 1;
                if which == "current" {
                    cur_unknown = true;
                }
                continue;
            }
            if bytes > 0 {
                self.checks_with_in_flight += 1;
            }
            if bytes != ps.in_flight_bytes || ae != ps.in_flight_ack_eliciting || !wrong.is_empty() {
                let now = sim.now;
                self.fail_once(
                    sim,
                    node,
                    ch,
                    "in-flight-bytes-unaccounted",
                    format!(
                        "node {node} conn {ch} at {now}: {which} path (generation {generation}, remote {}, validated {}) counts in_flight bytes {} / ack-eliciting packets {}, but its unresolved packets (sent, neither acknowledged nor lost nor abandoned), judged by the frames they were built with, amount to {bytes} bytes in flight / {ae} ack-eliciting packets; mis-stored packets: {wrong:?}",
                        ps.remote, ps.validated, ps.in_flight_bytes, ps.in_flight_ack_eliciting
                    ),
                );
            }
        }
        // RFC 9002 A.8 (SetLossDetectionTimer): with an ack-eliciting packet in flight the timer is armed, unless the sender
        // is at the anti-amplification limit of an unvalidated path. (Before the handshake is confirmed the probe timeout
        // of the application space is not armed: judged after confirmation only.)
        if confirmed && s.state == "established" && !cur_unknown {
            let amp_limited = !s.path.validated && s.path.total_recvd * 3 < s.path.total_sent + 1;
            if let Some((space, pn)) = cur_ack_eliciting_outstanding {
                self.timer_checks += 1;
                if s.timers[0].is_none() && !amp_limited {
                    let now = sim.now;
                    self.fail_once(
                        sim,
                        node,
                        ch,
                        "in-flight-ack-eliciting-without-loss-timer",
                        format!(
                            "node {node} conn {ch} at {now}: ack-eliciting packet {pn} of space {space} (frame types {:x?}) is unresolved on the current path ({}), yet no loss-detection timer is armed (in_flight bytes {} / ack-eliciting {} by the connection's own count)",
                            self.pkts.get(&(node, ch, space, pn)).map(|f| f.types.clone()).unwrap_or_default(),
                            s.path.remote,
                            s.path.in_flight_bytes,
                            s.path.in_flight_ack_eliciting
                        ),
                    );
                }
            } else if s.path.in_flight_bytes > 0 && s.timers[0].is_none() {
                self.padding_only_without_timer += 1;
            }
        }
    }

    pub fn counters(&self) -> Vec<(&'static str, u64)> {
        vec![
            ("inflight-ledger-checks", self.checks),
            ("inflight-ledger-checks-with-bytes-in-flight", self.checks_with_in_flight),
            ("inflight-ledger-checks-on-unvalidated-path", self.checks_on_unvalidated_path),
            ("inflight-ledger-checks-with-previous-path", self.checks_with_prev_path),
            ("inflight-ledger-skipped-unknown-packet", self.skipped_unknown_packet),
            ("inflight-loss-timer-checks", self.timer_checks),
            ("inflight-padding-only-without-timer", self.padding_only_without_timer),
        ]
    }
}

/// For scenarios without a transmit tap of their own (`migrate`): record + check after every transmit. The scenario calls
/// `check` from its step closure as well, and clears `sim.tx_tap` before it reads the counters.
pub fn install(sim: &mut Sim) -> std::rc::Rc<std::cell::RefCell<InFlightObs>> {
    let obs = std::rc::Rc::new(std::cell::RefCell::new(InFlightObs::new()));
    let o = obs.clone();
    assert!(sim.tx_tap.is_none(), "inflight::install: the scenario has a transmit tap of its own; call on_tx/check from it");
    sim.tx_tap = Some(Box::new(move |sim: &mut Sim, node: usize, ch: usize, _before: &quinn_proto::verif::Snapshot, _t: &quinn_proto::Transmit, _buf: &[u8]| {
        let mut o = o.borrow_mut();
        o.on_tx(sim, node, ch);
        o.check(sim, node, ch);
    }));
    obs
}
