//! Scenario `frames` (C03): a *genuinely authenticated* hostile peer. One side of the victim connection A is a
//! real `Connection` that, through the guarded hook `Connection::verif_inject_frames`, emits attacker-chosen
//! frame bytes inside correctly protected packets of any packet-number space. The honest side of A is the
//! victim; a bystander connection B on the same endpoint pair must be unaffected.
//!
//! For every datagram of A that carried injected frames and was processed by the victim, one stateless request
//! line for the Lean frame-rules model (`Conn/FrameRules.lean`) is recorded together with the observed outcome:
//!
//!   frules <victim side c|s> <observed: ok | error:N> <frame>...   (recorded only with VERIF_FRULES=1 until the Lean front end exists)
//!   <frame> = <exact 0|1|g>/<28 comma separated facts observed before the datagram>/<frame hex>
//!
//! `exact = 1`: the facts describe the state the frame is processed in; `0`: an earlier frame of the same
//! datagram may have changed them (the model then admits every outcome its table lists for that frame kind);
//! `g`: garbled bytes whose parse depends on what follows in the packet (every outcome admitted, sequence ends).
use std::cell::RefCell;
use std::collections::BTreeMap;
use std::rc::Rc;

use quinn_proto::verif::{Exec, FrameProbe, Snapshot};
use quinn_proto::{AckFrequencyConfig, VarInt};

use crate::gen::frame::{wf_frame, KINDS};
use crate::scenarios::{random_transport, Outcome};
use crate::sim::*;
use crate::workload::*;
use crate::{hex, Rng};

pub const FRAMES_RULE: &str = "one execution = one endpoint pair; a bystander connection B with a workload; a victim connection A (with its own ordinary workload on both sides) whose client side (server side for odd seeds) is a hostile but genuinely authenticated peer: a real Connection that, through the guarded hook, emits attacker-chosen frame bytes in correctly protected packets (injected bytes + PING, nothing else) of a packet-number space that has keys (Initial / Handshake / Data), during and after the handshake, interleaved with the honest traffic. Modes (per execution): legal-only 45%, legal-then-one-unrestricted-datagram-at-a-random-point 40%, unrestricted-from-the-start 15%; 20..120 datagrams of 1..8 families each. LEGAL datagrams consist only of frames that are legal in the victim's current state (facts read through the probes): PING/PADDING floods (up to 200), ACKs of packets the victim really sent (random ranges and gaps, never the skipped packet number, optional ECN counts), CRYPTO re-sending any sub-range the victim already consumed (up to 150 tiny frames) and, towards a server, up to 400 disjoint fragments above the read offset within crypto_buffer_size, STREAM data on attack streams (streams the hostile application really opened, so its own connection accepts the victim's answers; canonical content, so the victim's workload content oracle applies to it): in order, ahead with gaps, overlapping old data, zero-length at any legal offset, 40..170 tiny overlapping fragments per packet, always inside the stream window the victim advertised, inside the connection window minus bytes still in flight (new bytes only when they cannot make the honest sender overrun the window), final size consistent once a FIN was injected; RESET_STREAM with the consistent final size, STOP_SENDING / MAX_STREAM_DATA / STREAM_DATA_BLOCKED on those streams, MAX_DATA / MAX_STREAMS not above what the hostile connection itself grants, DATA_BLOCKED, STREAMS_BLOCKED <= 2^60, NEW_CONNECTION_ID with a sequence number inside the window that retires nothing (free slot or repetition of a known CID), RETIRE_CONNECTION_ID of numbers the hostile connection already retired, PATH_CHALLENGE / PATH_RESPONSE (up to 40), DATAGRAMs within the receive buffer, ACK_FREQUENCY with increasing sequence numbers and 1..50 ms, IMMEDIATE_ACK, HANDSHAKE_DONE and non-empty NEW_TOKEN towards a client. UNRESTRICTED datagrams: (a) well-formed frames of every kind from the C10 generator (boundary-biased fields); (b) targeted mutations: unknown frame types, varints 2^62-1, stream ids of the wrong initiator / direction / beyond the limit / unopened, offsets around the stream and connection flow-control limits, final-size conflicts, NEW_CONNECTION_ID with retire_prior_to > seq / far-ahead seq / duplicate seq with another CID / mass retirement, RETIRE_CONNECTION_ID of unissued numbers, ACKs of unsent packets / whole-range ACKs / huge ECN counts, MAX_STREAMS and STREAMS_BLOCKED above 2^60, CRYPTO at huge offsets / around the buffer limit / garbage at the read offset, HANDSHAKE_DONE, NEW_TOKEN (empty and not), DATAGRAM (disabled, oversized, empty), ACK_FREQUENCY (stale, below 1 ms, huge), frames forbidden in the packet space, length fields pointing past the packet, plain truncations. Local configurations as random_transport plus ack-frequency on/off, datagrams off/0/50/300/default, crypto buffer 4096/8192/default. Oracles: no panic; B never lost and completes with intact content (hostile-peer-bystander-*); while only legal datagrams have been injected the victim must not raise a transport error, neither on an injected datagram nor on the honest traffic that follows (hostile-peer-legal-frames-killed-connection) and the content oracles of A's own workload hold (stream-data-altered / -gap-or-reorder / -duplicated); after every processed injected datagram the queue sizes and the number of streams counted as opened stay within bounds derived from the configuration (hostile-peer-unbounded-state); the transport error code the victim reports is an RFC 9000 code and equals the code in the CONNECTION_CLOSE its peer receives (hostile-peer-wrong-error-class); bounded steps (hostile-peer-steps-exceeded). non-trivial = both handshakes completed and the victim processed >= 20 injected frames";

pub const V62: u64 = 1 << 62;

#[derive(Clone, Debug)]
pub struct InjFrame {
    pub bytes: Vec<u8>,
    /// canonical text of the frame (C10 `frame` executor syntax); empty = raw bytes
    pub toks: Vec<String>,
    /// parse depends on the bytes that follow (plain truncation): judged as "anything", ends the sequence
    pub garbled: bool,
    pub label: &'static str,
}

pub fn vi(v: u64) -> Vec<u8> {
    if v < 64 {
        vec![v as u8]
    } else if v < 16384 {
        (0x4000u16 | v as u16).to_be_bytes().to_vec()
    } else if v < (1 << 30) {
        (0x8000_0000u32 | v as u32).to_be_bytes().to_vec()
    } else {
        (0xc000_0000_0000_0000u64 | (v & (V62 - 1))).to_be_bytes().to_vec()
    }
}

fn unhex(s: &str) -> Option<Vec<u8>> {
    if s == "-" {
        return Some(Vec::new());
    }
    (0..s.len() / 2).map(|i| u8::from_str_radix(s.get(2 * i..2 * i + 2)?, 16).ok()).collect()
}

/// Encode a frame given in canonical text with the real encoder
fn enc(ex: &mut Exec, text: &str, label: &'static str) -> Option<InjFrame> {
    let r = std::panic::catch_unwind(std::panic::AssertUnwindSafe(|| ex.exec(&format!("frame enc {text}")))).ok()?;
    let h = r.strip_prefix("ok ")?;
    Some(InjFrame { bytes: unhex(h.trim())?, toks: text.split_ascii_whitespace().map(|s| s.to_string()).collect(), garbled: false, label })
}

fn raw(bytes: Vec<u8>, label: &'static str) -> InjFrame {
    InjFrame { bytes, toks: Vec::new(), garbled: false, label }
}

/// What the generator knows about the victim when it builds an injection (for biasing only)
pub struct GenCtx {
    pub victim_is_server: bool,
    pub space: usize,
    pub snap: Snapshot,
    pub probe: FrameProbe,
    pub srw: u64,
}

fn sid_new(initiator_is_server: bool, uni: bool, index: u64) -> u64 {
    (index << 2) | ((uni as u64) << 1) | initiator_is_server as u64
}

fn payload(rng: &mut Rng, n: usize) -> String {
    hex(&rng.bytes(n))
}

fn payload_r(rng: &mut Rng, lo: u64, hi: u64) -> String {
    let n = rng.range(lo, hi) as usize;
    hex(&rng.bytes(n))
}

/// One mutation family -> a few frames
fn gen_family(rng: &mut Rng, ex: &mut Exec, c: &GenCtx, fam: u64, out: &mut Vec<InjFrame>) {
    let vs = c.victim_is_server;
    let st = &c.snap.streams;
    let near = |rng: &mut Rng, x: u64| -> u64 { (x + rng.below(3)).saturating_sub(1).min(V62 - 1) };
    let mut push = |f: Option<InjFrame>| {
        if let Some(f) = f {
            out.push(f);
        }
    };
    match fam {
        0 | 1 | 2 => {
            let k = rng.below(KINDS as u64) as usize;
            let (t, _) = wf_frame(rng, k);
            // close frames end the connection at once: keep them rare
            if !(t.starts_with("close_") && rng.chance(3, 4)) {
                push(enc(ex, &t, "wf"));
            }
        }
        3 => {
            let ty = *rng.pick(&[0x20u64, 0x21, 0x2f, 0x32, 0x3f, 0x40, 0xae, 0xb0, 0x3fff, 0x4000, (1 << 30) + 5, V62 - 1]);
            let mut b = vi(ty);
            let n = rng.below(6) as usize;
            b.extend(rng.bytes(n));
            push(Some(raw(b, "unknown-type")));
        }
        4 => {
            let m = V62 - 1;
            let t = match rng.below(7) {
                0 => format!("max_data {m}"),
                1 => format!("max_streams {} {m}", if rng.chance(1, 2) { "bi" } else { "uni" }),
                2 => format!("streams_blocked {} {m}", if rng.chance(1, 2) { "bi" } else { "uni" }),
                3 => format!("max_stream_data {} {m}", rng.below(40)),
                4 => format!("data_blocked {m}"),
                5 => format!("stream {} {} {} {}", rng.below(40), m - rng.below(4), rng.below(2), payload_r(rng, 0, 3)),
                _ => format!("reset_stream {} {m} {m}", rng.below(40)),
            };
            push(enc(ex, &t, "varint-max"));
        }
        5 => {
            // stream ids of the wrong initiator / direction / unopened / beyond the limit
            let uni = rng.chance(1, 2);
            let d = uni as usize;
            let id = match rng.below(5) {
                0 => sid_new(vs, true, rng.below(4)),                    // victim-initiated uni: send-only for the victim
                1 => sid_new(vs, false, near(rng, st.next[0])),          // victim-initiated bidi around `next`
                2 => sid_new(!vs, uni, near(rng, st.max_remote[d])),     // peer-initiated around the limit
                3 => sid_new(!vs, uni, st.max_remote[d] + rng.below(1000)),
                _ => sid_new(!vs, uni, rng.below(st.max_remote[d].max(1))),
            };
            let t = match rng.below(6) {
                0 | 1 => format!("stream {id} {} {} {}", rng.below(50), rng.below(2), payload_r(rng, 0, 29)),
                2 => format!("reset_stream {id} {} {}", rng.below(9), rng.below(50)),
                3 => format!("stop_sending {id} {}", rng.below(9)),
                4 => format!("max_stream_data {id} {}", rng.below(100_000)),
                _ => format!("stream_data_blocked {id} {}", rng.below(100_000)),
            };
            push(enc(ex, &t, "stream-id"));
        }
        6 => {
            // offsets around the stream / connection flow-control limits on an admissible peer-initiated stream
            let uni = rng.chance(1, 2);
            let d = uni as usize;
            if st.max_remote[d] == 0 {
                return;
            }
            let id = sid_new(!vs, uni, rng.below(st.max_remote[d].min(3)));
            let room = st.local_max_data.saturating_sub(st.data_recvd);
            let lim = if rng.chance(1, 2) { c.srw } else { room };
            let len = rng.below(20);
            let off = near(rng, lim.saturating_sub(len));
            push(enc(ex, &format!("stream {id} {off} {} {}", rng.below(2), payload(rng, len as usize)), "flow-limit"));
        }
        7 => {
            // final-size conflicts
            let uni = rng.chance(1, 2);
            let d = uni as usize;
            if st.max_remote[d] == 0 {
                return;
            }
            let id = sid_new(!vs, uni, rng.below(st.max_remote[d].min(3)));
            let x = rng.below(200);
            match rng.below(4) {
                0 => {
                    push(enc(ex, &format!("stream {id} {x} 1 {}", payload(rng, 3)), "final-size"));
                    push(enc(ex, &format!("stream {id} {} 0 {}", x + 3 + rng.below(3), payload(rng, 2)), "final-size"));
                }
                1 => {
                    push(enc(ex, &format!("stream {id} {x} 1 {}", payload(rng, 3)), "final-size"));
                    push(enc(ex, &format!("stream {id} {} 1 {}", x + rng.below(3), payload(rng, 2)), "final-size"));
                }
                2 => {
                    push(enc(ex, &format!("stream {id} {x} 0 {}", payload(rng, 5)), "final-size"));
                    push(enc(ex, &format!("reset_stream {id} 7 {}", (x + 5 + rng.below(3)).saturating_sub(1)), "final-size"));
                }
                _ => {
                    push(enc(ex, &format!("reset_stream {id} 7 {x}"), "final-size"));
                    push(enc(ex, &format!("reset_stream {id} 7 {}", x + rng.below(2)), "final-size"));
                }
            }
        }
        8 => {
            // NEW_CONNECTION_ID
            let (off, _, _) = c.probe.rem_cids;
            let n = rng.range(1, 20) as usize;
            match rng.below(6) {
                0 => {
                    // retire_prior_to > seq (raw: the encoder would refuse)
                    let seq = rng.below(10);
                    let mut b = vec![0x18];
                    b.extend(vi(seq));
                    b.extend(vi(seq + 1 + rng.below(3)));
                    b.push(8);
                    b.extend(rng.bytes(8 + 16));
                    push(Some(raw(b, "ncid-retire-gt-seq")));
                }
                1 => {
                    let mut b = vec![0x18];
                    b.extend(vi(off + 1));
                    b.extend(vi(0));
                    b.push(*rng.pick(&[0u8, 21, 255]));
                    b.extend(rng.bytes(40));
                    push(Some(raw(b, "ncid-bad-len")));
                }
                2 => push(enc(ex, &format!("new_cid {} {} {} {}", off + rng.below(8), off.saturating_sub(rng.below(2)), hex(&rng.bytes(n)), hex(&rng.bytes(16))), "ncid")),
                3 => push(enc(ex, &format!("new_cid {} {} {} {}", off + 5 + rng.below(3), off + rng.below(7), hex(&rng.bytes(n)), hex(&rng.bytes(16))), "ncid-limit")),
                4 => {
                    // same sequence number twice with different CIDs
                    let seq = off + 1 + rng.below(3);
                    push(enc(ex, &format!("new_cid {seq} {off} {} {}", hex(&rng.bytes(n)), hex(&rng.bytes(16))), "ncid-dup"));
                    push(enc(ex, &format!("new_cid {seq} {off} {} {}", hex(&rng.bytes(n)), hex(&rng.bytes(16))), "ncid-dup"));
                }
                _ => {
                    // already retired numbers, many times
                    let k = rng.range(1, 8);
                    for _ in 0..k {
                        push(enc(ex, &format!("new_cid {} 0 {} {}", rng.below(off.max(1)), hex(&rng.bytes(n)), hex(&rng.bytes(16))), "ncid-retired"));
                    }
                }
            }
        }
        9 => {
            let issued = c.probe.local_cids.1;
            let seq = match rng.below(4) {
                0 => issued + 1 + rng.below(3),
                1 => V62 - 1,
                2 => issued,
                _ => rng.below(issued + 1),
            };
            push(enc(ex, &format!("retire_cid {seq}"), "retire-cid"));
        }
        10 => {
            // ACKs
            let np = c.probe.next_pn[c.space];
            let t = match rng.below(5) {
                0 => format!("ack {} {} 0 - -", np + rng.below(3), rng.below(1000)),
                1 => format!("ack {} 0 0 - -", V62 - 1),
                2 if np > 0 => format!("ack {} {} {} - -", np - 1, rng.below(1000), np - 1),
                3 if np > 0 => format!("ack {} {} {} - {}:{}:{}", np - 1, V62 - 1, rng.below(np), V62 - 1, V62 - 1, V62 - 1),
                _ if np > 2 => {
                    let l = np - 1;
                    format!("ack {l} 3 0 0:{} -", l - 2)
                }
                _ => format!("ack {np} 0 0 - -"),
            };
            push(enc(ex, &t, "ack"));
        }
        11 => {
            let v = *rng.pick(&[1u64 << 60, (1 << 60) + 1, (1 << 60) - 1, V62 - 1]);
            let d = if rng.chance(1, 2) { "bi" } else { "uni" };
            push(enc(ex, &(if rng.chance(1, 2) { format!("max_streams {d} {v}") } else { format!("streams_blocked {d} {v}") }), "stream-count"));
        }
        12 => {
            // CRYPTO
            let rd = c.probe.crypto_read[c.space];
            let cb = c.probe.crypto_buffer_size as u64;
            let len = rng.below(40);
            let off = match rng.below(8) {
                0 => V62 - 1 - len,
                1 => near(rng, (rd + cb).saturating_sub(len)),
                2 => rd,
                3 => rd.saturating_sub(rng.below(20)),
                4 | 5 | 6 => {
                    // the buffer limit probed from one below to a frame's length above (C06): the frame's END lies at
                    // limit-1, limit (both legal) or 1..len bytes beyond it while it STARTS inside the buffer
                    let over = *rng.pick(&[-1i64, 0, 1, 1, 2, len as i64 / 2 + 1, (len as i64 - 1).max(1)]);
                    ((rd + cb) as i64 + over - len as i64).max(rd as i64) as u64
                }
                _ => rd + rng.below(cb.max(1)),
            };
            push(enc(ex, &format!("crypto {off} {}", payload(rng, len as usize)), "crypto"));
        }
        13 => {
            let k = if rng.chance(1, 4) { rng.range(10, 60) } else { 1 };
            for _ in 0..k {
                let t = if rng.chance(1, 2) { format!("path_response {}", rng.next()) } else { format!("path_challenge {}", rng.next()) };
                push(enc(ex, &t, "path"));
            }
        }
        14 => {
            let f = match rng.below(4) {
                0 => enc(ex, "handshake_done", "handshake-done"),
                1 => Some(raw(vec![0x07, 0x00], "new-token-empty")),
                2 => enc(ex, &format!("new_token {}", payload_r(rng, 1, 40)), "new-token"),
                _ => enc(ex, "immediate_ack", "immediate-ack"),
            };
            push(f);
        }
        15 => {
            let n = match (c.probe.datagram_window, rng.below(4)) {
                (Some(w), 0) if w < 900 => w + rng.below(3) as usize,
                (_, 1) => 0,
                _ => rng.below(200) as usize,
            };
            push(enc(ex, &format!("datagram {}", payload(rng, n)), "datagram"));
        }
        16 => {
            let last = c.probe.ack_frequency_last;
            let seq = match rng.below(3) {
                0 => last.map_or(0, |l| l + 1 + rng.below(3)),
                1 => last.unwrap_or(0),
                _ => rng.below(1000),
            };
            let d = *rng.pick(&[0u64, 1, 999, 1000, 1001, 25_000, V62 - 1]);
            push(enc(ex, &format!("ack_frequency {seq} {} {d} {}", *rng.pick(&[0u64, 1, 10, V62 - 1]), *rng.pick(&[0u64, 1, 3, V62 - 1])), "ack-frequency"));
        }
        17 => {
            // zero-length STREAM frames at random offsets
            let uni = rng.chance(1, 2);
            let d = uni as usize;
            if st.max_remote[d] == 0 {
                return;
            }
            let id = sid_new(!vs, uni, rng.below(st.max_remote[d].min(3)));
            let k = rng.range(1, 6);
            for _ in 0..k {
                let off = if rng.chance(1, 3) { rng.biased().min(V62 - 1) } else { rng.below(c.srw.max(1) + 2) };
                push(enc(ex, &format!("stream {id} {off} {} -", rng.below(2)), "stream-empty"));
            }
        }
        18 => {
            // many tiny overlapping fragments
            let n = rng.range(50, 180);
            if c.space == 2 && rng.chance(2, 3) {
                let uni = rng.chance(1, 2);
                let d = uni as usize;
                if st.max_remote[d] == 0 {
                    return;
                }
                let id = sid_new(!vs, uni, rng.below(st.max_remote[d].min(2)));
                let base = rng.below(c.srw.max(8) / 2 + 1);
                for _ in 0..n {
                    let off = base + 2 * rng.below(200);
                    push(enc(ex, &format!("stream {id} {off} 0 {}", payload_r(rng, 1, 2)), "fragments"));
                }
            } else {
                let rd = c.probe.crypto_read[c.space];
                for _ in 0..n {
                    let off = rd + 1 + 2 * rng.below(300);
                    push(enc(ex, &format!("crypto {off} {}", payload(rng, 1)), "fragments"));
                }
            }
        }
        19 => {
            // length fields pointing past the packet (robustly malformed whatever follows)
            let big = *rng.pick(&[2000u64, 16384, 1 << 30, V62 - 1]);
            let mut b = match rng.below(4) {
                0 => {
                    let mut b = vec![0x06];
                    b.extend(vi(rng.below(100)));
                    b
                }
                1 => {
                    let mut b = vec![0x0a | (rng.below(2) as u8)];
                    b.extend(vi(sid_new(!vs, false, 0)));
                    b
                }
                2 => vec![0x07],
                _ => vec![0x31],
            };
            b.extend(vi(big));
            push(Some(raw(b, "length-past-end")));
        }
        _ => {
            // ACK whose first block exceeds largest (Malformed whatever follows)
            let l = rng.below(100);
            let mut b = vec![0x02];
            b.extend(vi(l));
            b.extend(vi(0));
            b.extend(vi(0));
            b.extend(vi(l + 1 + rng.below(5)));
            push(Some(raw(b, "ack-underflow")));
        }
    }
}

pub const FAMILIES: u64 = 21;

/// 1..8 families, total size capped; optionally a plain truncation of the last frame (garbled)
pub fn gen_injection(rng: &mut Rng, ex: &mut Exec, c: &GenCtx) -> Vec<InjFrame> {
    let mut out = Vec::new();
    let n = rng.range(1, 8);
    for k in 0..n {
        // a quarter of the injections open with the CRYPTO family (its limit is probed by no other component)
        let fam = if k == 0 && rng.chance(1, 4) { 12 } else { rng.below(FAMILIES) };
        gen_family(rng, ex, c, fam, &mut out);
    }
    // size cap (a packet has ~1100 bytes of room at the minimum MTU)
    let mut total = 0;
    let mut keep = Vec::new();
    for f in out {
        if total + f.bytes.len() > 850 || f.bytes.is_empty() {
            continue;
        }
        total += f.bytes.len();
        let is_close = f.toks.first().is_some_and(|t| t.starts_with("close_"));
        keep.push(f);
        if is_close {
            break;
        }
    }
    if !keep.is_empty() && rng.chance(1, 12) {
        let last = keep.last_mut().unwrap();
        if last.bytes.len() > 1 && !last.toks.first().is_some_and(|t| t.starts_with("close_")) {
            let n = rng.range(1, last.bytes.len() as u64 - 1) as usize;
            last.bytes.truncate(n);
            last.toks.clear();
            last.garbled = true;
            last.label = "truncated";
        }
    }
    keep
}

/// RFC 9001 4.1.3: "If the packet is from a previously installed encryption level, it MUST NOT contain data that extends past
/// the end of previously received data in that flow. Implementations MUST treat any violations of this requirement as a
/// connection error of type PROTOCOL_VIOLATION." TLS 1.3 has one flight per direction at the Initial level and one at the
/// Handshake level: the Initial level of an endpoint is superseded once it holds Handshake keys (it consumed the complete
/// ClientHello / ServerHello), the Handshake level once its handshake is complete.
pub fn level_superseded(space: usize, snap: &Snapshot) -> bool {
    match space {
        0 => snap.spaces[1].has_keys || snap.spaces[2].has_keys || snap.state == "established",
        1 => snap.state == "established",
        _ => false,
    }
}

/// ONE CRYPTO frame (first and only frame of the datagram) for a level the victim has superseded but still holds keys
/// for, around the offset `rd` it has consumed there: starting inside the consumed data and extending past it, starting
/// exactly at it, starting beyond it (all three carry new data: PROTOCOL_VIOLATION), entirely inside it / ending exactly
/// at it / empty at it (a retransmission: ignored)
pub fn gen_old_level_crypto(rng: &mut Rng, ex: &mut Exec, rd: u64) -> Vec<InjFrame> {
    let (off, len, label): (u64, u64, &'static str) = match rng.below(8) {
        0 | 1 | 2 if rd > 0 => {
            let span = if rng.chance(1, 2) { 3 } else { 300 };
            let k = 1 + rng.below(rd.min(span));
            let over = *rng.pick(&[1u64, 1, 2, 17]) + if rng.chance(1, 4) { rng.below(200) } else { 0 };
            (rd - k, k + over, "old-level-crypto-straddle")
        }
        3 => (rd, 1 + rng.below(40), "old-level-crypto-at-consumed"),
        4 => (rd + 1 + rng.below(60), 1 + rng.below(20), "old-level-crypto-beyond"),
        5 if rd > 0 => {
            let k = 1 + rng.below(rd.min(300));
            (rd - k, k, "old-level-crypto-ends-at-consumed")
        }
        6 => (rng.below(rd + 1), 0, "old-level-crypto-empty"),
        _ if rd > 1 => {
            let off = rng.below(rd - 1);
            (off, 1 + rng.below((rd - off - 1).min(40)), "old-level-crypto-below")
        }
        _ => (rd, 1, "old-level-crypto-at-consumed"),
    };
    enc(ex, &format!("crypto {off} {}", payload(rng, len as usize)), label).into_iter().collect()
}

fn opt(x: Option<u64>) -> String {
    x.map_or("-".to_string(), |v| v.to_string())
}

/// stream id a frame refers to (from its canonical text)
fn frame_stream_id(toks: &[String]) -> Option<u64> {
    match toks.first().map(|s| s.as_str()) {
        Some("stream" | "reset_stream" | "stop_sending" | "max_stream_data" | "stream_data_blocked") => toks.get(1)?.parse().ok(),
        _ => None,
    }
}

/// The 28 facts, observed on the victim before it handles the datagram
pub fn facts(space: usize, f: &InjFrame, p: &FrameProbe, conn: &quinn_proto::Connection) -> String {
    let sp = frame_stream_id(&f.toks).map(|id| conn.verif_stream_probe(id)).unwrap_or_default();
    let (qoff, qcur, ref ents) = p.rem_cids;
    let occ: String = ents.iter().map(|e| match e { None => '-', Some((_, false)) => 'n', Some((_, true)) => 't' }).collect();
    [
        space.to_string(),
        p.next_pn[space].to_string(),
        opt(p.skipped_pn),
        p.crypto_expected.to_string(),
        p.crypto_read[space].to_string(),
        p.crypto_buffer_size.to_string(),
        sp.recv.to_string(),
        sp.recv_end.to_string(),
        opt(sp.recv_final),
        (sp.recv_reset as u8).to_string(),
        (sp.recv_stopped as u8).to_string(),
        sp.recv_sent_max.to_string(),
        sp.send.to_string(),
        sp.next_local.to_string(),
        sp.max_remote.to_string(),
        sp.data_recvd.to_string(),
        sp.local_max_data.to_string(),
        sp.stream_receive_window.to_string(),
        (p.rem_cid_active_empty as u8).to_string(),
        qoff.to_string(),
        qcur.to_string(),
        occ,
        p.retire_cids_pending.to_string(),
        p.local_cids.0.to_string(),
        p.local_cids.1.to_string(),
        opt(p.datagram_window.map(|w| w as u64)),
        opt(p.ack_frequency_last),
        opt(p.path_challenge),
    ]
    .join(",")
}

/// Which earlier frames of the same datagram may change the facts a later frame is judged by
fn taints(prev: &InjFrame, cur: &InjFrame, prev_space: usize, cur_space: usize) -> bool {
    let k = |f: &InjFrame| f.toks.first().map(|s| s.as_str()).unwrap_or("").to_string();
    let (a, b) = (k(prev), k(cur));
    if a == "crypto" {
        // may advance the TLS engine: keys, expected level, transport parameters, ...
        return true;
    }
    let streamy = |s: &str| s == "stream" || s == "reset_stream";
    (streamy(&a) && streamy(&b))
        || (a == "new_cid" && b == "new_cid")
        || (a == "ack_frequency" && b == "ack_frequency")
        || (a == "path_response" && b == "path_response")
        || (prev_space != cur_space && false)
}

struct SentInj {
    space: usize,
    pn: u64,
    frames: Vec<InjFrame>,
    legal: bool,
    new_bytes: u64,
}

/// A stream the hostile application really opened (so that its own `Connection` accepts the victim's answers) and
/// that is fed only by injected frames carrying the harness' canonical content
#[derive(Clone, Debug)]
pub struct AttackStream {
    pub id: u64,
    pub uni: bool,
    /// largest end offset injected so far
    pub end: u64,
    pub fin: Option<u64>,
    pub dead: bool,
}

/// What the legal generator knows
pub struct LegalCtx<'a> {
    pub victim_is_server: bool,
    pub space: usize,
    pub vsnap: &'a Snapshot,
    pub vprobe: &'a FrameProbe,
    pub hsnap: &'a Snapshot,
    pub hprobe: &'a FrameProbe,
    pub vconn: &'a quinn_proto::Connection,
    /// new stream bytes may be injected (they cannot make the honest sender overrun the connection window)
    pub new_bytes_ok: bool,
    /// connection-level credit not yet claimed by injections in flight
    pub conn_room: u64,
}

fn stream_frame(ex: &mut Exec, id: u64, off: u64, len: u64, fin: bool, label: &'static str) -> Option<InjFrame> {
    let data = content(id, off, len as usize);
    enc(ex, &format!("stream {id} {off} {} {}", fin as u8, hex(&data)), label)
}

/// One family of frames that are LEGAL in the victim's current state (facts from the probes). Returns the number of
/// new stream bytes claimed.
#[allow(clippy::too_many_arguments)]
fn gen_legal_family(rng: &mut Rng, ex: &mut Exec, c: &LegalCtx, streams: &mut [AttackStream], misc: &mut [u64; 2], fam: u64, out: &mut Vec<InjFrame>, new_bytes: &mut u64) {
    let push = |out: &mut Vec<InjFrame>, f: Option<InjFrame>| {
        if let Some(f) = f {
            out.push(f);
        }
    };
    let sp = c.space;
    let early = sp != 2;
    // families that exist in every space
    match fam {
        0 => {
            let k = if rng.chance(1, 4) { rng.range(20, 200) } else { rng.range(1, 6) };
            for _ in 0..k {
                out.push(raw(vec![if rng.chance(1, 2) { 0x01 } else { 0x00 }], "legal-ping-padding"));
            }
            return;
        }
        1 => {
            // ACK of packets the victim really sent, never covering the skipped packet number
            let np = c.vprobe.next_pn[sp];
            if np == 0 {
                return;
            }
            let lo = match c.vprobe.skipped_pn {
                Some(s) if sp == 2 && s + 1 < np => s + 1,
                Some(s) if sp == 2 && s < np => return,
                _ => 0,
            };
            let largest = rng.range(lo, np - 1);
            let first = rng.below(largest - lo + 1);
            let mut blocks = Vec::new();
            let mut smallest = largest - first;
            while smallest >= lo + 2 && blocks.len() < 40 && rng.chance(2, 3) {
                let room = smallest - lo - 2;
                let gap = rng.below(room.min(5) + 1);
                let len = rng.below((room - gap).min(5) + 1);
                blocks.push(format!("{gap}:{len}"));
                smallest = smallest - gap - 2 - len;
            }
            let b = if blocks.is_empty() { "-".to_string() } else { blocks.join(",") };
            let ecn = if rng.chance(1, 4) { format!("{}:{}:{}", rng.below(5), rng.below(5), rng.below(5)) } else { "-".into() };
            push(out, enc(ex, &format!("ack {largest} {} {first} {b} {ecn}", rng.below(10_000)), "legal-ack"));
            return;
        }
        2 => {
            // CRYPTO: data the victim has already consumed (any sub-range, many tiny ones) ...
            let rd = c.vprobe.crypto_read[sp];
            let k = if rng.chance(1, 3) { rng.range(30, 150) } else { rng.range(1, 4) };
            if rd > 0 {
                for _ in 0..k {
                    let off = rng.below(rd);
                    let len = rng.below((rd - off).min(3) + 1);
                    push(out, enc(ex, &format!("crypto {off} {}", payload(rng, len as usize)), "legal-crypto-dup"));
                }
            }
            // ... and, towards a server after the handshake (a client never sends 1-RTT CRYPTO, so the gap at the read
            // offset is never closed), fragments above the read offset within the buffer limit
            if sp == 2 && c.victim_is_server && c.vsnap.state == "established" && rng.chance(1, 2) {
                let cb = c.vprobe.crypto_buffer_size as u64;
                for _ in 0..k {
                    let off = rd + 1 + rng.below(cb.saturating_sub(4).max(1));
                    let len = 1 + rng.below(2);
                    // an endpoint need not keep an arbitrary number of disjoint fragments (quinn: more than 1024 chunks after
                    // defragmentation is INTERNAL_ERROR "too many gaps"): stay well below
                    if misc[1] >= 400 {
                        break;
                    }
                    misc[1] += 1;
                    if off + len <= rd + cb {
                        push(out, enc(ex, &format!("crypto {off} {}", payload(rng, len as usize)), "legal-crypto-gap"));
                    }
                }
            }
            return;
        }
        _ => {}
    }
    if early {
        return;
    }
    let vs = c.victim_is_server;
    match fam {
        3 | 4 | 5 => {
            // STREAM data on an attack stream, canonical content, inside the windows the victim advertised
            let live: Vec<usize> = (0..streams.len()).filter(|&i| !streams[i].dead).collect();
            if live.is_empty() {
                return;
            }
            let i = live[rng.below(live.len() as u64) as usize];
            let id = streams[i].id;
            let p = c.vconn.verif_stream_probe(id);
            let win = if p.recv == 2 { p.recv_sent_max } else { p.stream_receive_window };
            let many = fam == 5;
            let k = if many { rng.range(40, 170) } else { rng.range(1, 4) };
            for _ in 0..k {
                let end0 = streams[i].end;
                // nothing beyond the final size once a FIN was injected, nothing beyond the advertised stream window
                let cap = streams[i].fin.unwrap_or(win).min(win);
                let room = if c.new_bytes_ok { c.conn_room.saturating_sub(*new_bytes) } else { 0 };
                // candidate range [off, off+len)
                let maxlen = if many { 3 } else { *rng.pick(&[0u64, 1, 7, 60, 300]) };
                let (off, len) = match rng.below(4) {
                    0 => (end0, maxlen),                                              // in order
                    1 => (end0 + rng.below(40), maxlen),                              // ahead, leaving a gap
                    2 if end0 > 0 => { let o = rng.below(end0); (o, maxlen.min(end0 - o + 5)) } // overlapping old data
                    _ => (rng.below(end0 + 20), rng.below(maxlen + 1)),
                };
                let mut end = (off + len).min(cap);
                if end < off {
                    continue;
                }
                let fresh = end.saturating_sub(end0);
                if fresh > room {
                    end = end0.max(off).min(end);
                    if end < off || end.saturating_sub(end0) > room {
                        continue;
                    }
                }
                let len = end - off;
                let fin = streams[i].fin == Some(end) || (streams[i].fin.is_none() && end >= end0 && !many && rng.chance(1, 25));
                // a FIN fixes the final size: nothing was or will be sent beyond it
                if fin && streams[i].fin.is_none() {
                    if end < end0 {
                        continue;
                    }
                    streams[i].fin = Some(end);
                }
                *new_bytes += end.saturating_sub(end0);
                streams[i].end = end0.max(end);
                push(out, stream_frame(ex, id, off, len, fin, if many { "legal-stream-fragments" } else if len == 0 { "legal-stream-empty" } else { "legal-stream" }));
            }
        }
        6 => {
            // control frames about an attack stream
            let live: Vec<usize> = (0..streams.len()).filter(|&i| !streams[i].dead).collect();
            if live.is_empty() {
                return;
            }
            let i = live[rng.below(live.len() as u64) as usize];
            let id = streams[i].id;
            match rng.below(6) {
                0 if rng.chance(1, 3) => {
                    let fo = streams[i].fin.unwrap_or(streams[i].end);
                    streams[i].dead = true;
                    push(out, enc(ex, &format!("reset_stream {id} {} {fo}", rng.below(50)), "legal-reset-stream"));
                }
                1 | 2 if !streams[i].uni => push(out, enc(ex, &format!("max_stream_data {id} {}", rng.below(1 << 20)), "legal-max-stream-data")),
                3 if !streams[i].uni => push(out, enc(ex, &format!("stop_sending {id} {}", rng.below(50)), "legal-stop-sending")),
                _ => push(out, enc(ex, &format!("stream_data_blocked {id} {}", rng.below(1 << 20)), "legal-stream-data-blocked")),
            }
        }
        7 => {
            // connection-level credit / blocked frames that do not promise more than the hostile connection itself grants
            let hs = &c.hsnap.streams;
            let t = match rng.below(5) {
                0 => format!("max_data {}", rng.below(hs.local_max_data.min(V62 - 1) + 1)),
                1 => format!("max_streams bi {}", rng.below(hs.max_remote[0] + 1)),
                2 => format!("max_streams uni {}", rng.below(hs.max_remote[1] + 1)),
                3 => format!("data_blocked {}", rng.below(1 << 30)),
                _ => format!("streams_blocked {} {}", if rng.chance(1, 2) { "bi" } else { "uni" }, rng.below((1 << 60) + 1)),
            };
            push(out, enc(ex, &t, "legal-credit"));
        }
        8 => {
            // NEW_CONNECTION_ID: a fresh sequence number inside the window, retiring nothing (a retired active CID would move
            // the victim to a CID the hostile endpoint does not route); or a repetition of a known one
            let (off, cur, ref ents) = c.vprobe.rem_cids;
            if c.vprobe.rem_cid_active_empty || (vs && off == 0) {
                return;
            }
            let n = ents.len() as u64;
            let k = 1 + rng.below(n - 1);
            let seq = off + k;
            let slot = ((cur as u64 + k) % n) as usize;
            let cid = match &ents[slot] {
                Some((cid, _)) => cid.to_vec(),
                None => rng.bytes(8),
            };
            push(out, enc(ex, &format!("new_cid {seq} {} {} {}", rng.below(off + 1), hex(&cid), hex(&rng.bytes(16))), "legal-new-cid"));
        }
        9 => {
            // RETIRE_CONNECTION_ID of a sequence number the hostile connection has itself retired already
            let hoff = c.hprobe.rem_cids.0;
            if hoff > 0 && c.vprobe.local_cids.0 > 0 {
                push(out, enc(ex, &format!("retire_cid {}", rng.below(hoff)), "legal-retire-cid"));
            }
        }
        10 => {
            let k = if rng.chance(1, 4) { rng.range(10, 40) } else { rng.range(1, 3) };
            for _ in 0..k {
                let t = if rng.chance(1, 2) { format!("path_response {}", rng.next()) } else { format!("path_challenge {}", rng.next()) };
                push(out, enc(ex, &t, "legal-path"));
            }
        }
        11 => {
            if let Some(w) = c.vprobe.datagram_window {
                let n = rng.below((w as u64).min(200) + 1) as usize;
                push(out, enc(ex, &format!("datagram {}", payload(rng, n)), "legal-datagram"));
            }
        }
        12 => {
            if rng.chance(1, 2) {
                misc[0] += 1 + rng.below(3);
                push(out, enc(ex, &format!("ack_frequency {} {} {} {}", misc[0] + c.vprobe.ack_frequency_last.unwrap_or(0), rng.below(10), rng.range(1000, 50_000), rng.below(4)), "legal-ack-frequency"));
            } else {
                push(out, enc(ex, "immediate_ack", "legal-immediate-ack"));
            }
        }
        _ => {
            if !vs {
                if rng.chance(1, 2) {
                    push(out, enc(ex, "handshake_done", "legal-handshake-done"));
                } else {
                    push(out, enc(ex, &format!("new_token {}", payload_r(rng, 1, 40)), "legal-new-token"));
                }
            }
        }
    }
}

pub const LEGAL_FAMILIES: u64 = 14;

/// 1..8 legal families, total size capped
pub fn gen_legal(rng: &mut Rng, ex: &mut Exec, c: &LegalCtx, streams: &mut [AttackStream], misc: &mut [u64; 2]) -> (Vec<InjFrame>, u64) {
    let mut out = Vec::new();
    let mut new_bytes = 0;
    let n = rng.range(1, 8);
    for _ in 0..n {
        let before = out.len();
        let fam = rng.below(LEGAL_FAMILIES);
        let (mut s2, mut nb2, mut af2) = (streams.to_vec(), new_bytes, *misc);
        gen_legal_family(rng, ex, c, &mut s2, &mut af2, fam, &mut out, &mut nb2);
        // keep a family only if it fits completely (stream bookkeeping must match what is really sent)
        let total: usize = out.iter().map(|f| f.bytes.len()).sum();
        if total > 850 {
            out.truncate(before);
        } else {
            streams.clone_from_slice(&s2);
            new_bytes = nb2;
            *misc = af2;
        }
    }
    (out, new_bytes)
}

#[derive(Default)]
struct Shared {
    victim: Option<(usize, usize)>,
    hostile: Option<(usize, usize)>,
    pending: [Vec<InjFrame>; 3],
    pending_legal: [bool; 3],
    pending_new: [u64; 3],
    sent: Vec<SentInj>,
    pre: Option<(Snapshot, FrameProbe, Vec<Vec<String>>)>,
    evaluated: u64,
    evaluated_legal: u64,
    frames_evaluated: u64,
    frames_evaluated_legal: u64,
    exact_frames: u64,
    errors_seen: BTreeMap<u64, u64>,
    labels: BTreeMap<&'static str, u64>,
    max_seen: BTreeMap<&'static str, u64>,
    /// victim transport error explained by an evaluated injected datagram
    attributed_error: bool,
    /// an injection that is not purely legal has been handed to the hostile connection
    illegal_injected: bool,
    lim: [u32; 2],
    /// the victim's stream table is corrupt (phantom streams): the application must not be run any more
    abort: bool,
    /// how the two sides of A ended: (kind, code) of the first error seen right after a datagram was handled
    victim_end: Option<(&'static str, u64)>,
    hostile_end: Option<(&'static str, u64)>,
    /// the victim raised a transport error although nothing but legal datagrams had been injected: (code, frame type)
    killed_legal: Option<(u64, Option<u64>)>,
    dropped: u64,
    /// a CONNECTION_CLOSE frame was injected: the victim may legitimately answer it with NO_ERROR whatever happened before
    close_injected: bool,
}

impl Shared {
    fn absorb(&mut self, sim: &mut Sim) {
        let Some((hn, hc)) = self.hostile else {
            sim.inj_log.clear();
            return;
        };
        for (node, ch, space, pn, n) in sim.inj_log.drain(..) {
            if node != hn || ch != hc {
                continue;
            }
            let sp = space as usize;
            let frames = std::mem::take(&mut self.pending[sp]);
            let (legal, new_bytes) = (self.pending_legal[sp], std::mem::take(&mut self.pending_new[sp]));
            if n > 0 && !frames.is_empty() {
                self.sent.push(SentInj { space: sp, pn, frames, legal, new_bytes });
            } else if !frames.is_empty() {
                // did not fit into the packet: the frames were never sent
                self.dropped += 1;
            }
        }
    }
}

fn code_class(c: u64) -> u64 {
    if (0x100..0x200).contains(&c) {
        256
    } else {
        c
    }
}

pub fn frames(seed: u64, out: &mut Outcome) {
    let mut rng = Rng::new(seed ^ 0xf4a3e5);
    let (mut tc, lim_c) = random_transport(&mut rng);
    let (mut ts, lim_s) = random_transport(&mut rng);
    tc.max_idle_timeout(None);
    ts.max_idle_timeout(None);
    for t in [&mut tc, &mut ts] {
        if rng.chance(1, 2) {
            let mut af = AckFrequencyConfig::default();
            if rng.chance(1, 2) {
                af.ack_eliciting_threshold(VarInt::from_u32(*rng.pick(&[0u32, 1, 5])));
            }
            t.ack_frequency_config(Some(af));
        }
        match rng.below(4) {
            0 => {
                t.datagram_receive_buffer_size(None);
            }
            1 => {
                t.datagram_receive_buffer_size(Some(*rng.pick(&[0usize, 50, 300])));
            }
            _ => {}
        }
        if rng.chance(1, 3) {
            t.crypto_buffer_size(*rng.pick(&[4096usize, 8192]));
        }
    }
    let (mut sim, ccfg) = default_pair(seed, tc, ts);
    sim.net.latency_ns = *rng.pick(&[1_000_000u64, 10_000_000]);
    sim.net.path_mtu = 65000;
    // two connections share one client address: the per-address amplification ledger (C07) does not apply here
    sim.check_amp = false;
    let hostile = if seed % 2 == 0 { CLIENT } else { SERVER };
    let victim = 1 - hostile;
    // one datagram per transmit on the hostile node, so that an injection is in exactly one datagram
    sim.nodes[hostile].max_datagrams = 1;
    sim.nodes[victim].max_datagrams = rng.range(1, 10) as usize;
    let di = |d: quinn_proto::Dir| if d == quinn_proto::Dir::Bi { 0 } else { 1 };
    let mut ws: Vec<Workload> = Vec::new();
    for k in 0..2u64 {
        let mut w = Workload::new(seed ^ (k << 20));
        let (nc, ns) = (1 + rng.below(3) as usize, rng.below(2) as usize);
        w.sides[CLIENT].plans = Workload::random_plans(&mut rng, nc, 100_000);
        w.sides[SERVER].plans = Workload::random_plans(&mut rng, ns, 40_000);
        w.sides[CLIENT].plans.retain(|p| lim_s[di(p.dir)] > 0);
        w.sides[SERVER].plans.retain(|p| lim_c[di(p.dir)] > 0);
        ws.push(w);
    }
    let mut wa = ws.pop().unwrap();
    let mut wb = ws.pop().unwrap();
    let bch = sim.connect(ccfg.clone());
    wb.ch[CLIENT] = Some(bch);
    // mode: 0 = every datagram from the unrestricted generator (the victim usually dies at once; keeps the handshake-time
    // attacks); 1 = only legal datagrams; 2 = legal datagrams, then one unrestricted datagram at a random point
    let mode = match rng.below(20) {
        0..=2 => 0,
        3..=11 => 1,
        _ => 2,
    };
    let n_attack = if mode == 0 { rng.range(5, 60) } else { rng.range(20, 120) };
    let mut kill_at = if mode == 2 { rng.below(n_attack) } else { u64::MAX };
    let every = rng.range(1, 4);
    let hostile_sends_streams = !wa.sides[hostile].plans.is_empty();
    let shared = Rc::new(RefCell::new(Shared { lim: if victim == SERVER { lim_s } else { lim_c }, ..Default::default() }));

    // the victim-side observation around every datagram it handles
    let emit_frules = std::env::var("VERIF_NO_FRULES").is_err();
    let sh = shared.clone();
    sim.rx_tap = Some(Box::new(move |sim: &mut Sim, node: usize, ch: usize, len: usize, post: bool| {
        let mut s = sh.borrow_mut();
        if post && (s.victim == Some((node, ch)) || s.hostile == Some((node, ch))) {
            // `Connection::poll` takes the error away: remember it as soon as it is there
            let e = sim.nodes[node].conns[&ch].conn.verif_frame_probe().error;
            let is_v = s.victim == Some((node, ch));
            let slot = if is_v { &mut s.victim_end } else { &mut s.hostile_end };
            let first = slot.is_none() && e.is_some();
            if slot.is_none() {
                *slot = e.map(|(k, c, _)| (k, c));
            }
            if is_v && first && !s.illegal_injected {
                if let Some(("transport", code, ft)) = e {
                    s.killed_legal = Some((code, ft));
                }
            }
        }
        if s.victim != Some((node, ch)) {
            return;
        }
        if !post {
            s.absorb(sim);
            s.pre = None;
            if s.sent.is_empty() {
                return;
            }
            let conn = &sim.nodes[node].conns[&ch].conn;
            let snap = conn.verif_snapshot();
            if snap.state != "handshake" && snap.state != "established" {
                s.sent.clear();
                return;
            }
            let probe = conn.verif_frame_probe();
            let fl: Vec<Vec<String>> = if emit_frules { s.sent.iter().map(|i| i.frames.iter().map(|f| facts(i.space, f, &probe, conn)).collect()).collect() } else { Vec::new() };
            s.pre = Some((snap, probe, fl));
            return;
        }
        let Some((before, pbefore, fl)) = s.pre.take() else {
            if let Some((code, ft)) = s.killed_legal.take() {
                sim.fail("hostile-peer-legal-frames-killed-connection", format!("victim node {node} closed with transport error {code:#x} (frame type {ft:?}) on a datagram of {len} bytes without injected frames, after only legal datagrams had been injected (the honest peer's own frames became illegal)"));
            }
            return;
        };
        let conn = &sim.nodes[node].conns[&ch].conn;
        let after = conn.verif_snapshot();
        let pafter = conn.verif_frame_probe();
        // which injected packets were in this datagram and had their frames processed?
        let mut idx: Vec<usize> = (0..s.sent.len())
            .filter(|&i| {
                let (sp, pn) = (s.sent[i].space, s.sent[i].pn);
                let fresh = before.spaces[sp].dedup_next <= pn && pn < after.spaces[sp].dedup_next;
                let authed = after.total_authed_packets > before.total_authed_packets && after.spaces[sp].rx_packet >= pn;
                // a 1-RTT packet is dropped while the connection is still handshaking
                fresh && authed && !(sp == 2 && after.state == "handshake")
            })
            .collect();
        idx.sort_by_key(|&i| (s.sent[i].space, s.sent[i].pn));
        if !idx.is_empty() {
            let became_established = before.state == "handshake" && after.state != "handshake" && pafter.error.is_none();
            let all_legal = idx.iter().all(|&i| s.sent[i].legal);
            let mut seq: Vec<(usize, &InjFrame, Option<&String>)> = Vec::new();
            for &i in &idx {
                for (k, f) in s.sent[i].frames.iter().enumerate() {
                    seq.push((s.sent[i].space, f, fl.get(i).and_then(|v| v.get(k))));
                }
            }
            let new_error = match (&pbefore.error, &pafter.error) {
                (None, Some(("transport", code, _))) => Some(code_class(*code)),
                _ => None,
            };
            let observed = new_error.map_or("ok".to_string(), |c| format!("error {c}"));
            let mut nexact = 0;
            if emit_frules {
                let mut toks = Vec::new();
                for (j, (sp, f, facts)) in seq.iter().enumerate() {
                    let tainted = became_established || seq[..j].iter().any(|(psp, pf, _)| taints(pf, f, *psp, *sp));
                    let e = if f.garbled { "g" } else if tainted { "0" } else { "1" };
                    nexact += (e == "1") as u64;
                    toks.push(format!("{e}/{}/{}", facts.map_or("", |x| x.as_str()), hex(&f.bytes)));
                }
                let side = if pbefore.side_is_server { "s" } else { "c" };
                let line = format!("frules {side} {} {}", observed.replace(' ', ":"), toks.join(" "));
                if sim.model_ops.len() < 400_000 {
                    sim.model_ops.push(line);
                    sim.model_impl.push(observed.clone());
                }
            }
            // C06, from the property text / RFC 9000 7.5: handshake data beyond the configured CRYPTO buffer closes the
            // connection with CRYPTO_BUFFER_EXCEEDED. Judged with the read offset AFTER the datagram (the most favourable
            // one: earlier frames of the datagram can only have advanced it), and only when no error was raised at all.
            let mut crypto_fails: Vec<String> = Vec::new();
            // the FIRST frame of the datagram is judged exactly (nothing before it can have advanced the read offset or
            // raised another error): a CRYPTO frame at an admissible level ending beyond the limit must produce
            // CRYPTO_BUFFER_EXCEEDED, not be accepted and not be overtaken by the error of a later frame
            if let Some((sp, f, _)) = seq.first() {
                if !f.garbled && f.toks.first().map(|t| t.as_str()) == Some("crypto") && f.toks.len() >= 3 && !became_established {
                    if let Ok(off) = f.toks[1].parse::<u64>() {
                        let plen = if f.toks[2] == "-" { 0 } else { f.toks[2].len() as u64 / 2 };
                        let end = off.saturating_add(plen);
                        let limit = pbefore.crypto_read[*sp].saturating_add(pbefore.crypto_buffer_size as u64);
                        if end > limit && end < (1 << 62) && *sp >= pbefore.crypto_expected && new_error != Some(0x0d) {
                            crypto_fails.push(format!("victim node {node}: first frame of the datagram is CRYPTO [{off}, {end}) in space {sp}, ending {} bytes beyond read offset {} + crypto_buffer_size {}: expected CRYPTO_BUFFER_EXCEEDED (0xd), observed {observed}", end - limit, pbefore.crypto_read[*sp], pbefore.crypto_buffer_size));
                        }
                    }
                }
            }
            // C03 / RFC 9001 4.1.3, first frame of the datagram judged exactly: a CRYPTO frame at a level the victim had
            // superseded before the datagram (`level_superseded`) that extends past the end of the data previously received
            // there (= the consumed offset, nothing being buffered beyond it) is PROTOCOL_VIOLATION, whatever part of it
            // repeats old data; judged only while the frame fits the CRYPTO buffer (else CRYPTO_BUFFER_EXCEEDED competes)
            let mut old_level_fail: Option<String> = None;
            if let Some((sp, f, _)) = seq.first() {
                if !f.garbled && f.toks.first().map(|t| t.as_str()) == Some("crypto") && f.toks.len() >= 3 && !became_established && pbefore.error.is_none() {
                    if let Ok(off) = f.toks[1].parse::<u64>() {
                        let plen = if f.toks[2] == "-" { 0 } else { f.toks[2].len() as u64 / 2 };
                        let end = off.saturating_add(plen);
                        let rd = pbefore.crypto_read[*sp];
                        let limit = rd.saturating_add(pbefore.crypto_buffer_size as u64);
                        if level_superseded(*sp, &before) && pbefore.crypto_buffered[*sp] == 0 && end > rd && end <= limit && new_error != Some(0x0a) {
                            let how = if off < rd { "starts inside the consumed data and extends past it" } else if off == rd { "starts exactly at the consumed offset" } else { "starts beyond the consumed offset" };
                            old_level_fail = Some(format!("victim node {node} ({}, state {}, keys held for spaces {:?}): first frame of the datagram is CRYPTO [{off}, {end}) in space {sp}, a level the victim has superseded; it had consumed {rd} bytes there with nothing buffered, so the frame carries {} bytes of new data ({how}): expected PROTOCOL_VIOLATION (0xa), observed {observed}", if pbefore.side_is_server { "server" } else { "client" }, before.state, (0..3).filter(|&i| before.spaces[i].has_keys).collect::<Vec<_>>(), end - rd));
                        }
                    }
                }
            }
            if new_error.is_none() && pafter.error.is_none() {
                for (sp, f, _) in seq.iter() {
                    if f.garbled || f.toks.first().map(|t| t.as_str()) != Some("crypto") || f.toks.len() < 3 {
                        continue;
                    }
                    let (Ok(off), plen) = (f.toks[1].parse::<u64>(), if f.toks[2] == "-" { 0 } else { f.toks[2].len() as u64 / 2 }) else { continue };
                    let end = off.saturating_add(plen);
                    let limit = pafter.crypto_read[*sp].saturating_add(pafter.crypto_buffer_size as u64);
                    if end > limit && *sp >= pafter.crypto_expected.min(pbefore.crypto_expected) {
                        crypto_fails.push(format!("victim node {node}: CRYPTO frame [{off}, {end}) in space {sp} accepted although it ends {} bytes beyond read offset {} + crypto_buffer_size {} (no CRYPTO_BUFFER_EXCEEDED, connection stays open)", end - limit, pafter.crypto_read[*sp], pafter.crypto_buffer_size));
                    }
                }
            }
            let nframes = seq.len() as u64;
            let labels: Vec<&'static str> = seq.iter().map(|x| x.1.label).collect();
            let model_line_tail: Vec<String> = seq.iter().map(|x| if x.1.toks.is_empty() { format!("raw:{}", hex(&x.1.bytes)) } else { x.1.toks.join(" ").chars().take(100).collect() }).take(12).collect();
            drop(seq);
            s.evaluated += 1;
            s.frames_evaluated += nframes;
            if all_legal {
                s.evaluated_legal += 1;
                s.frames_evaluated_legal += nframes;
            }
            s.exact_frames += nexact;
            for l in labels {
                *s.labels.entry(l).or_default() += 1;
            }
            if let Some(c) = new_error {
                *s.errors_seen.entry(c).or_default() += 1;
                s.attributed_error = true;
            }
            // C03 bounded state: sizes after the datagram, against bounds derived from the configuration
            let st = &after.streams;
            let lim = s.lim;
            let live_recv = st.recv_state.len() as u64;
            let srw = conn.verif_stream_probe(0).stream_receive_window;
            for f in crypto_fails {
                sim.fail("crypto-buffer-limit-not-enforced", f);
            }
            if let Some(f) = old_level_fail {
                sim.fail("crypto-new-data-at-old-level-accepted", f);
            }
            let unique = (srw.saturating_mul(live_recv)).min(st.receive_window);
            let cb = pafter.crypto_buffer_size as u64;
            let dl = len as u64;
            let checks: [(&'static str, u64, u64); 9] = [
                ("path_responses", pafter.path_responses as u64, 16),
                ("pending_ack_ranges", *pafter.pending_ack_ranges.iter().max().unwrap() as u64, 64),
                ("retire_cids_pending", pafter.retire_cids_pending as u64, 50 + 2 * 5),
                ("crypto_buffered", *pafter.crypto_buffered.iter().max().unwrap() as u64, cb * 5 / 2 + 40_000),
                ("recv_buffered", pafter.recv_buffered as u64, unique.saturating_mul(5) / 2 + 40_000 * (live_recv + 1)),
                ("dgram_in_buffered", pafter.dgram_in_buffered as u64, pafter.datagram_window.unwrap_or(0) as u64),
                ("events_queued", after.events_queued as u64, before.events_queued as u64 + 2 * dl + st.n_send as u64 + 8),
                ("endpoint_events_queued", after.endpoint_events_queued as u64, before.endpoint_events_queued as u64 + dl + 8),
                // remote-initiated streams are bounded by the configured concurrency, local ones by the workload (<= 4 plans)
                ("recv_streams", st.n_recv as u64, lim[0] as u64 + lim[1] as u64 + 8),
            ];
            // the peer can never have opened more streams than it was allowed to
            for d in 0..2 {
                if pafter.next_remote[d] > pafter.max_remote[d] {
                    s.abort = true;
                    sim.fail("hostile-peer-unbounded-state", format!("victim node {node}: {} peer-initiated {} streams count as opened (Streams::accept will hand out that many ids) but the peer was allowed only {} after an injected datagram of {len} bytes; injected frames: {:?}", pafter.next_remote[d], if d == 0 { "bidirectional" } else { "unidirectional" }, pafter.max_remote[d], model_line_tail));
                }
            }
            for (name, v, bound) in checks {
                let m = s.max_seen.entry(name).or_default();
                *m = (*m).max(v);
                if v > bound {
                    sim.fail("hostile-peer-unbounded-state", format!("victim node {node}: {name} = {v} > bound {bound} after an injected datagram of {len} bytes ({nframes} injected frames: {model_line_tail:?})"));
                }
            }
        }
        if let Some((code, ft)) = s.killed_legal.take() {
            // C03: input that is legal for the victim's state must be processed or ignored, never end the connection
            let fr: Vec<String> = idx.iter().flat_map(|&i| s.sent[i].frames.iter()).map(|f| if f.toks.is_empty() { format!("raw:{}", hex(&f.bytes)) } else { f.toks.join(" ").chars().take(90).collect() }).collect();
            let st = &after.streams;
            sim.fail("hostile-peer-legal-frames-killed-connection", format!("victim node {node} closed with transport error {code:#x} (frame type {ft:?}) although every injected datagram so far consisted of frames that are legal in its state; datagram of {len} bytes; victim before: data_recvd {} local_max_data {} recv_state {:?}; injected frames processed in this datagram ({}): {:?}", before.streams.data_recvd, before.streams.local_max_data, before.streams.recv_state, fr.len(), fr.iter().rev().take(60).rev().collect::<Vec<_>>()));
            let _ = st;
        }
        // forget what can no longer arrive
        let dn = [after.spaces[0].dedup_next, after.spaces[1].dedup_next, after.spaces[2].dedup_next];
        s.sent.retain(|i| i.pn >= dn[i.space]);
    }));

    let mut ex = Exec::new();
    let mut injected = 0u64;
    let mut injected_legal = 0u64;
    let mut frames_injected = 0u64;
    let mut ach: Option<usize> = None;
    let mut a_established = false;
    let mut quiet = 0u64;
    let mut spaces_hit = [0u64; 3];
    let mut attack_streams: Vec<AttackStream> = Vec::new();
    // [ACK_FREQUENCY sequence counter, CRYPTO gap fragments injected so far]
    let mut af_seq = [0u64; 2];
    let end = sim.run_until(600_000_000_000, 60_000 + 3000 * n_attack, |sim| {
        if wb.ch[SERVER].is_none() {
            if let Some(&ch) = sim.nodes[SERVER].accepted.first() {
                wb.ch[SERVER] = Some(ch);
            }
        }
        let b_up = sim.nodes[CLIENT].conns[&bch].obs.connected && wb.ch[SERVER].is_some();
        if b_up && ach.is_none() {
            let ch = sim.connect(ccfg.clone());
            wa.ch[CLIENT] = Some(ch);
            ach = Some(ch);
        }
        if let Some(ch) = ach {
            if wa.ch[SERVER].is_none() {
                if let Some(&sch) = sim.nodes[SERVER].accepted.get(1) {
                    wa.ch[SERVER] = Some(sch);
                }
            }
            a_established |= sim.nodes[CLIENT].conns[&ch].obs.connected;
            let hv = if hostile == CLIENT { Some((CLIENT, ch)) } else { wa.ch[SERVER].map(|s| (SERVER, s)) };
            let vv = if victim == CLIENT { Some((CLIENT, ch)) } else { wa.ch[SERVER].map(|s| (SERVER, s)) };
            let mut s = shared.borrow_mut();
            s.hostile = hv;
            s.victim = vv;
            s.absorb(sim);
            if let (Some((hn, hc)), Some((vn, vc))) = (hv, vv) {
                let vsnap = sim.snap(vn, vc);
                let hsnap = sim.snap(hn, hc);
                let open = |x: &Snapshot| x.state == "handshake" || x.state == "established";
                if s.dropped > 0 {
                    // an injection was not sent: the per-stream bookkeeping no longer matches the victim; stop using these streams
                    for a in attack_streams.iter_mut() {
                        a.dead = true;
                    }
                }
                // attack streams: really opened by the hostile application, leaving at least one stream of credit to its workload
                if mode != 0 && hsnap.state == "established" && attack_streams.len() < 4 {
                    for (d, dir) in [(0usize, quinn_proto::Dir::Bi), (1, quinn_proto::Dir::Uni)] {
                        let have = attack_streams.iter().filter(|a| a.uni == (d == 1)).count();
                        let hs = sim.snap(hn, hc).streams;
                        if have < 2 && hs.max[d] >= hs.next[d] + 2 {
                            if let Some(id) = sim.conn(hn, hc).streams().open(dir) {
                                attack_streams.push(AttackStream { id: crate::workload::sid(id), uni: d == 1, end: 0, fin: None, dead: false });
                            }
                        }
                    }
                }
                // a level the victim has superseded (RFC 9001 4.1.3) while both sides still hold its keys: the window lasts
                // about one flight, so it is used whenever it is open (unrestricted modes only; in mode 2 it is THE one
                // unrestricted datagram)
                let old_level: Option<usize> = if mode != 1 && (mode == 0 || injected <= kill_at) && open(&vsnap) && open(&hsnap) {
                    (0..2).find(|&i| hsnap.spaces[i].has_keys && vsnap.spaces[i].has_keys && level_superseded(i, &vsnap))
                } else {
                    None
                };
                if injected < n_attack && (sim.steps % every == 0 || old_level.is_some()) && open(&vsnap) && open(&hsnap) {
                    let avail: Vec<usize> = (0..3).filter(|&i| hsnap.spaces[i].has_keys).collect();
                    // early spaces are short-lived: prefer them while they exist
                    let mut space = if avail.is_empty() { 0 } else if avail.len() > 1 && sim.rng.chance(2, 3) { avail[0] } else { *sim.rng.pick(&avail) };
                    let mut targeted = false;
                    if let Some(sp) = old_level {
                        if sim.rng.chance(3, 4) {
                            space = sp;
                            targeted = true;
                        }
                    }
                    // never more than one packet's worth pending per space
                    let free = !avail.is_empty() && sim.nodes[hn].conns[&hc].conn.verif_injection_pending()[space] == 0 && s.pending[space].is_empty();
                    if free {
                        let saved = (attack_streams.clone(), af_seq);
                        if targeted && mode == 2 {
                            kill_at = injected;
                        }
                        let legal = mode != 0 && injected != kill_at;
                        let vconn = &sim.nodes[vn].conns[&vc].conn;
                        let probe = vconn.verif_frame_probe();
                        let srw = vconn.verif_stream_probe(0).stream_receive_window;
                        let mut r2 = Rng::new(sim.rng.next());
                        let (fr, new_bytes) = if targeted {
                            (gen_old_level_crypto(&mut r2, &mut ex, probe.crypto_read[space]), 0)
                        } else if legal {
                            let hprobe = sim.nodes[hn].conns[&hc].conn.verif_frame_probe();
                            let unconfirmed: u64 = s.sent.iter().map(|i| i.new_bytes).sum::<u64>() + s.pending_new.iter().sum::<u64>();
                            let st = &vsnap.streams;
                            let big = st.receive_window >= 1 << 40;
                            let ctx = LegalCtx {
                                victim_is_server: victim == SERVER,
                                space,
                                vsnap: &vsnap,
                                vprobe: &probe,
                                hsnap: &hsnap,
                                hprobe: &hprobe,
                                vconn,
                                new_bytes_ok: big || !hostile_sends_streams,
                                conn_room: st.local_max_data.saturating_sub(st.data_recvd).saturating_sub(unconfirmed),
                            };
                            let r = gen_legal(&mut r2, &mut ex, &ctx, &mut attack_streams, &mut af_seq);
                            if std::env::var("VERIF_FRAMES_DBG").is_ok() { eprintln!("DBG gen t={} space {space} new_ok {} room {} unconfirmed {unconfirmed} data_recvd {} lmd {} -> new_bytes {} streams {:?}", sim.now, ctx.new_bytes_ok, ctx.conn_room, st.data_recvd, st.local_max_data, r.1, attack_streams); }
                            r
                        } else {
                            let ctx = GenCtx { victim_is_server: victim == SERVER, space, snap: vsnap.clone(), probe, srw };
                            (gen_injection(&mut r2, &mut ex, &ctx), 0)
                        };
                        if !fr.is_empty() {
                            let bytes: Vec<u8> = fr.iter().flat_map(|f| f.bytes.iter().copied()).collect();
                            let fr_has_close = fr.iter().any(|f| matches!(f.bytes.first(), Some(0x1c | 0x1d)));
                            if sim.conn(hn, hc).verif_inject_frames(space as u8, bytes) {
                                injected += 1;
                                injected_legal += legal as u64;
                                frames_injected += fr.len() as u64;
                                spaces_hit[space] += 1;
                                s.pending[space].extend(fr);
                                s.pending_legal[space] = legal;
                                s.pending_new[space] = new_bytes;
                                s.illegal_injected |= !legal;
                                s.close_injected |= fr_has_close;
                                quiet = 0;
                            } else {
                                // not sent: the stream bookkeeping must not count it
                                (attack_streams, af_seq) = saved;
                            }
                        }
                    }
                }
            }
        }
        quiet += 1;
        wb.tick(sim);
        let aborted = shared.borrow().abort;
        if ach.is_some() && !aborted {
            // A's applications run the ordinary workload: its content oracles (bytes read = canonical content at that offset, no
            // gap / duplicate) stay on; injected stream data carries the canonical content too
            let nf = sim.fails.len();
            wa.tick(sim);
            if shared.borrow().illegal_injected {
                // once an unrestricted datagram (arbitrary stream payload) has been injected, what A's applications read is no
                // longer only what the honest side sent
                sim.fails.truncate(nf);
            }
        }
        let a_dead = ach.is_some_and(|ch| {
            let c = &sim.nodes[CLIENT].conns[&ch];
            !c.obs.lost.is_empty() || c.conn.is_closed()
        });
        wb.complete() && wb.ch[SERVER].is_some() && ach.is_some() && (a_dead || aborted || (injected >= n_attack && quiet > 40))
    });
    sim.rx_tap = None;

    // oracles
    if end == RunEnd::StepLimit {
        sim.fail("hostile-peer-steps-exceeded", format!("{} simulator steps for {injected} injected datagrams / {frames_injected} frames", sim.steps));
    }
    let lost_b = sim.nodes[CLIENT].conns[&bch].obs.lost.clone();
    let b_connected = sim.nodes[CLIENT].conns[&bch].obs.connected;
    let lost_bs = wb.ch[SERVER].map(|sch| sim.nodes[SERVER].conns[&sch].obs.lost.clone()).unwrap_or_default();
    if b_connected && (!lost_b.is_empty() || !lost_bs.is_empty()) {
        sim.fail("hostile-peer-bystander-lost", format!("connection B lost: client {lost_b:?} server {lost_bs:?} after {injected} injected datagrams on A"));
    }
    if b_connected && lost_b.is_empty() && lost_bs.is_empty() {
        wb.final_check(&mut sim, false);
        if !wb.complete() {
            sim.fail("hostile-peer-bystander-incomplete", format!("workload of B incomplete at end {end:?} (t={} ms, {injected} injected datagrams on A)", sim.now / 1_000_000));
        }
    }
    let s = shared.borrow();
    let mut victim_error = None;
    let mut close_checked = false;
    if let Some(("transport", code)) = s.victim_end {
        victim_error = Some(code);
        let rfc = code <= 0x10 || (0x100..0x200).contains(&code);
        if !rfc {
            sim.fail("hostile-peer-wrong-error-class", format!("victim ended with transport error code {code:#x}, which RFC 9000 does not define"));
        }
        if let (Some(("peer-transport", c2)), false) = (s.hostile_end, s.close_injected) {
            // (if the hostile side itself sent a CONNECTION_CLOSE - only an injected one can precede the victim's - a victim already
            // closing answers THAT frame from the draining state with NO_ERROR, RFC 9000 10.2.2)
            close_checked = true;
            if c2 != code {
                sim.fail("hostile-peer-wrong-error-class", format!("victim reported transport error {code:#x} but the CONNECTION_CLOSE its peer received carries {c2:#x}"));
            }
        }
    }
    out.runs += 1;
    out.evaluations += sim.steps + frames_injected;
    if b_connected && a_established && s.frames_evaluated >= 20 {
        out.nontrivial += 1;
    }
    out.count(&format!("end:{end:?}"), 1);
    out.count(&format!("mode:{}", ["unrestricted", "legal-only", "legal-then-illegal"][mode]), 1);
    out.count(&format!("hostile-side:{}", if hostile == CLIENT { "client" } else { "server" }), 1);
    out.count("injected-datagrams", injected);
    out.count("injected-datagrams-legal", injected_legal);
    out.count("injected-datagrams-unrestricted", injected - injected_legal);
    out.count("injected-frames", frames_injected);
    out.count("datagrams-evaluated", s.evaluated);
    out.count("datagrams-evaluated-legal", s.evaluated_legal);
    out.count("frames-evaluated", s.frames_evaluated);
    out.count("frames-evaluated-legal", s.frames_evaluated_legal);
    out.count("frames-evaluated-exact", s.exact_frames);
    let bucket = match s.frames_evaluated {
        0 => "0",
        1..=19 => "1-19",
        20..=99 => "20-99",
        100..=499 => "100-499",
        _ => "500+",
    };
    out.count(&format!("victim-processed-hostile-frames:{bucket}"), 1);
    out.count("injections-dropped-too-large", s.dropped);
    out.count("attack-streams-opened", attack_streams.len() as u64);
    out.count("attack-stream-bytes", attack_streams.iter().map(|a| a.end).sum());
    out.count("victim-established", a_established as u64);
    out.count("close-code-compared", close_checked as u64);
    out.count("close-frame-injected", s.close_injected as u64);
    out.count("victim-ended-with-transport-error", victim_error.is_some() as u64);
    if let Some((k, c)) = s.hostile_end {
        out.count(&format!("hostile-side-ended:{k}:{}", code_class(c)), 1);
    }
    if let Some((k, c)) = s.victim_end {
        out.count(&format!("victim-ended:{k}:{}", code_class(c)), 1);
    }
    for (i, n) in spaces_hit.iter().enumerate() {
        out.count(&format!("space:{i}"), *n);
    }
    for (c, n) in &s.errors_seen {
        out.count(&format!("victim-error:{c}"), *n);
    }
    if let Some(c) = victim_error {
        if !s.attributed_error {
            out.count(&format!("victim-error-collateral:{}", code_class(c)), 1);
        }
    }
    for (l, n) in &s.labels {
        out.count(&format!("frame:{l}"), *n);
    }
    for (l, n) in &s.max_seen {
        out.count(&format!("summax:{l}"), *n);
    }
    if out.samples.len() < 3 {
        out.samples.push(format!("seed {seed}: mode {mode} hostile side {hostile}; {injected} injected datagrams ({injected_legal} legal) / {frames_injected} frames, {} evaluated ({} frames, {} in legal datagrams); attack streams {:?}; victim end {:?} hostile end {:?}; end {end:?} at t={}ms after {} steps", s.evaluated, s.frames_evaluated, s.frames_evaluated_legal, attack_streams.iter().map(|a| (a.id, a.end, a.fin)).collect::<Vec<_>>(), s.victim_end, s.hostile_end, sim.now / 1_000_000, sim.steps));
    }
    if std::env::var("VERIF_SIM_VERBOSE").is_ok() {
        eprintln!("--- seed {seed}: mode {mode} end {end:?} hostile {hostile} injected {injected} evaluated {} errors {:?} victim_end {:?} hostile_end {:?}", s.evaluated, s.errors_seen, s.victim_end, s.hostile_end);
        for node in 0..2 {
            for (ch, nc) in &sim.nodes[node].conns {
                eprintln!("node {node} conn {ch}: lost {:?}", nc.obs.lost);
                eprintln!("   probe {:?}", nc.conn.verif_frame_probe());
            }
        }
        for l in &sim.model_ops {
            eprintln!("{l}");
        }
    }
    drop(s);
    for f in sim.fails.drain(..) {
        out.fails.push(format!("{f} seed={seed}"));
    }
    out.take_trace(seed, &mut sim);
}
