//! op classes of the endpoint-level components: token, bloomlog, tokencache (C14), cidecho (C14), cindex (C09)
//! (see opclass.rs for the meaning of the classes).  Each `classify` arm carries its reason; the real call
//! sites named are in quinn-proto/src (token.rs, bloom_token_log.rs, token_memory_cache.rs, endpoint.rs,
//! connection/mod.rs, connection/cid_state.rs).  Long form: sub/endpoint/NOTES.md of the `panics` delivery.
use std::collections::{BTreeMap, BTreeSet};

use crate::opclass::*;

pub fn tracker(comp: &str) -> Option<Box<dyn Tracker>> {
    Some(match comp {
        "token" => Box::new(Token::default()),
        "bloomlog" => Box::new(BloomLog),
        "tokencache" => Box::new(TokenCache),
        "cidecho" => Box::new(CidEcho::default()),
        "cindex" => Box::new(Cindex::new()),
        _ => return None,
    })
}

const NS: u128 = 1_000_000_000;
const MAX_CID: usize = 20;

fn unhex(s: &str) -> Option<Vec<u8>> {
    hexlen(s)?;
    if s == "-" {
        return Some(Vec::new());
    }
    (0..s.len() / 2).map(|i| u8::from_str_radix(&s[2 * i..2 * i + 2], 16).ok()).collect()
}

/// decimal digits only (the executors' `u128p`)
fn dec128(w: &[&str], i: usize) -> Option<u128> {
    let s = w.get(i)?;
    if s.is_empty() || !s.bytes().all(|b| b.is_ascii_digit()) {
        return None;
    }
    s.parse().ok()
}

/// a CID argument: hex, at most 20 bytes
fn cid_ok(s: &str) -> bool {
    matches!(hexlen(s), Some(l) if l <= MAX_CID)
}

/// `SystemTime(UNIX_EPOCH + issued) + lifetime` overflows (unix: i64 seconds + carry of the nanoseconds)
fn time_sum_overflows(issued_ns: u128, lifetime_ns: u128) -> bool {
    let carry = ((issued_ns % NS + lifetime_ns % NS) >= NS) as u128;
    issued_ns / NS + lifetime_ns / NS + carry > i64::MAX as u128
}

// =====================================================================================================
// token: Token::encode / Token::decode / IncomingToken::from_header  (token.rs)
// =====================================================================================================

#[derive(Default)]
struct Token {
    /// `cfg n ..`: the server key is the executor's NULL AEAD (tag = 16 zero bytes)
    null_server_key: bool,
    /// `cfg .. <retry lifetime ns> <validation lifetime ns> ..` in force (0 before the first `cfg`)
    lifetimes_ns: [u128; 2],
}

/// Exactly the plaintexts `Token::encode` (token.rs:216) can seal: type 0 = ip, port, CID (<= 20 bytes), seconds;
/// type 1 = ip, seconds; seconds = `SystemTime::duration_since(UNIX_EPOCH).as_secs()` <= i64::MAX; no slack.
fn sealable_plaintext(pt: &[u8]) -> bool {
    // cursor over `pt`; `None` = ran out of bytes
    fn take<'a>(pt: &'a [u8], at: &mut usize, n: usize) -> Option<&'a [u8]> {
        let s = pt.get(*at..*at + n)?;
        *at += n;
        Some(s)
    }
    let mut at = 0;
    let ok = (|| {
        let ty = take(pt, &mut at, 1)?[0];
        let ip = match take(pt, &mut at, 1)?[0] {
            0 => 4,
            1 => 16,
            _ => return None,
        };
        take(pt, &mut at, ip)?;
        match ty {
            0 => {
                take(pt, &mut at, 2)?;
                let l = take(pt, &mut at, 1)?[0] as usize;
                if l > MAX_CID {
                    return None;
                }
                take(pt, &mut at, l)?;
            }
            1 => {}
            _ => return None,
        }
        let secs = u64::from_be_bytes(take(pt, &mut at, 8)?.try_into().ok()?);
        (secs <= i64::MAX as u64).then_some(())
    })();
    ok.is_some() && at == pt.len()
}

/// A token presented under the executor's NULL AEAD.  The null AEAD stands for "the presenter holds the
/// server's token key", which a remote peer does not: the guard the executor bypasses is the AES-256-GCM
/// authentication of `Token::decode` (token.rs:255-257).  What a peer CAN present under the real key is
///  (1) bytes that do not authenticate (here: shorter than nonce + tag, or a non-zero tag), and
///  (2) a token the server itself sealed, i.e. a plaintext `Token::encode` can produce.
/// Everything else (damaged type byte / ip tag / CID length / trailing bytes / seconds >= 2^63 behind a valid
/// tag) reaches the payload decoder only for a key holder: executor artefact, `Probe` (pure: a plaintext that
/// `encode` cannot produce never decodes to `Some`, so neither `dec` nor `present` changes any state).
fn null_key_token_class(tok: &[u8]) -> Class {
    if tok.len() < 16 {
        return Class::Peer; // no nonce: `checked_sub` exit of Token::decode
    }
    let sealed = &tok[..tok.len() - 16];
    if sealed.len() < 16 || sealed[sealed.len() - 16..].iter().any(|&b| b != 0) {
        return Class::Peer; // does not authenticate: same exit as any forged token under a real key
    }
    if sealable_plaintext(&sealed[..sealed.len() - 16]) {
        Class::Peer
    } else {
        Class::Probe
    }
}

impl Tracker for Token {
    fn classify(&mut self, w: &[&str]) -> Class {
        use Class::*;
        match w.get(1).copied().unwrap_or("") {
            // ServerConfig::new(crypto, token_key), ServerConfig::retry_token_lifetime(Duration),
            // ValidationTokenConfig::lifetime(Duration) / ::log(Arc<dyn TokenLog>): the setters accept EVERY
            // Duration (config/mod.rs:283, :493; nothing documented as invalid) -> Local even for 2^63 s.
            "cfg" => {
                let ok = w.len() == 6
                    && matches!(w[2], "0" | "1" | "2" | "3" | "n")
                    // the executor's `dur`: whole seconds must fit u64
                    && [3, 4].iter().all(|&i| matches!(dec128(w, i), Some(x) if x / NS <= u64::MAX as u128))
                    && matches!(w[5], "all" | "none" | "bloom");
                if ok {
                    self.null_server_key = w[2] == "n";
                    self.lifetimes_ns = [dec128(w, 3).unwrap_or(0), dec128(w, 4).unwrap_or(0)];
                }
                when(ok, Local)
            }
            // pure: seals a chosen payload (generators use it unrecorded to learn the ciphertext)
            "mint" => Probe,
            // the server issuing a token (Endpoint::retry endpoint.rs:753, NEW_TOKEN connection/mod.rs:3490):
            // address / CID of the peer's Initial, `issued` = ServerConfig::time_source.now() (a public trait:
            // any SystemTime); pure in the executor (re-seals and compares)
            "issue" => when(matches!((w.get(4).copied(), w.len()), (Some("retry"), 9) | (Some("val"), 8)), Local),
            // Token::decode on bytes of the Initial's token field (endpoint.rs:501 -> token.rs:141); pure
            "dec" => match (w.get(2).copied(), w.get(3).and_then(|h| unhex(h)), w.len()) {
                (Some("0" | "1" | "2" | "3"), Some(t), 4) => when(t.len() as u64 <= MAX_UDP, Peer),
                (Some("n"), Some(t), 4) => null_key_token_class(&t),
                _ => Contract,
            },
            // IncomingToken::from_header (endpoint.rs:501) for the first Initial of an attempt: token bytes,
            // remote address and DCID (<= 20 bytes, the executor refuses more) come from the wire, `now` from
            // ServerConfig::time_source.  The configuration in force is Local (see `cfg`), so a panic here is
            // a panic on peer input under a legal configuration.
            "present" => {
                let Some(t) = w.get(2).and_then(|h| unhex(h)) else { return Contract };
                let ok = w.len() == 6
                    && t.len() as u64 <= MAX_UDP
                    && cid_ok(w[4])
                    && matches!(dec128(w, 5), Some(x) if x / NS <= i64::MAX as u128);
                if !ok {
                    Contract
                } else if self.null_server_key {
                    null_key_token_class(&t)
                } else {
                    Peer
                }
            }
            _ => Contract,
        }
    }

    /// The recorded finding `C03-panic-on-peer-input.token.present@std.time:overflow-when-adding-duration-to-instant`
    /// exists only with a configured token lifetime of about 2^63 s ("never expires"): the class is part of the key,
    /// so the same overflow under an ordinary lifetime (a real defect of another kind) is not taken for it.
    fn config_class(&self, _w: &[&str]) -> Option<String> {
        let huge = self.lifetimes_ns.iter().any(|l| l / NS >= 1u128 << 62);
        huge.then(|| "lifetime-ge-2^62s".to_string())
    }
}

// =====================================================================================================
// bloomlog: BloomTokenLog::check_and_insert  (bloom_token_log.rs:57)
// =====================================================================================================

struct BloomLog;

impl Tracker for BloomLog {
    fn classify(&mut self, w: &[&str]) -> Class {
        use Class::*;
        match w.get(1).copied().unwrap_or("") {
            // BloomTokenLog::new(max_bytes: usize, k_num: u32): public, every value accepted (0 is catered
            // for at bloom_token_log.rs:191); the executor caps max_bytes at 2^24 (memory of the test process)
            "new" => when(
                w.len() == 4
                    && matches!(dec128(w, 2), Some(x) if x <= 1 << 24)
                    && matches!(dec128(w, 3), Some(x) if x <= u32::MAX as u128),
                Local,
            ),
            // The only caller inside the crate is IncomingToken::from_header (token.rs:174-177):
            //  * nonce: 128 server-drawn random bits, AEAD-protected -> any u128;
            //  * issued: `decode_unix_secs` of an authenticated payload = WHOLE seconds <= i64::MAX, whatever
            //    the server clock (ServerConfig::time_source) said when the token was sealed - and a peer may
            //    present old / replayed tokens in any order, so no ordering between calls;
            //  * lifetime: ValidationTokenConfig::lifetime, any Duration (0 is handled at :65), and several
            //    ServerConfigs with different lifetimes may share one log (`Arc<dyn TokenLog>`);
            //  * guard: from_header evaluates `issued + lifetime` itself at token.rs:169 BEFORE consulting the
            //    log, so a pair whose sum overflows SystemTime never arrives here (the caller has already
            //    panicked: that panic is judged at `token present`) -> Contract at this level.
            // A sub-second `issued` cannot come out of a token; it is a direct call through the public trait
            // `TokenLog::check_and_insert` on the public type `BloomTokenLog` -> Local.
            "do" | "check" => {
                let want = if w[1] == "do" { 5 } else { 7 };
                let (Some(_), Some(i), Some(l)) = (dec128(w, 2), dec128(w, 3), dec128(w, 4)) else { return Contract };
                if w.len() != want
                    || i / NS > i64::MAX as u128
                    || l / NS > u64::MAX as u128
                    || (want == 7 && !(matches!(w[5], "ok" | "reuse") && matches!(w[6], "SS" | "SB" | "BS" | "BB")))
                {
                    return Contract; // the executor answers bad-op
                }
                if time_sum_overflows(i, l) {
                    Contract
                } else if i % NS == 0 {
                    Peer
                } else {
                    Local
                }
            }
            _ => Contract,
        }
    }
}

// =====================================================================================================
// tokencache: TokenMemoryCache through TokenStore  (token_memory_cache.rs)
// =====================================================================================================

struct TokenCache;

fn server_name_ok(s: &str) -> bool {
    !s.is_empty() && s.bytes().all(|b| b.is_ascii_lowercase() || b.is_ascii_digit())
}

impl Tracker for TokenCache {
    fn classify(&mut self, w: &[&str]) -> Class {
        use Class::*;
        match w.get(1).copied().unwrap_or("") {
            // TokenMemoryCache::new(max_server_names: u32, max_tokens_per_server: usize): public, 0 allowed (:91, :97)
            "new" => when(
                w.len() == 4
                    && matches!(dec128(w, 2), Some(x) if x <= u32::MAX as u128)
                    && matches!(dec128(w, 3), Some(x) if x <= usize::MAX as u128),
                Local,
            ),
            // TokenStore::insert(server_name, token): called by the client's NEW_TOKEN handler
            // (connection/mod.rs:3064-3077) with the frame's token (1..=one datagram; an EMPTY token is refused
            // at :3073 with FRAME_ENCODING_ERROR) and the server name the application gave to
            // Endpoint::connect.  An empty token is only a direct call of the public trait method -> Local.
            "insert" => match (w.get(2), w.get(3).and_then(|h| hexlen(h)), w.len()) {
                (Some(nm), Some(l), 4) if server_name_ok(nm) && l as u64 <= MAX_UDP => {
                    if l == 0 {
                        Local
                    } else {
                        Peer
                    }
                }
                _ => Contract,
            },
            // TokenStore::take(server_name): Endpoint::connect -> Connection::new (connection/mod.rs:3934)
            "take" => when(w.len() == 3 && server_name_ok(w[2]), Local),
            _ => Contract,
        }
    }
}

// =====================================================================================================
// cidecho: Connection::handle_peer_params and the client's CID bookkeeping  (connection/mod.rs)
// =====================================================================================================

#[derive(Default)]
struct CidEcho {
    /// `connect` was executed: the driven client connection exists
    connected: bool,
}

fn opt_cid_ok(s: &str) -> bool {
    s == "none" || cid_ok(s)
}

impl Tracker for CidEcho {
    fn classify(&mut self, w: &[&str]) -> Class {
        use Class::*;
        match w.get(1).copied().unwrap_or("") {
            // handle_peer_params (connection/mod.rs:3576) on a connection whose three private CID fields the
            // executor overwrites first.  The peer's transport parameters (three optional CIDs <= 20 bytes) are
            // wire input.  Client: every triple is a state a real client can be in when the parameters arrive -
            // initial_dst_cid = ClientConfig::initial_dst_cid_provider (any CID), orig_rem_cid = SCID of the
            // first server Initial (:2713, any CID), retry_src_cid = SCID of an accepted Retry (:2585) or None.
            // Server: orig_rem_cid = the client's SCID, initial_dst_cid = the client's first DCID, and
            // retry_src_cid stays None for ever (:317 is the only server-side assignment) - a server poked
            // with Some(..) is a state that does not exist: Probe (each `check` overwrites all three fields and
            // the decision connections are not shared with the driven one, so nothing of it survives).
            // (Repeating handle_peer_params on one connection is harmless: set_peer_params only assigns.)
            "check" => {
                let ok = w.len() == 9
                    && matches!(w[2], "c" | "s")
                    && cid_ok(w[3])
                    && cid_ok(w[4])
                    && w[5..9].iter().all(|s| opt_cid_ok(s));
                if !ok {
                    Contract
                } else if w[2] == "s" && w[5] != "none" {
                    Probe
                } else {
                    Peer
                }
            }
            // Endpoint::connect with ClientConfig::initial_dst_cid_provider returning this CID (public setter,
            // any ConnectionId), then poll_transmit
            "connect" => {
                let ok = w.len() == 3 && cid_ok(w[2]);
                if ok {
                    self.connected = true;
                }
                when(ok, Local)
            }
            // A Retry packet for the driven client: SCID <= 20 bytes, token <= 64 bytes (executor bound), tag
            // good/bad.  The Retry integrity key is a public constant (RFC 9001 5.8), so anybody who saw the
            // client's Initial can build the `good` one.
            "retry" => when(
                self.connected
                    && w.len() == 5
                    && cid_ok(w[2])
                    && matches!(w[3], "good" | "bad")
                    && matches!(n(w, 4), Some(x) if x <= 64),
                Peer,
            ),
            // A server Initial: Initial keys derive from the client's DCID (public) -> anybody can build it
            "initial" => when(self.connected && w.len() == 4 && cid_ok(w[2]) && matches!(w[3], "good" | "bad"), Peer),
            // The executor PLANTS Handshake keys into `spaces[Handshake].crypto` of the driven connection (no
            // TLS progress was made): a private-state poke producing a connection state that no packet
            // sequence produces (keys without a ServerHello) -> Contract, the rest of the case is not judged.
            "hs" => Contract,
            // handle_peer_params on the driven connection with its REAL bookkeeping state: the call the
            // connection makes when the server's transport parameters come out of TLS (:2687); the three CIDs
            // are the peer's.
            "echo" => when(self.connected && w.len() == 5 && w[2..5].iter().all(|s| opt_cid_ok(s)), Peer),
            _ => Contract,
        }
    }

    /// `echo -> err ..`: TRANSPORT_PARAMETER_ERROR, the real connection closes
    fn closes(&self, w: &[&str], resp: &str) -> bool {
        w.get(1).copied() == Some("echo") && resp.starts_with("err ")
    }
}

// =====================================================================================================
// cindex: the REAL Endpoint's routing tables (endpoint.rs) driven by connect / first Initial / accept /
// refuse / ignore / the four EndpointEvents / datagram routing
// =====================================================================================================

struct Cindex {
    cid_len: usize,
    pref: bool,
    /// live connection handles -> upper bound of the sequence numbers the endpoint issued (`cids_issued`)
    live: BTreeMap<u64, u64>,
    /// `Incoming`s the application holds (incoming_idx)
    pending: BTreeSet<u64>,
    /// every CID candidate offered to the scripted generator so far in this case
    offered: BTreeSet<String>,
}

/// LOC_CID_COUNT (lib.rs:330): most CIDs a connection keeps issued / asks for at once
const LOC_CID_COUNT: u64 = 8;

impl Cindex {
    fn new() -> Self {
        // the executor's initial endpoint: CID length 8, no preferred address
        Self { cid_len: 8, pref: false, live: BTreeMap::new(), pending: BTreeSet::new(), offered: BTreeSet::new() }
    }

    /// The candidate list can serve `calls` CID draws.  The executor replaces the random CID generator by a
    /// SCRIPT of candidates and panics ("verif: CID candidates exhausted") when the script runs dry, where
    /// the real `new_cid` (endpoint.rs:411) just keeps drawing.  `new_cid` skips registered CIDs, and only
    /// candidates offered earlier can be registered, so a draw ends at the latest at the next candidate never
    /// offered before: `calls` fresh candidates always suffice.  Fewer -> the op may die of the script, not
    /// of quinn: Contract (executor artefact).  `_` = no candidates (zero-length CIDs draw nothing).
    fn cands_ok(&self, s: &str, calls: u64) -> bool {
        if self.cid_len == 0 {
            return s == "_";
        }
        let mut fresh = BTreeSet::new();
        if s != "_" {
            for c in s.split(',') {
                if hexlen(c) != Some(self.cid_len) {
                    return false; // the executor answers bad-op
                }
                if !self.offered.contains(c) {
                    fresh.insert(c);
                }
            }
        }
        fresh.len() as u64 >= calls
    }

    /// argument `i` is the handle of a live connection
    fn live_at(&self, w: &[&str], i: usize) -> Option<u64> {
        n(w, i).filter(|h| self.live.contains_key(h))
    }

    fn addr_ok(s: &str) -> bool {
        matches!(s.split_once(':'), Some((ip, port)) if ip.parse::<u32>().is_ok() && port.parse::<u16>().is_ok())
    }
    fn local_ok(s: &str) -> bool {
        s == "-" || s.parse::<u32>().is_ok()
    }
}

impl Tracker for Cindex {
    fn classify(&mut self, w: &[&str]) -> Class {
        use Class::*;
        match w.get(1).copied().unwrap_or("") {
            // Endpoint::new with EndpointConfig::cid_generator (CID length 0..=20) and
            // ServerConfig::preferred_address_v4: public configuration
            "new" => {
                let ok = w.len() == 4 && matches!(n(w, 2), Some(l) if l <= 20) && matches!(n(w, 3), Some(0 | 1));
                if ok {
                    *self = Self::new();
                    self.cid_len = n(w, 2).unwrap() as usize;
                    self.pref = w[3] == "1";
                }
                when(ok, Local)
            }
            // verif_dump: pure observer
            "dump" => when(w.len() == 2, Local),
            // Endpoint::connect (public; a bad remote address / server name is an Err exit); one `new_cid`
            "connect" => when(
                w.len() == 6 && Self::addr_ok(w[2]) && cid_ok(w[3]) && matches!(w[4], "0" | "1") && self.cands_ok(w[5], 1),
                Local,
            ),
            // A datagram whose first packet is an Initial for an unknown DCID (Endpoint::handle ->
            // handle_first_packet, endpoint.rs:426).  The executor's shortcut `verif_first_packet` leaves out
            // the guards of handle_first_packet; the one that excludes argument values is
            // early_validate_first_packet (:701): a DCID shorter than 8 bytes is refused unless a (any,
            // non-empty) token is present AND the length equals the endpoint's CID length.  (The size /
            // saturation / version exits only drop the datagram; `accept` re-checks `cids_exhausted`.)
            "first" => {
                let ok = w.len() == 6
                    && Self::addr_ok(w[2])
                    && Self::local_ok(w[3])
                    && matches!(hexlen(w[4]), Some(l) if l <= MAX_CID && (l >= 8 || l == self.cid_len))
                    && matches!(hexlen(w[5]), Some(l) if l as u64 <= MAX_UDP);
                when(ok, Peer)
            }
            // Endpoint::accept on an Incoming the application holds (an index that is not pending is a harness
            // line the executor refuses).  CID draws: new_cid for the connection (+1 with a preferred
            // address) and one more in `initial_close` on the CidsExhausted / first-packet-failure exits; the
            // stale exit draws nothing.  `ok` / `stale` are the application's call (and clock); with `auth` /
            // `badpacket` it is the peer's packet content that decides the path -> Peer.
            "accept" => {
                let ok = w.len() == 5 && matches!(n(w, 2), Some(i) if self.pending.contains(&i));
                match (ok, w.get(3).copied()) {
                    (true, Some("stale")) => when(self.cands_ok(w[4], 0), Local),
                    (true, Some("ok")) => when(self.cands_ok(w[4], 2 + self.pref as u64), Local),
                    (true, Some("auth" | "badpacket")) => when(self.cands_ok(w[4], 2 + self.pref as u64), Peer),
                    _ => Contract,
                }
            }
            // Endpoint::ignore / Endpoint::refuse (one CID draw in initial_close) on a held Incoming
            "ignore" => when(w.len() == 3 && matches!(n(w, 2), Some(i) if self.pending.contains(&i)), Local),
            "refuse" => when(
                w.len() == 4 && matches!(n(w, 2), Some(i) if self.pending.contains(&i)) && self.cands_ok(w[3], 1),
                Local,
            ),
            // ---- Endpoint::handle_event(ch, event).  `EndpointEvent` is opaque to the application (the inner
            // enum is pub(crate)): it can only be obtained from `Connection::poll_endpoint_events` and must be
            // handed to the endpoint under that connection's handle; `Drained` is the LAST event a connection
            // emits (EndpointEvent::is_drained, shared.rs:44).  So a non-live handle (never allocated, or
            // drained) is a caller bug: `self.connections[ch]` (endpoint.rs:111, :119, :397) panics by design
            // -> Contract.  The events themselves are the connection's reaction to peer input -> Peer.
            //
            // NeedIdentifiers(now, n): issue_first_cids (connection/mod.rs:3242) after the peer's transport
            // parameters: n = min(active_connection_id_limit, 8) - 1 [- 1 with a preferred address], the
            // limit >= 2 is enforced by TransportParameters::read (:506), and nothing for zero-length CIDs;
            // Timer::PushNewCid (:1230): n = `on_cid_timeout() as u64` <= 1.
            "issue" => {
                let ok = w.len() == 5
                    && self.live_at(w, 2).is_some()
                    && matches!(n(w, 3), Some(k) if k <= if self.cid_len == 0 { 1 } else { LOC_CID_COUNT }
                        && self.cands_ok(w[4], k));
                when(ok, Peer)
            }
            // RetireConnectionId(now, seq, allow_more): the RETIRE_CONNECTION_ID handler (:2985) behind
            // CidState::on_cid_retirement (cid_state.rs:150): refused when CIDs are zero-length (:155) and when
            // seq > the number of CIDs the CONNECTION knows to be issued (:160; "<=" passes, and that count never
            // exceeds the endpoint's cids_issued because NewIdentifiers reach the connection later).  Both
            // values of allow_more occur (limit > active count).  allow_more => one new_cid.
            "retire" => {
                let ok = w.len() == 6
                    && self.cid_len > 0
                    && matches!((self.live_at(w, 2), n(w, 3)), (Some(h), Some(seq)) if seq <= self.live[&h])
                    && match w[4] {
                        "1" => self.cands_ok(w[5], 1),
                        "0" => self.cands_ok(w[5], 0),
                        _ => false,
                    };
                when(ok, Peer)
            }
            // ResetToken(remote, token): the peer's stateless_reset_token parameter (:2685) or the token of a
            // NEW_CONNECTION_ID CID being switched to (set_reset_token :3232), remote = the current path: any
            // 16 bytes, any address
            "token" => when(
                w.len() == 5 && self.live_at(w, 2).is_some() && Self::addr_ok(w[3]) && hexlen(w[4]) == Some(16),
                Peer,
            ),
            // Drained: close / drain timer or idle timeout of a live connection (:1197, :2494, :3826); for a
            // handle that is not live the code logs "unknown connection drained ... a bug in downstream code"
            "drained" => when(w.len() == 3 && self.live_at(w, 2).is_some(), Peer),
            // Endpoint::handle up to the routing decision for an arbitrary datagram (<= 65527 bytes); the
            // declared kind / DCID are only compared with what the real decoder found
            "route" => when(
                w.len() == 7
                    && matches!(w[2], "initial" | "zrtt" | "long" | "short")
                    && Self::addr_ok(w[3])
                    && Self::local_ok(w[4])
                    && cid_ok(w[5])
                    && matches!(hexlen(w[6]), Some(l) if l as u64 <= MAX_UDP),
                Peer,
            ),
            _ => Contract,
        }
    }

    /// Every mutating response ends with ` | <table sizes> h=<hash of verif_dump>`: all routing tables, every
    /// ConnectionMeta and both slabs.  `route` and `dump` only read.
    fn state<'a>(&self, w: &[&str], resp: &'a str) -> StateObs<'a> {
        match (w.get(1).copied(), resp.split_once(" | ")) {
            (Some("route" | "dump"), _) if resp != "panic" && resp != "poisoned" => StateObs::Unchanged,
            (_, Some((_, summary))) => StateObs::Full(summary),
            (Some("new"), None) => resp.strip_prefix("ok ").map_or(StateObs::Unknown, StateObs::Full),
            _ => StateObs::Unknown,
        }
    }

    fn observe(&mut self, w: &[&str], resp: &str) {
        let op = w.get(1).copied().unwrap_or("");
        // candidates offered by this op may now be registered
        let cands = match op {
            "connect" => w.get(5),
            "accept" | "issue" => w.get(4),
            "refuse" => w.get(3),
            "retire" => w.get(5),
            _ => None,
        };
        if let Some(c) = cands {
            if **c != *"_" {
                self.offered.extend(c.split(',').map(|s| s.to_string()));
            }
        }
        let head: Vec<&str> = resp.split(" | ").next().unwrap_or("").split(' ').collect();
        match (op, head.as_slice()) {
            ("connect", ["ok", h]) => {
                if let Ok(h) = h.parse() {
                    self.live.insert(h, 1);
                }
            }
            ("accept", r) => {
                if let Some(i) = n(w, 2) {
                    if *r != ["bad-op"] {
                        self.pending.remove(&i); // the Incoming is consumed on every exit
                    }
                }
                if let ["ok", h] = r {
                    if let Ok(h) = h.parse() {
                        self.live.insert(h, 1 + self.pref as u64);
                    }
                }
            }
            ("first", ["new", i]) => {
                if let Ok(i) = i.parse() {
                    self.pending.insert(i);
                }
            }
            ("ignore" | "refuse", ["ok"]) => {
                if let Some(i) = n(w, 2) {
                    self.pending.remove(&i);
                }
            }
            ("issue" | "retire", ["ids", list]) => {
                // `seq:cid,..` (or `-`): sequence numbers handed out by send_new_identifiers
                if let Some(h) = n(w, 2) {
                    if let Some(issued) = self.live.get_mut(&h) {
                        for e in list.split(',') {
                            if let Some(s) = e.split_once(':').and_then(|(s, _)| s.parse::<u64>().ok()) {
                                *issued = (*issued).max(s + 1);
                            }
                        }
                    }
                }
            }
            ("drained", ["none"]) => {
                if let Some(h) = n(w, 2) {
                    self.live.remove(&h);
                }
            }
            _ => {}
        }
    }
}
