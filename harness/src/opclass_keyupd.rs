//! op classes of the component `keyupd` (key updates in the 1-RTT receive pipeline, C04 / C03): see opclass.rs
//! for the meaning of the classes.
use crate::opclass::*;

pub fn tracker(comp: &str) -> Option<Box<dyn Tracker>> {
    Some(match comp {
        "keyupd" => Box::new(KeyUpd::default()),
        _ => return None,
    })
}

#[derive(Default)]
struct KeyUpd {
    /// next packet number of the connection as last printed (`npn=`)
    npn: u64,
}

impl Tracker for KeyUpd {
    fn classify(&mut self, w: &[&str]) -> Class {
        match w.get(1).copied().unwrap_or("") {
            // a short-header datagram from the network: ANY packet number a 4-byte field can carry (the executor
            // accepts numbers below 2^30), either key-phase bit, reserved bits set or not, and any tag - the
            // sender needs no keys to have the packet reach `decrypt_packet_body`, and a peer holding the keys can
            // seal with every generation it likes.  Also reachable after the connection closed (packets keep
            // arriving), so nothing "closes" a case here.
            "rx" => {
                let ok = (w.len() == 5 || w.len() == 6 && w[5] == "rsv")
                    && n(w, 2).is_some_and(|pn| pn < 1 << 30)
                    && matches!(w[3], "0" | "1")
                    && (w[4] == "forged" || n(w, 4).is_some_and(|g| g < 1 << 32));
                when(ok, Class::Peer)
            }
            // an ACK frame of the peer for a packet that was really sent (an ACK of an unsent packet is answered with
            // PROTOCOL_VIOLATION by the frame handler, which this component does not drive)
            "ackd" => when(w.len() == 3 && n(w, 2).is_some_and(|pn| pn < self.npn), Class::Peer),
            // Connection::force_key_update (public API, any state), Connection::ping + poll_transmit,
            // Connection::handle_timeout at any instant not before the previous one
            "update" | "send" | "timeout" => when(w.len() == 2, Class::Local),
            "tick" => when(w.len() == 3 && n(w, 2).is_some_and(|us| us <= 1_000_000_000), Class::Local),
            // pure observations
            "view" | "env" => Class::Probe,
            _ => Class::Contract,
        }
    }
    fn observe(&mut self, _w: &[&str], resp: &str) {
        if let Some(x) = resp.split_ascii_whitespace().find_map(|t| t.strip_prefix("npn=")).and_then(|x| x.parse().ok()) {
            self.npn = x;
        }
    }
    fn state<'a>(&self, _w: &[&str], resp: &'a str) -> StateObs<'a> {
        match resp.split_once(" | ") {
            Some((_, st)) => StateObs::Full(st),
            None => StateObs::Unchanged, // bad-op: the executor returned before touching the connection
        }
    }
}
