//! op classes of the connection-level components: streams, dgram, cidq, cidstate, pendingacks
//! (see opclass.rs for the meaning of the classes).  Each `classify` arm carries its reason; the real
//! call sites named are in quinn-proto/src/connection/mod.rs unless said otherwise.
use std::collections::BTreeSet;

use crate::opclass::*;

pub fn tracker(comp: &str) -> Option<Box<dyn Tracker>> {
    Some(match comp {
        "streams" => Box::new(Streams::default()),
        "dgram" => Box::new(Dgram::default()),
        "cidq" => Box::new(Cidq::default()),
        "cidstate" => Box::new(CidState::default()),
        "pendingacks" => Box::new(PendingAcks::default()),
        "rxpn" => Box::new(RxPn::default()),
        _ => return None,
    })
}

fn is_err(resp: &str) -> bool {
    resp.starts_with("err ")
}

// =====================================================================================================
// streams: StreamsState through Streams / SendStream / RecvStream and the frame-level entry points
// =====================================================================================================

/// 2^60: largest stream count a MAX_STREAMS frame / initial_max_streams_* may carry (RFC 9000 4.6, 19.11;
/// `TransportParameters::read` rejects larger values)
const MAX_STREAM_COUNT: u64 = 1 << 60;

#[derive(Default)]
struct Streams {
    started: bool,
    /// 0 = client, 1 = server
    side: u64,
    /// STREAM frames handed out by `transmit` and neither acknowledged nor declared lost yet
    flight: Vec<(u64, u64, u64, bool)>,
    /// RESET_STREAM frames written by `ctrl` and not yet acknowledged
    rst_sent: Vec<u64>,
    sent_md: bool,
    sent_msd: BTreeSet<u64>,
    sent_ms: [bool; 2],
    /// transport parameters applied since `new` / `rejected`
    params: Option<[u64; 6]>,
    nparams: u32,
    /// a frame of the peer (1-RTT) was processed: the handshake is over
    peer_frames: bool,
    rejected: bool,
    retried: bool,
    closed: bool,
    /// next locally initiated stream index per direction [bi, uni], from the last printed state
    nx: [u64; 2],
    /// stream ids the application legitimately holds: returned by `open` / `accept`
    handles: BTreeSet<u64>,
    /// next peer-initiated stream index per direction (what the peer has opened), from the last printed state
    nr: [u64; 2],
}

impl Streams {
    fn id(&self, w: &[&str], i: usize) -> Option<u64> {
        n(w, i).filter(|x| *x <= VARINT_MAX)
    }
    fn local(&self, id: u64) -> bool {
        id % 2 == self.side
    }
    fn uni(id: u64) -> bool {
        id / 2 % 2 == 1
    }
    /// the application's handle on stream `w[i]`
    fn handle(&self, w: &[&str], i: usize) -> bool {
        n(w, i).is_some_and(|id| self.handles.contains(&id))
    }
    /// receive side: also a peer-initiated stream the peer has opened - its id reaches the application in
    /// `StreamEvent::Readable` and `accept` does no accounting for receive halves
    fn rhandle(&self, w: &[&str], i: usize) -> bool {
        n(w, i).is_some_and(|id| self.handles.contains(&id) || (id <= VARINT_MAX && !self.local(id) && id / 4 < self.nr[(id / 2 % 2) as usize]))
    }
    fn local_unopened(&self, id: u64) -> bool {
        self.local(id) && id / 4 >= self.nx[(id / 2 % 2) as usize]
    }
}

impl Tracker for Streams {
    fn classify(&mut self, w: &[&str]) -> Class {
        use Class::*;
        let op = w.get(1).copied().unwrap_or("");
        if op != "new" && !self.started {
            // the executor starts from a degenerate all-zero client state; every generator issues `new` first
            self.started = true;
        }
        match op {
            // Connection::new -> StreamsState::new with TransportConfig values: max_concurrent_{uni,bidi}_streams
            // (VarInt), send_window (any u64), receive_window, stream_receive_window (VarInt; VarInt::MAX is
            // what `TransportConfig::receive_window` documents as "unlimited"): all accepted by the public
            // setters -> in contract (SD-25 is judged under this class).
            "new" => {
                let ok = w.len() == 8
                    && matches!(w[2], "c" | "s")
                    && varints(w, &[3, 4, 6, 7])
                    && n(w, 5).is_some();
                if ok {
                    *self = Self { started: true, side: (w[2] == "s") as u64, ..Self::default() };
                }
                when(ok, Local)
            }
            // the peer's transport parameters (Connection::handle_peer_params -> set_params): six varints;
            // initial_max_streams_* <= 2^60 is enforced by TransportParameters::read.  Applied once per
            // handshake; a client that attempted 0-RTT applies the remembered ones first and the real ones
            // later, which after ACCEPTANCE are validated to be no smaller (validate_resumption_from) and
            // after REJECTION are arbitrary.
            "params" => {
                let Some(p) = (2..8).map(|i| self.id(w, i)).collect::<Option<Vec<u64>>>() else { return Contract };
                if w.len() != 8 || p[3] > MAX_STREAM_COUNT || p[4] > MAX_STREAM_COUNT {
                    return Contract;
                }
                let ok = match self.params {
                    None => true,
                    // second set: only a 0-RTT client, values not below the remembered ones
                    Some(old) => self.side == 0 && self.nparams == 1 && !self.rejected && p.iter().zip(old.iter()).all(|(a, b)| a >= b),
                };
                if ok {
                    self.params = Some([p[0], p[1], p[2], p[3], p[4], p[5]]);
                    self.nparams += 1;
                }
                when(ok, Peer)
            }
            // connection state seen by the Streams API: Established -> closed (Draining) happens, the reverse never
            "conn" => match w.get(2).copied() {
                Some("closed") => {
                    self.closed = true;
                    Local
                }
                Some("open") => when(!self.closed, Local),
                _ => Contract,
            },
            // application calls (quinn_proto::Connection::{streams, send_stream, recv_stream}).  Stream ids are
            // obtained from Streams::open / Streams::accept (that is the documented way, and the only one the
            // quinn crate offers): a call on an id the application was never given is outside the contract -
            // e.g. using the send half of a peer-initiated stream that was not accepted skips the
            // `send_streams` accounting of `accept` (finding P1 in NOTES: underflow in stream_freed).  A handle
            // stays valid for ever (the API answers ClosedStream once the half is gone).
            "open" | "accept" => when(matches!(w.get(2).copied(), Some("bi" | "uni")), Local),
            "write" => when(self.handle(w, 2) && n(w, 3).is_some(), Local),
            "read" => when(self.rhandle(w, 2) && n(w, 3).is_some(), Local),
            "finish" | "stopped" => when(self.handle(w, 2), Local),
            "rreset" => when(self.rhandle(w, 2), Local),
            "canflow" => when(self.id(w, 2).is_some(), Local),
            "reset" => when(self.handle(w, 2) && varints(w, &[3]), Local),
            "stop" => when(self.rhandle(w, 2) && varints(w, &[3]), Local),
            "prio" => when(self.handle(w, 2) && w.get(3).is_some_and(|p| p.parse::<i32>().is_ok()), Local),
            "poll" | "cansend" | "view" | "qmsi" | "ctrl" => Local,
            // packetisation by the connection (populate_packet): any remaining space
            "transmit" => when(n(w, 2).is_some() && matches!(w.get(3).copied(), Some("0" | "1")), Local),
            // ---- frames of the peer (1-RTT or 0-RTT packets; the decoder yields varints and a payload that
            // fits one UDP datagram).  No guard in front of received / received_reset / received_max_*.
            "stream" => {
                let ok = varints(w, &[2, 3]) && n(w, 4).is_some_and(|l| l <= MAX_UDP) && matches!(w.get(5).copied(), Some("0" | "1"));
                self.peer_frames |= ok;
                when(ok, Peer)
            }
            "rst" => {
                let ok = w.len() == 5 && varints(w, &[2, 3, 4]);
                self.peer_frames |= ok;
                when(ok, Peer)
            }
            "maxdata" => {
                let ok = w.len() == 3 && varints(w, &[2]);
                self.peer_frames |= ok;
                when(ok, Peer)
            }
            "maxsd" => {
                let ok = w.len() == 4 && varints(w, &[2, 3]);
                self.peer_frames |= ok;
                when(ok, Peer)
            }
            "maxstreams" => {
                let ok = w.len() == 4 && matches!(w[2], "bi" | "uni") && varints(w, &[3]);
                self.peer_frames |= ok;
                when(ok, Peer)
            }
            // STOP_SENDING: process_payload answers STREAM_STATE_ERROR itself for a receive-only stream and
            // for a local stream that was never opened, BEFORE received_stop_sending is called
            "stopsend" => {
                let Some(id) = self.id(w, 2) else { return Contract };
                let guarded = (!self.local(id) && Self::uni(id)) || self.local_unopened(id);
                let ok = w.len() == 4 && varints(w, &[3]) && !guarded;
                self.peer_frames |= ok;
                when(ok, Peer)
            }
            // the peer acknowledged (or the loss detector gave up on) a packet that carried this STREAM
            // frame: only frames that `transmit` really produced, each exactly once (a packet leaves
            // `sent_packets` when it is acknowledged or declared lost)
            "ack" | "lost" => {
                let (Some(id), Some(a), Some(b)) = (n(w, 2), n(w, 3), n(w, 4)) else { return Contract };
                let fin = w.get(5).copied() == Some("1");
                match self.flight.iter().position(|f| *f == (id, a, b, fin)) {
                    Some(i) => {
                        self.flight.swap_remove(i);
                        self.peer_frames = true;
                        Peer
                    }
                    None => Contract,
                }
            }
            // acknowledgement of a RESET_STREAM frame that `ctrl` really wrote
            "rstack" => {
                let Some(id) = n(w, 2) else { return Contract };
                match self.rst_sent.iter().position(|x| *x == id) {
                    Some(i) => {
                        self.rst_sent.swap_remove(i);
                        self.peer_frames = true;
                        Peer
                    }
                    None => Contract,
                }
            }
            // a lost packet's MAX_DATA / MAX_STREAM_DATA / MAX_STREAMS is queued again: only what was sent
            "pend" => match (w.get(2).copied(), w.get(3).copied()) {
                (Some("md"), None) => when(self.sent_md, Peer),
                (Some("msd"), Some(_)) => when(n(w, 3).is_some_and(|id| self.sent_msd.contains(&id)), Peer),
                (Some("msi"), Some("bi")) => when(self.sent_ms[0], Peer),
                (Some("msi"), Some("uni")) => when(self.sent_ms[1], Peer),
                _ => Contract,
            },
            // Connection::{set_send_window (any u64), set_receive_window (VarInt), set_max_concurrent_streams}
            "sendwin" => when(n(w, 2).is_some(), Local),
            "recvwin" => when(varints(w, &[2]), Local),
            "maxconc" => when(matches!(w.get(2).copied(), Some("bi" | "uni")) && varints(w, &[3]), Local),
            // 0-RTT rejected by the server: only a client, once, when the handshake completes, i.e. before any
            // 1-RTT frame of the peer was processed; everything in flight is discarded by the caller
            "rejected" => {
                let ok = self.side == 0 && !self.rejected && !self.peer_frames && self.nparams <= 1;
                if ok {
                    self.rejected = true;
                    self.flight.clear();
                    self.rst_sent.clear();
                    self.sent_md = false;
                    self.sent_msd.clear();
                    self.sent_ms = [false; 2];
                    self.params = None;
                    self.nparams = 0;
                }
                when(ok, Peer)
            }
            // a Retry: only a client, only as the first server packet, at most once
            "rtx0" => {
                let ok = self.side == 0 && !self.retried && !self.rejected && !self.peer_frames && self.nparams <= 1;
                if ok {
                    self.retried = true;
                    self.flight.clear();
                }
                when(ok, Peer)
            }
            _ => Contract,
        }
    }

    fn observe(&mut self, w: &[&str], resp: &str) {
        let op = w.get(1).copied().unwrap_or("");
        let mut parts = resp.split(" | ");
        let result = parts.next().unwrap_or("");
        if let Some(state) = parts.next() {
            for tok in state.split(' ') {
                if let Some(v) = tok.strip_prefix("nx=") {
                    let mut it = v.split(',').map(|x| x.parse().unwrap_or(0));
                    self.nx = [it.next().unwrap_or(0), it.next().unwrap_or(0)];
                }
                if let Some(v) = tok.strip_prefix("nr=") {
                    let mut it = v.split(',').map(|x| x.parse().unwrap_or(0));
                    self.nr = [it.next().unwrap_or(0), it.next().unwrap_or(0)];
                }
            }
        }
        match op {
            "open" | "accept" => {
                if let Some(id) = result.strip_prefix("ok ").and_then(|x| x.parse().ok()) {
                    self.handles.insert(id);
                }
            }
            "rejected" => {
                // handles on locally opened 0-RTT streams die with the rejection
                let side = self.side;
                self.handles.retain(|id| id % 2 != side);
            }
            "transmit" => {
                for f in result.split(' ').skip(2) {
                    let p: Vec<u64> = f.split(':').filter_map(|x| x.parse().ok()).collect();
                    if p.len() == 4 {
                        self.flight.push((p[0], p[1], p[2], p[3] == 1));
                    }
                }
            }
            "ctrl" => {
                for f in result.split(' ').skip(1) {
                    let mut p = f.split('.');
                    match p.next() {
                        Some("RST") => {
                            if let Some(id) = p.next().and_then(|x| x.parse().ok()) {
                                self.rst_sent.push(id);
                            }
                        }
                        Some("MD") => self.sent_md = true,
                        Some("MSD") => {
                            if let Some(id) = p.next().and_then(|x| x.parse().ok()) {
                                self.sent_msd.insert(id);
                            }
                        }
                        Some("MS") => {
                            if let Some(d) = p.next().and_then(|x| x.parse::<usize>().ok()) {
                                self.sent_ms[d.min(1)] = true;
                            }
                        }
                        _ => {}
                    }
                }
            }
            _ => {}
        }
    }

    /// a frame handler returned a TransportError: the connection closes
    fn closes(&self, w: &[&str], resp: &str) -> bool {
        matches!(w.get(1).copied(), Some("stream" | "rst" | "maxsd" | "maxstreams")) && is_err(resp)
    }

    /// `<result> | <accounting and every instantiated stream half> | <pending frames>`
    fn state<'a>(&self, _w: &[&str], resp: &'a str) -> StateObs<'a> {
        match resp.split_once(" | ") {
            Some((_, st)) => StateObs::Full(st),
            None => StateObs::Unknown,
        }
    }
}

// =====================================================================================================
// dgram: DatagramState / Datagrams on a real Connection
// =====================================================================================================

struct Dgram {
    /// config.datagram_receive_buffer_size / datagram_send_buffer_size as set by the first `cfg`
    recv_win: Option<u64>,
    send_buf: u64,
    configured: bool,
    /// any op other than cfg/env was issued (the TransportConfig of a live connection is immutable)
    live: bool,
}

impl Default for Dgram {
    fn default() -> Self {
        // DgramC::new: transport(Some(1000), 1000)
        Self { recv_win: Some(1000), send_buf: 1000, configured: false, live: false }
    }
}

/// frame::Datagram::SIZE_BOUND
const DGRAM_SIZE_BOUND: u64 = 1 + 8;

fn dgram_len(s: &str) -> Option<u64> {
    let (l, t) = s.split_once(':')?;
    let (l, t): (u64, u64) = (l.parse().ok()?, t.parse().ok()?);
    (t <= 255).then_some(l)
}

fn opt_num(s: &str) -> Option<Option<u64>> {
    if s == "-" {
        Some(None)
    } else {
        s.parse().ok().map(Some)
    }
}

impl Tracker for Dgram {
    fn classify(&mut self, w: &[&str]) -> Class {
        use Class::*;
        let op = w.get(1).copied().unwrap_or("");
        let c = match op {
            // TransportConfig::datagram_receive_buffer_size(Option<usize>) / datagram_send_buffer_size(usize):
            // every value is accepted by the setters.  A connection's config never changes afterwards, so a
            // `cfg` with other values once the connection is in use is a harness-only poke.
            "cfg" => {
                let (Some(r), Some(s)) = (w.get(2).and_then(|x| opt_num(x)), n(w, 3)) else { return Contract };
                if w.len() != 4 {
                    return Contract;
                }
                let same = r == self.recv_win && s == self.send_buf;
                if !self.live || same {
                    self.recv_win = r;
                    self.send_buf = s;
                    self.configured = true;
                    return Local; // not `live`: configuration precedes use
                }
                Contract
            }
            // path MTU (MtuDiscovery::current_mtu: never below min_mtu >= 1200 = INITIAL_MTU, never above
            // MAX_UDP_PAYLOAD, driven by probe acks / black holes = peer behaviour), length of the remote CID
            // (NEW_CONNECTION_ID: <= 20) and the peer's max_datagram_frame_size (any varint or absent)
            "env" => {
                let ok = w.len() == 5
                    && n(w, 2).is_some_and(|m| (1200..=MAX_UDP).contains(&m))
                    && n(w, 3).is_some_and(|c| c <= 20)
                    && w.get(4).and_then(|x| opt_num(x)).is_some_and(|p| p.is_none_or(|p| p <= VARINT_MAX));
                return when(ok, Peer);
            }
            // Datagrams::{max_size, send, send_buffer_space, recv}: public API, any payload
            "maxsize" | "space" | "recv" => when(w.len() == 2, Local),
            "send" => when(w.len() == 4 && w.get(2).and_then(|d| dgram_len(d)).is_some() && matches!(w[3], "0" | "1"), Local),
            // private predicates exposed by a hook: `send` calls them with (data.len(), configured size)
            "hasspace" => match (n(w, 2), n(w, 3)) {
                (Some(_), Some(s)) if s == self.send_buf => Local,
                (Some(_), Some(_)) => Probe, // pure
                _ => Contract,
            },
            "mkspace" => when(n(w, 2).is_some() && n(w, 3) == Some(self.send_buf), Local),
            // a DATAGRAM frame: payload bounded by one UDP datagram; process_payload passes the CONFIGURED window
            "rcvd" => {
                let (Some(l), Some(win)) = (w.get(2).and_then(|d| dgram_len(d)), w.get(3).and_then(|x| opt_num(x))) else { return Contract };
                when(w.len() == 4 && l <= MAX_UDP && win == self.recv_win, Peer)
            }
            // drop_oversized is only called by the black-hole glue with max_size(): see bhglue
            "ovs" => Contract,
            // DatagramState::write is only called from the populate_packet loop, whose guard is
            // `buf.len() + Datagram::SIZE_BOUND < max_size`
            "write" => match (n(w, 2), n(w, 3)) {
                (Some(bl), Some(max)) => when(bl + DGRAM_SIZE_BOUND < max, Local),
                _ => Contract,
            },
            // the populate_packet loop itself: total for every buffer fill / budget
            "wloop" => when(n(w, 2).is_some() && n(w, 3).is_some(), Local),
            // black hole detected (detect_lost_packets): peer behaviour (withheld acknowledgements)
            "bhglue" => Peer,
            // poke: overwrites private counters
            _ => Contract,
        };
        self.live = true;
        c
    }

    fn closes(&self, w: &[&str], resp: &str) -> bool {
        w.get(1).copied() == Some("rcvd") && is_err(resp)
    }

    /// ` | o=<outgoing_total>:<queue> i=<recv_buffered>:<queue> b=<send_blocked>`; the configuration and the
    /// environment (cfg / env) are NOT part of it
    fn state<'a>(&self, w: &[&str], resp: &'a str) -> StateObs<'a> {
        match (w.get(1).copied(), resp.split_once(" | ")) {
            (Some("cfg" | "env" | "poke"), _) | (_, None) => StateObs::Unknown,
            (_, Some((_, st))) => StateObs::Full(st),
        }
    }
}

// =====================================================================================================
// cidq: CidQueue (remote CIDs) and the NEW_CONNECTION_ID arm of process_payload
// =====================================================================================================

#[derive(Default)]
struct Cidq {
    server: bool,
    /// length of the active remote CID is zero (NEW_CONNECTION_ID is then rejected before the queue is touched)
    active_empty: bool,
    /// some CID other than the initial one was inserted / the window may have moved
    moved: bool,
}

impl Cidq {
    /// what frame.rs::Iter hands to the handler: varints, 1..=20 byte CID, retire_prior_to <= sequence
    /// (the decoder answers FRAME_ENCODING_ERROR otherwise), 16-byte token
    fn wire_frame(w: &[&str]) -> bool {
        w.len() == 6
            && varints(w, &[2, 3])
            && n(w, 3) <= n(w, 2)
            && hexlen(w[4]).is_some_and(|l| (1..=20).contains(&l))
            && hexlen(w[5]) == Some(16)
    }
}

impl Tracker for Cidq {
    fn classify(&mut self, w: &[&str]) -> Class {
        use Class::*;
        match w.get(1).copied().unwrap_or("") {
            // Connection::new: the remote CID of the first packets (client: own random choice, server: the
            // client's source CID, 0..=20 bytes off the wire)
            "new" => match w.get(2).and_then(|c| hexlen(c)) {
                Some(l) if l <= 20 && w.len() == 3 => {
                    *self = Self { server: self.server, active_empty: l == 0, moved: false };
                    Peer
                }
                _ => Contract,
            },
            "side" => match w.get(2).copied() {
                Some("0") => {
                    self.server = false;
                    Local
                }
                Some("1") => {
                    self.server = true;
                    Local
                }
                _ => Contract,
            },
            // raw CidQueue::insert: its two callers are the frame handler (below: behind the zero-length-CID
            // guard) and set_peer_params (preferred_address: sequence 1, retire_prior_to 0)
            "insert" => {
                let ok = Self::wire_frame(w) && !self.active_empty;
                self.moved |= ok;
                when(ok, Peer)
            }
            // the handler mirror carries the guards itself, so every decodable frame is peer input
            "frame" => {
                let ok = Self::wire_frame(w);
                self.moved |= ok && !self.active_empty;
                when(ok, Peer)
            }
            // update_rem_cid: server switching off the initial CID, migration to a new path (peer moved)
            "next" => {
                self.moved = true;
                Peer
            }
            "active" => Local,
            // update_initial_cid: a client adopting the source CID of a Retry / of the first server Initial:
            // before any NEW_CONNECTION_ID (1-RTT) or preferred_address can have been processed
            "upd" => match w.get(2).and_then(|c| hexlen(c)) {
                Some(l) if l <= 20 && w.len() == 3 && !self.server && !self.moved => {
                    self.active_empty = l == 0;
                    Peer
                }
                _ => Contract,
            },
            // populate_packet writes RETIRE_CONNECTION_ID frames
            "sent" => when(n(w, 2).is_some(), Local),
            _ => Contract,
        }
    }

    /// CONNECTION_ID_LIMIT_ERROR / PROTOCOL_VIOLATION from the handler (raw insert: `err limit` is what the
    /// handler turns into CONNECTION_ID_LIMIT_ERROR; `err retired` is not an error of the connection)
    fn closes(&self, w: &[&str], resp: &str) -> bool {
        match w.get(1).copied() {
            Some("frame") => is_err(resp),
            Some("insert") => resp.starts_with("err limit"),
            _ => false,
        }
    }

    /// state suffix `<cursor> <offset> <slot0> .. <slot4>`; the handler mirror prints its pending list in front
    fn state<'a>(&self, w: &[&str], resp: &'a str) -> StateObs<'a> {
        match w.get(1).copied() {
            // returned before anything was touched (verif/cidq.rs::frame, first two guards)
            Some("frame") if resp == "err PROTOCOL_VIOLATION cids-not-in-use" || resp == "err PROTOCOL_VIOLATION retiring-unissued" => StateObs::Unchanged,
            Some("active") => StateObs::Unchanged,
            Some("new" | "insert" | "next" | "upd" | "frame") => {
                // the last 7 tokens
                let mut idx = resp.len();
                for _ in 0..7 {
                    match resp[..idx].rfind(' ') {
                        Some(i) => idx = i,
                        None => return StateObs::Unknown,
                    }
                }
                StateObs::Full(&resp[idx + 1..])
            }
            _ => StateObs::Unknown,
        }
    }
}

// =====================================================================================================
// cidstate: CidState (local CIDs)
// =====================================================================================================

#[derive(Default)]
struct CidState {
    issued: u64,
    have_ts: bool,
    now: u64,
    started: bool,
}

/// lib.rs LOC_CID_COUNT
const LOC_CID_COUNT: u64 = 8;

impl Tracker for CidState {
    fn classify(&mut self, w: &[&str]) -> Class {
        use Class::*;
        match w.get(1).copied().unwrap_or("") {
            // Connection::new: cid_len and cid_lifetime from the local ConnectionIdGenerator (any length <= 20,
            // any Duration), issued = 1, or 2 with a preferred address
            "new" => {
                let ok = w.len() == 6
                    && n(w, 2).is_some_and(|l| l <= 20)
                    && (w[3] == "none" || n(w, 3).is_some())
                    && n(w, 4).is_some()
                    && matches!(n(w, 5), Some(1 | 2));
                if ok {
                    self.now = n(w, 4).unwrap_or(0);
                    self.started = true;
                }
                when(ok, Local)
            }
            // RETIRE_CONNECTION_ID: sequence is a varint of the peer; limit = peer_params.issue_cids_limit() =
            // min(active_connection_id_limit (>= 2 enforced by TransportParameters::read), LOC_CID_COUNT)
            "retire" => when(w.len() == 4 && varints(w, &[2]) && n(w, 3).is_some_and(|l| (2..=LOC_CID_COUNT).contains(&l)), Peer),
            // Timer::PushNewCid: armed only while a retirement time is pending
            "timeout" => when(self.have_ts, Local),
            // EndpointEvent NewIdentifiers: Endpoint::send_new_identifiers numbers the CIDs consecutively from
            // the count issued so far, at most LOC_CID_COUNT of them; time does not run backwards
            "newcids" => {
                let (Some(now), Some(seqs)) = (n(w, 2), w.get(3)) else { return Contract };
                let ids: Option<Vec<u64>> = if *seqs == "-" { Some(vec![]) } else { seqs.split(',').map(|s| s.parse().ok()).collect() };
                let Some(ids) = ids else { return Contract };
                let ok = w.len() == 4
                    && self.started
                    && now >= self.now
                    && ids.len() as u64 <= LOC_CID_COUNT
                    && ids.iter().enumerate().all(|(i, s)| *s == self.issued + i as u64);
                if ok {
                    self.now = now;
                }
                when(ok, Local)
            }
            "next_timeout" | "rpt" => Local,
            _ => Contract,
        }
    }

    fn observe(&mut self, _w: &[&str], resp: &str) {
        for tok in resp.split(' ') {
            if let Some(v) = tok.strip_prefix("issued=") {
                self.issued = v.parse().unwrap_or(self.issued);
            }
            if let Some(v) = tok.strip_prefix("ts=[") {
                self.have_ts = v != "]";
            }
        }
    }

    fn closes(&self, w: &[&str], resp: &str) -> bool {
        w.get(1).copied() == Some("retire") && is_err(resp)
    }

    /// state suffix `issued=<n> prev=<n> retire=<n> active=[..] ts=[..]`
    fn state<'a>(&self, w: &[&str], resp: &'a str) -> StateObs<'a> {
        match (w.get(1).copied(), resp.find("issued=")) {
            (Some("next_timeout" | "rpt"), _) => StateObs::Unchanged,
            (_, Some(i)) => StateObs::Full(&resp[i..]),
            _ => StateObs::Unknown,
        }
    }
}

// =====================================================================================================
// pendingacks: PendingAcks::{insert_one, subtract_below} over ArrayRangeSet
// =====================================================================================================

#[derive(Default)]
struct PendingAcks {
    /// largest packet number inserted so far
    largest: Option<u64>,
    inserted: BTreeSet<u64>,
    now: u64,
    /// the separate raw set was driven outside the shapes its callers use
    rs_raw: bool,
}

/// `PacketNumber::expand` with a 4-byte truncated number yields at most expected + 2^31
const PN_STEP: u64 = 1 << 31;

impl Tracker for PendingAcks {
    fn classify(&mut self, w: &[&str]) -> Class {
        use Class::*;
        match w.get(1).copied().unwrap_or("") {
            "new" => {
                *self = Self::default();
                Local
            }
            // on_packet_authenticated: packet = PacketNumber::expand(rx_packet + 1) of an authenticated packet
            // that passed the duplicate filter.  NOTHING bounds it by 2^62 (audit SD-10), but one packet can
            // advance the largest number by at most 2^31: that step rule is the wire range.
            "insert" => {
                let (Some(p), Some(now)) = (n(w, 2), n(w, 3)) else { return Contract };
                let reach = self.largest.map_or(PN_STEP, |l| l.saturating_add(1 + PN_STEP));
                let ok = w.len() == 4 && p <= reach && !self.inserted.contains(&p) && now >= self.now;
                if ok {
                    self.largest = Some(self.largest.map_or(p, |l| l.max(p)));
                    self.inserted.insert(p);
                    self.now = now;
                }
                when(ok, Peer)
            }
            // on_ack_received: the peer acknowledged one of OUR packets that carried an ACK frame whose
            // largest acknowledged was `max`: a packet number inserted before
            "sub" => when(w.len() == 3 && n(w, 2).is_some_and(|m| self.inserted.contains(&m)), Peer),
            // the bare ArrayRangeSet beside it: its callers insert single numbers, remove 0..max+1, pop_min
            "rs_insert" | "rs_remove" => {
                let (Some(s), Some(e)) = (n(w, 2), n(w, 3)) else { return Contract };
                let shaped = if w[1] == "rs_insert" { e == s.wrapping_add(1) && s < VARINT_MAX } else { s == 0 && e <= VARINT_MAX };
                if !shaped {
                    self.rs_raw = true;
                }
                if shaped && !self.rs_raw {
                    Local
                } else {
                    Probe // a separate object: PendingAcks itself is not affected
                }
            }
            "rs_pop" => {
                if self.rs_raw {
                    Probe
                } else {
                    Local
                }
            }
            _ => Contract,
        }
    }

    /// `ok [start-end,..] largest=<pn>@<ns>|none` (the raw set is a separate object)
    fn state<'a>(&self, w: &[&str], resp: &'a str) -> StateObs<'a> {
        match (w.get(1).copied(), resp.strip_prefix("ok ")) {
            (Some("new" | "insert" | "sub"), Some(st)) => StateObs::Full(st),
            (Some("rs_insert" | "rs_remove" | "rs_pop"), _) => StateObs::Unchanged,
            _ => StateObs::Unknown,
        }
    }
}

// =====================================================================================================
// rxpn: packet number of a received packet (decrypt_packet_body)
// =====================================================================================================

#[derive(Default)]
struct RxPn {
    /// numbers the implementation accepted earlier in this case
    accepted: BTreeSet<u64>,
}

impl Tracker for RxPn {
    fn classify(&mut self, w: &[&str]) -> Class {
        match w.get(1).copied().unwrap_or("") {
            // a protected packet of a peer that holds the keys: any 1..4 byte truncated number.  rx_packet is the
            // largest number processed before: every legal packet number (<= 2^62-1) is a state an RFC-conforming
            // sender reaches; a larger one only if the receive path itself accepted it earlier in this case.
            "rx" => {
                let ok = w.len() == 4
                    && hexlen(w[2]).is_some_and(|l| (1..=4).contains(&l))
                    && n(w, 3).is_some_and(|rx| rx <= VARINT_MAX || self.accepted.contains(&rx));
                when(ok, Class::Peer)
            }
            _ => Class::Contract,
        }
    }
    fn observe(&mut self, _w: &[&str], resp: &str) {
        if let Some(x) = resp.strip_prefix("ok ").and_then(|x| x.parse().ok()) {
            self.accepted.insert(x);
        }
    }
    fn state<'a>(&self, _w: &[&str], _resp: &'a str) -> StateObs<'a> {
        StateObs::Unchanged // stateless executor
    }
}
