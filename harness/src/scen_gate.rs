//! Scenario `gate` (C12, C13): the congestion gate and the datagram sizing of the REAL `Connection::poll_transmit`,
//! observed packet by packet.
//!
//! * harness congestion controllers (public trait `congestion::Controller`): a fixed (tiny) window, a window that
//!   changes adversarially at every controller event, and a recording pass-through around the built-in ones;
//! * oracles derived from the property texts, evaluated for every packet built (hook `verif_take_txpkts`: position,
//!   size and real frame types of each packet) against the snapshot taken before that `poll_transmit`.
use std::cell::RefCell;
use std::collections::{BTreeMap, HashMap};
use std::net::{IpAddr, Ipv6Addr, SocketAddr};
use std::rc::Rc;
use std::sync::{Arc, Mutex};
use std::time::{Duration, Instant};

use bytes::Bytes;
use quinn_proto::congestion::{self, Controller, ControllerFactory};
use quinn_proto::verif::{Snapshot, TxPkt};
use quinn_proto::{IdleTimeout, MtuDiscoveryConfig, RttEstimator, TransportConfig, VarInt};

use crate::scenarios::Outcome;
use crate::sim::*;
use crate::workload::*;
use crate::Rng;

pub const GATE_RULE: &str = "one execution = both peers with a harness congestion controller (fixed window 3000..40000, window re-drawn from {3000..1000000} at every on_sent/on_ack/on_congestion_event/on_mtu_update, or a recording pass-through around NewReno/Cubic/BBR), explicit initial_mtu / discovery bound / max_udp_payload_size, GSO batch 1..10; one of seven modes by seed: bulk transfer both ways under loss/reordering/duplication, the same on a loss-free in-order constant-delay path, 0-RTT resumption whose early data fills a tiny window with targeted loss among the first 8 datagrams, client migration (rebinding / new address), path-MTU shrink (black hole) during the transfer, tiny fixed windows on both sides (everything beyond the first datagrams goes out as PTO probes), loss of the client's first 2..8 Handshake datagrams at zero latency (Handshake retransmissions meet Data-space PTOs); then settle on a clean network and a local close. Oracles per packet (frame types and position of every packet built, snapshot before that poll_transmit, PTO expiries seen at handle_timeout): C12 an ack-eliciting packet that would take the bytes in flight to the window is an MTU probe, carries PATH_CHALLENGE/PATH_RESPONSE or CONNECTION_CLOSE, or travels in one of at most two datagrams since the last PTO expiry; nothing is declared lost on the clean path; in flight returns to zero once both sides are quiet; C13 a datagram above the MTU estimate is a PING+PADDING 1-RTT packet and the only probe outstanding, datagrams with PATH_CHALLENGE/PATH_RESPONSE and client Initial datagrams are >= 1200 (budget permitting), the first ack-eliciting datagram sent at a PTO expiry and every datagram that goes beyond the window as a PTO probe are <= 1200, the estimate never falls below min(min_mtu, peer max_udp_payload_size), every packet lies inside one datagram; non-trivial = handshake completed and (a PTO expired or the window was reached)";

// ------------------------------------------------------------------------------------------------------------
// harness congestion controllers
// ------------------------------------------------------------------------------------------------------------

/// What a controller saw (shared by every controller the factory built: new paths build new controllers)
#[derive(Default, Debug, Clone)]
pub struct CtlLog {
    pub built: u64,
    pub sent_calls: u64,
    pub sent_bytes: u64,
    pub ack_calls: u64,
    pub ack_bytes: u64,
    pub congestion_events: u64,
    pub ecn_events: u64,
    pub lost_bytes: u64,
    pub persistent: u64,
    pub spurious: u64,
    pub mtu_updates: u64,
    pub min_window: u64,
}

#[derive(Clone, Debug)]
pub enum CtlKind {
    /// `window()` never changes
    Fixed(u64),
    /// `window()` is re-drawn at every event the controller is told about
    Random(u64),
    /// built-in controller, calls recorded and forwarded
    Reno,
    Cubic,
    Bbr,
}

pub struct GateCtlFactory {
    pub kind: CtlKind,
    pub log: Arc<Mutex<CtlLog>>,
}

// a window of at most one datagram can never admit anything (the built-in controllers keep two datagrams)
const RANDOM_WINDOWS: [u64; 8] = [3000, 3001, 4500, 6000, 14_720, 40_000, 200_000, 1_000_000];

impl ControllerFactory for GateCtlFactory {
    fn build(self: Arc<Self>, now: Instant, current_mtu: u16) -> Box<dyn Controller> {
        let mut l = self.log.lock().unwrap();
        l.built += 1;
        let inner: Option<Box<dyn Controller>> = match self.kind {
            CtlKind::Reno => Some(Arc::new(congestion::NewRenoConfig::default()).build(now, current_mtu)),
            CtlKind::Cubic => Some(Arc::new(congestion::CubicConfig::default()).build(now, current_mtu)),
            CtlKind::Bbr => Some(Arc::new(congestion::BbrConfig::default()).build(now, current_mtu)),
            _ => None,
        };
        let (window, rng) = match self.kind {
            CtlKind::Fixed(w) => (w, Rng::new(0)),
            CtlKind::Random(s) => {
                let mut r = Rng::new(s ^ l.built);
                (*r.pick(&RANDOM_WINDOWS), r)
            }
            _ => (0, Rng::new(0)),
        };
        drop(l);
        let c = GateCtl { fixed: matches!(self.kind, CtlKind::Fixed(_)), window, rng, inner, log: self.log.clone() };
        c.note_window();
        Box::new(c)
    }
}

pub struct GateCtl {
    fixed: bool,
    window: u64,
    rng: Rng,
    inner: Option<Box<dyn Controller>>,
    log: Arc<Mutex<CtlLog>>,
}

impl GateCtl {
    fn redraw(&mut self) {
        if self.inner.is_none() && !self.fixed {
            self.window = *self.rng.pick(&RANDOM_WINDOWS);
        }
        self.note_window();
    }
    fn note_window(&self) {
        let w = self.window();
        let mut l = self.log.lock().unwrap();
        if l.min_window == 0 || w < l.min_window {
            l.min_window = w;
        }
    }
}

impl Controller for GateCtl {
    fn on_sent(&mut self, now: Instant, bytes: u64, last_packet_number: u64) {
        {
            let mut l = self.log.lock().unwrap();
            l.sent_calls += 1;
            l.sent_bytes += bytes;
        }
        if let Some(i) = &mut self.inner {
            i.on_sent(now, bytes, last_packet_number);
        }
        self.redraw();
    }
    fn on_ack(&mut self, now: Instant, sent: Instant, bytes: u64, app_limited: bool, rtt: &RttEstimator) {
        {
            let mut l = self.log.lock().unwrap();
            l.ack_calls += 1;
            l.ack_bytes += bytes;
        }
        if let Some(i) = &mut self.inner {
            i.on_ack(now, sent, bytes, app_limited, rtt);
        }
        self.redraw();
    }
    fn on_end_acks(&mut self, now: Instant, in_flight: u64, app_limited: bool, largest_packet_num_acked: Option<u64>) {
        if let Some(i) = &mut self.inner {
            i.on_end_acks(now, in_flight, app_limited, largest_packet_num_acked);
        }
        self.redraw();
    }
    fn on_congestion_event(&mut self, now: Instant, sent: Instant, is_persistent_congestion: bool, is_ecn: bool, lost_bytes: u64) {
        {
            let mut l = self.log.lock().unwrap();
            l.congestion_events += 1;
            l.ecn_events += is_ecn as u64;
            l.persistent += is_persistent_congestion as u64;
            l.lost_bytes += lost_bytes;
        }
        if let Some(i) = &mut self.inner {
            i.on_congestion_event(now, sent, is_persistent_congestion, is_ecn, lost_bytes);
        }
        self.redraw();
    }
    fn on_spurious_congestion_event(&mut self) {
        self.log.lock().unwrap().spurious += 1;
        if let Some(i) = &mut self.inner {
            i.on_spurious_congestion_event();
        }
        self.redraw();
    }
    fn on_mtu_update(&mut self, new_mtu: u16) {
        self.log.lock().unwrap().mtu_updates += 1;
        if let Some(i) = &mut self.inner {
            i.on_mtu_update(new_mtu);
        }
        self.redraw();
    }
    fn window(&self) -> u64 {
        match &self.inner {
            Some(i) => i.window(),
            None => self.window,
        }
    }
    fn clone_box(&self) -> Box<dyn Controller> {
        Box::new(GateCtl { fixed: self.fixed, window: self.window, rng: self.rng.clone(), inner: self.inner.as_ref().map(|i| i.clone_box()), log: self.log.clone() })
    }
    fn initial_window(&self) -> u64 {
        match &self.inner {
            Some(i) => i.initial_window(),
            None => self.window,
        }
    }
    fn into_any(self: Box<Self>) -> Box<dyn std::any::Any> {
        self
    }
}

// ------------------------------------------------------------------------------------------------------------
// oracles
// ------------------------------------------------------------------------------------------------------------

const T_PADDING: u64 = 0x00;
const T_PING: u64 = 0x01;
const T_ACK: u64 = 0x02;
const T_ACK_ECN: u64 = 0x03;
const T_PATH_CHALLENGE: u64 = 0x1a;
const T_PATH_RESPONSE: u64 = 0x1b;
const T_CLOSE: u64 = 0x1c;
const T_APP_CLOSE: u64 = 0x1d;
const T_IMMEDIATE_ACK: u64 = 0x1f;

/// RFC 9002 §2: ack-eliciting = contains a frame other than ACK, PADDING, CONNECTION_CLOSE
fn ack_eliciting(p: &TxPkt) -> bool {
    p.frame_types.iter().any(|t| !matches!(*t, T_PADDING | T_ACK | T_ACK_ECN | T_CLOSE | T_APP_CLOSE))
}
/// RFC 9002 §2: in flight = ack-eliciting or containing PADDING
fn counts_in_flight(p: &TxPkt) -> bool {
    ack_eliciting(p) || p.frame_types.contains(&T_PADDING)
}
fn has(p: &TxPkt, t: u64) -> bool {
    p.frame_types.contains(&t)
}
/// the shape of a path-MTU probe: a single 1-RTT packet made of PING (+ IMMEDIATE_ACK) and PADDING
fn probe_shape(d: &[&TxPkt]) -> bool {
    d.len() == 1 && d[0].space == 2 && !d[0].long_header && has(d[0], T_PING) && d[0].frame_types.iter().all(|t| matches!(*t, T_PING | T_IMMEDIATE_ACK | T_PADDING))
}

/// What the configuration lets a node's MTU estimate be
#[derive(Clone, Copy, Debug)]
pub struct NodeRule {
    pub min_mtu: u16,
    pub peer_max_udp: u16,
}

#[derive(Default)]
struct ConnGate {
    /// datagrams that may still go beyond the window as probes of the last PTO expiry
    budget: u32,
    /// virtual time of the last PTO expiry
    pto_at: Option<u64>,
    /// ack-eliciting datagrams emitted at the instant of that expiry so far
    at_expiry: u32,
    /// the last MTU probe sent: (path remote, size, packet number)
    probe: Option<(SocketAddr, usize, u64)>,
    /// `black_holes_detected` when that probe was sent
    probe_black_holes: u64,
    floor_reported: bool,
    /// every packet seen leaving that counts as in flight (RFC 9002: ack-eliciting or padded): (space, pn)
    sent_in_flight: Vec<(u8, u64)>,
}

pub struct GateState {
    conns: HashMap<(usize, usize), ConnGate>,
    pub rules: [NodeRule; 2],
    pub hist: BTreeMap<&'static str, u64>,
    /// on-path transmits whose snapshot showed the window within one datagram of being reached
    pub window_limited: u64,
    pub ptos: u64,
}

impl GateState {
    pub fn new(rules: [NodeRule; 2]) -> Self {
        Self { conns: HashMap::new(), rules, hist: BTreeMap::new(), window_limited: 0, ptos: 0 }
    }
    /// Harness ledger: is any in-flight packet this connection was seen sending still neither acknowledged, nor declared
    /// lost, nor abandoned?
    pub fn anything_outstanding(&self, sim: &Sim, node: usize, ch: usize) -> bool {
        let c = &sim.nodes[node].conns[&ch].conn;
        self.conns.get(&(node, ch)).is_some_and(|g| g.sent_in_flight.iter().any(|(s, pn)| c.verif_packet_outstanding(*s, *pn)))
    }
    fn count(&mut self, k: &'static str) {
        *self.hist.entry(k).or_default() += 1;
    }

    /// Before `handle_timeout`: did the loss-detection timer expire in PTO mode (RFC 9002 §6.2: no loss time pending)?
    pub fn on_timeout(&mut self, sim: &mut Sim, node: usize, ch: usize) {
        let s = sim.snap(node, ch);
        let now = sim.t();
        let open = s.state == "handshake" || s.state == "established";
        let due = s.timers[0].is_some_and(|t| t <= now);
        let loss_mode = s.spaces.iter().any(|sp| sp.loss_time.is_some());
        if open && due && !loss_mode {
            self.ptos += 1;
            self.count("pto-expiry");
            let g = self.conns.entry((node, ch)).or_default();
            g.budget = 2;
            g.pto_at = Some(sim.now);
            g.at_expiry = 0;
            if std::env::var("VERIF_GATE_DBG").is_ok() {
                eprintln!("PTO t={} node {node} conn {ch} pto_count {} in_flight {} ae {} loss_probes {:?}", sim.now, s.pto_count, s.path.in_flight_bytes, s.path.in_flight_ack_eliciting, s.spaces.iter().map(|x| x.loss_probes).collect::<Vec<_>>());
            }
        } else if open && due {
            self.count("loss-time-expiry");
        }
    }

    pub fn on_tx(&mut self, sim: &mut Sim, node: usize, ch: usize, before: &Snapshot, t: &quinn_proto::Transmit) {
        let pkts = sim.conn(node, ch).verif_take_txpkts();
        let seg = t.segment_size.unwrap_or(t.size.max(1)).max(1);
        let n = t.size.div_ceil(seg);
        let total: usize = pkts.iter().map(|p| p.len).sum();
        if total != t.size || pkts.is_empty() {
            // packets of a `poll_transmit` that returned nothing are still in the log: not attributable
            self.count("transmit-not-matched-by-packet-log");
            return;
        }
        self.count("transmits");
        let mut dg: Vec<Vec<&TxPkt>> = vec![Vec::new(); n];
        for p in &pkts {
            let (i, j) = (p.start / seg, (p.start + p.len - 1) / seg);
            if i != j || i >= n {
                sim.fail("mtu-packet-crosses-datagram-boundary", format!("node {node} conn {ch}: packet space {} pn {} occupies bytes {}..{} of a transmit of {} bytes cut into segments of {seg}: frames {:x?}", p.space, p.pn, p.start, p.start + p.len, t.size, p.frame_types));
                return;
            }
            dg[i].push(p);
        }
        let on_path = t.destination == before.path.remote;
        let mtu = before.path.current_mtu as usize;
        let window = before.path.cwnd;
        let mut in_flight = before.path.in_flight_bytes;
        // Packets can leave the bytes in flight DURING a `poll_transmit`: a client abandons its Initial packets when it
        // builds its first Handshake packet (RFC 9001 §4.9.1). The bytes in flight before packet k are therefore also
        // bounded from the state AFTER the call: what is in flight then, minus packet k and everything built after it.
        // The smaller of the two estimates is used (exact before such an abandonment / after it respectively).
        let after_in_flight = if on_path { sim.snap(node, ch).path.in_flight_bytes } else { 0 };
        let mut tail_in_flight: u64 = if on_path { pkts.iter().filter(|p| counts_in_flight(p)).map(|p| p.len as u64).sum() } else { 0 };
        if on_path && in_flight + mtu as u64 >= window {
            self.window_limited += 1;
        }
        let rule = self.rules[node];
        let now_ns = sim.now;
        // ---- C13: floor of the estimate
        let floor = rule.min_mtu.min(rule.peer_max_udp) as usize;
        if on_path && mtu < floor && !self.conns.entry((node, ch)).or_default().floor_reported {
            self.conns.get_mut(&(node, ch)).unwrap().floor_reported = true;
            sim.fail("mtu-below-floor", format!("node {node} conn {ch}: MTU estimate {mtu} < min(min_mtu {}, peer max_udp_payload_size {}) = {floor}", rule.min_mtu, rule.peer_max_udp));
        }
        // the last probe is outstanding until it is acknowledged or declared lost (no longer tracked as sent), or the
        // path changed (each path has its own search)
        {
            let g = self.conns.entry((node, ch)).or_default();
            if let Some((remote, _, pn)) = g.probe {
                if remote != before.path.remote || !sim.nodes[node].conns[&ch].conn.verif_packet_outstanding(2, pn) {
                    g.probe = None;
                }
            }
        }
        let dbg = std::env::var("VERIF_GATE_DBG").is_ok();
        if dbg {
            eprintln!("TX t={} node {node} conn {ch} -> {} size {} seg {:?} state {} mtu {mtu} cwnd {window} in_flight {} ae {} loss_probes {:?} pto_count {} budget {:?}", sim.now, t.destination, t.size, t.segment_size, before.state, before.path.in_flight_bytes, before.path.in_flight_ack_eliciting, before.spaces.iter().map(|s| s.loss_probes).collect::<Vec<_>>(), before.pto_count, self.conns.get(&(node, ch)).map(|g| (g.budget, g.pto_at, g.at_expiry)));
            for p in &pkts {
                eprintln!("      pkt space {} pn {} @{}+{} long {} frames {:x?} ackranges {} assumed_ae {}", p.space, p.pn, p.start, p.len, p.long_header, p.frame_types, p.ack_ranges, p.assumed_ack_eliciting);
            }
        }
        for (i, d) in dg.iter().enumerate() {
            let len = seg.min(t.size - i * seg);
            self.count("datagrams");
            let any_ae = d.iter().any(|p| ack_eliciting(p));
            let is_probe = on_path && len > mtu && probe_shape(d);
            let desc = || d.iter().map(|p| format!("[space {} pn {} {}B frames {:x?}{}]", p.space, p.pn, p.len, p.frame_types, if p.ack_ranges > 0 { format!(" ack ranges {}", p.ack_ranges) } else { String::new() })).collect::<Vec<_>>().join(" ");
            // ---- C13: sizes
            if on_path && len > mtu {
                if !is_probe {
                    sim.fail("mtu-oversize-not-a-probe", format!("node {node} conn {ch}: datagram {i} of {n} is {len} bytes > MTU estimate {mtu} and is not a PING+PADDING 1-RTT probe: {}", desc()));
                } else {
                    self.count("mtu-probes");
                    let g = self.conns.entry((node, ch)).or_default();
                    let bh = sim.nodes[node].conns[&ch].conn.stats().path.black_holes_detected;
                    if let Some((_, size, pn)) = g.probe {
                        // recorded finding: a detected black hole ends the search and forgets the probe in flight
                        let key = if bh > g.probe_black_holes { "mtu-two-probes-outstanding-after-black-hole" } else { "mtu-two-probes-outstanding" };
                        sim.fail(key, format!("node {node} conn {ch}: MTU probe of {len} bytes (pn {}) sent while the probe of {size} bytes (pn {pn}) is neither acknowledged nor declared lost (estimate {mtu})", d[0].pn));
                    }
                    g.probe = Some((before.path.remote, len, d[0].pn));
                    g.probe_black_holes = bh;
                }
            }
            if node == CLIENT && d.iter().any(|p| p.space == 0) && len < 1200 {
                sim.fail("initial-too-small", format!("client datagram of {len} bytes carries an Initial packet: {}", desc()));
            }
            for (ty, key) in [(T_PATH_CHALLENGE, "path-challenge-unpadded"), (T_PATH_RESPONSE, "path-response-unpadded")] {
                if d.iter().any(|p| has(p, ty)) {
                    self.count(if ty == T_PATH_CHALLENGE { "path-challenge-datagrams" } else { "path-response-datagrams" });
                    if len < 1200 {
                        // RFC 9000 §8.2.1/8.2.2: unless the anti-amplification limit for the path does not permit it
                        let validated = if on_path { before.path.validated } else { before.prev_path.as_ref().is_some_and(|p| p.remote == t.destination && p.validated) };
                        let recvd = *sim.nodes[node].recv_from.get(&t.destination).unwrap_or(&0);
                        let sent = *sim.nodes[node].sent_to.get(&t.destination).unwrap_or(&0);
                        let limited = node == SERVER && !validated && 3 * recvd < sent + 1200;
                        if !limited {
                            sim.fail(key, format!("node {node} conn {ch}: datagram of {len} bytes to {} (validated {validated}, {recvd} bytes received from it, {sent} sent): {}", t.destination, desc()));
                        }
                    }
                }
            }
            // ---- C13: loss probes: the first ack-eliciting datagram emitted at the instant of a PTO expiry (a sender MUST send
            // at least one probe then; a second datagram may already be ordinary data inside the window) and every
            // datagram that is admissible only as a probe (beyond the window, below)
            let mut is_loss_probe = false;
            if on_path && any_ae && !is_probe {
                let g = self.conns.entry((node, ch)).or_default();
                if g.pto_at == Some(now_ns) && g.at_expiry < 1 {
                    g.at_expiry += 1;
                    is_loss_probe = true;
                }
            }
            // ---- C12: the gate, packet by packet
            let mut beyond: Option<String> = None;
            for p in d {
                let ae = ack_eliciting(p);
                let exempt = has(p, T_PATH_CHALLENGE) || has(p, T_PATH_RESPONSE) || has(p, T_CLOSE) || has(p, T_APP_CLOSE) || is_probe;
                let eff = in_flight.min(after_in_flight.saturating_sub(tail_in_flight));
                if on_path && eff < in_flight {
                    self.count("in-flight-dropped-during-transmit");
                }
                if on_path && ae {
                    self.count("ack-eliciting-packets");
                    if eff + p.len as u64 >= window {
                        if exempt {
                            self.count(if is_probe { "beyond-window:mtu-probe" } else if has(p, T_CLOSE) || has(p, T_APP_CLOSE) { "beyond-window:close" } else { "beyond-window:path-validation" });
                        } else if beyond.is_none() {
                            beyond = Some(format!("space {} pn {} {}B frames {:x?} with {eff} bytes in flight and window {window} (sender assumed ack-eliciting: {})", p.space, p.pn, p.len, p.frame_types, p.assumed_ack_eliciting));
                        }
                    }
                }
                if on_path && counts_in_flight(p) {
                    in_flight += p.len as u64;
                    tail_in_flight -= p.len as u64;
                }
                if counts_in_flight(p) {
                    self.conns.entry((node, ch)).or_default().sent_in_flight.push((p.space, p.pn));
                }
            }
            if let Some(what) = beyond {
                let g = self.conns.entry((node, ch)).or_default();
                if g.budget > 0 {
                    g.budget -= 1;
                    is_loss_probe = true;
                    self.count("beyond-window:pto-probe");
                } else {
                    // name the failure after what the sender believed it was doing (diagnosis only)
                    let space = d[0].space as usize;
                    let credit = before.spaces.iter().skip(space).any(|s| s.loss_probes > 0);
                    let since = g.pto_at.map_or("no PTO expired yet".to_string(), |t| format!("two datagrams already went beyond the window since the PTO expiry at t={t}"));
                    // the recorded finding `cwnd-handshake-packet-coalesced-beyond-window`: the first offending packet is an
                    // Initial/Handshake packet that follows a packet of this datagram which is not ack-eliciting
                    let hs_coalesced = d.iter().position(|p| ack_eliciting(p)).is_some_and(|i| i > 0 && d[i].space < 2 && what.starts_with(&format!("space {} pn {} ", d[i].space, d[i].pn)));
                    let key = if credit { "cwnd-more-than-two-probes-per-pto" } else if hs_coalesced { "cwnd-handshake-packet-coalesced-beyond-window" } else { "cwnd-exceeded-by-non-exempt-packet" };
                    sim.fail(key, format!("node {node} conn {ch}: {what}; {since}; loss_probes before {:?}; datagram {i} of {n} ({len}B): {}", before.spaces.iter().map(|s| s.loss_probes).collect::<Vec<_>>(), desc()));
                }
            }
            if is_loss_probe {
                self.count("loss-probe-datagrams");
                if len > 1200 {
                    sim.fail("loss-probe-oversized", format!("node {node} conn {ch}: datagram of {len} bytes sent as a probe of the PTO that expired at t={:?} (MTU estimate {mtu}): {}", self.conns[&(node, ch)].pto_at, desc()));
                }
            }
        }
    }
}

// ------------------------------------------------------------------------------------------------------------
// scenario
// ------------------------------------------------------------------------------------------------------------

#[derive(Clone, Copy, Debug, PartialEq, Eq)]
enum Mode {
    Bulk,
    Clean,
    Zrtt,
    Migrate,
    Shrink,
    Tiny,
    /// the client's first Handshake datagrams are lost: the server keeps retransmitting its Handshake flight while
    /// the (established) client probes in the Data space; zero or tiny latency makes arrivals and expiries coincide
    HsLoss,
}

fn pick_ctl(rng: &mut Rng, mode: Mode, node: usize) -> CtlKind {
    match mode {
        Mode::Tiny => CtlKind::Fixed(*rng.pick(&[3000u64, 3000, 4500, 6000])),
        Mode::Zrtt if node == CLIENT => CtlKind::Fixed(*rng.pick(&[3000u64, 6000, 12_000, 14_720])),
        _ => match rng.below(6) {
            0 => CtlKind::Fixed(*rng.pick(&[3000u64, 6000, 12_000, 40_000])),
            1 | 2 => CtlKind::Random(rng.next()),
            3 => CtlKind::Reno,
            4 => CtlKind::Cubic,
            _ => CtlKind::Bbr,
        },
    }
}

pub fn gate(seed: u64, out: &mut Outcome) {
    let mut rng = Rng::new(seed ^ 0x6a7e);
    let mode = [Mode::Bulk, Mode::Clean, Mode::Zrtt, Mode::Migrate, Mode::Shrink, Mode::Tiny, Mode::HsLoss][(seed % 7) as usize];
    let mut kinds = Vec::new();
    let mut logs = Vec::new();
    let mut tcs = Vec::new();
    let mut initial = [1200u16; 2];
    let mut upper = [0u16; 2];
    for node in 0..2 {
        let mut t = TransportConfig::default();
        let kind = pick_ctl(&mut rng, mode, node);
        let log = Arc::new(Mutex::new(CtlLog::default()));
        t.congestion_controller_factory(Arc::new(GateCtlFactory { kind: kind.clone(), log: log.clone() }));
        kinds.push(kind);
        logs.push(log);
        initial[node] = *rng.pick(&[1200u16, 1200, 1300, 1400]);
        t.initial_mtu(initial[node]);
        if rng.chance(1, 5) {
            t.mtu_discovery_config(None);
            upper[node] = initial[node];
        } else {
            let mut m = MtuDiscoveryConfig::default();
            upper[node] = *rng.pick(&[1452u16, 1452, 1400, 2000]);
            m.upper_bound(upper[node]);
            if rng.chance(1, 2) {
                m.interval(Duration::from_secs(*rng.pick(&[2u64, 5])));
                m.black_hole_cooldown(Duration::from_secs(*rng.pick(&[1u64, 3])));
            }
            t.mtu_discovery_config(Some(m));
        }
        t.max_idle_timeout(Some(IdleTimeout::try_from(Duration::from_secs(600)).unwrap()));
        if rng.chance(1, 5) {
            t.enable_segmentation_offload(false);
        }
        if rng.chance(1, 4) {
            t.datagram_send_buffer_size(20_000);
        }
        tcs.push(t);
    }
    let ts = tcs.pop().unwrap();
    let tc = tcs.pop().unwrap();
    let mups = [*rng.pick(&[1200u16, 1350, 1472, 1472, 65527]), *rng.pick(&[1200u16, 1350, 1472, 1472, 65527])];
    let clock = SimClock(Arc::new(Mutex::new(std::time::UNIX_EPOCH + Duration::from_secs(1_700_000_000))));
    let mut scfg = server_config(seed, ts, &clock);
    scfg.migration(true);
    let mut ecs = endpoint_config(seed ^ 1, 8, None);
    ecs.max_udp_payload_size(mups[SERVER]).unwrap();
    let mut ecc = endpoint_config(seed ^ 2, 8, None);
    ecc.max_udp_payload_size(mups[CLIENT]).unwrap();
    let server = quinn_proto::Endpoint::new(Arc::new(ecs), Some(Arc::new(scfg)), true);
    let client = quinn_proto::Endpoint::new(Arc::new(ecc), None, true);
    let mut sim = Sim::new(seed, client, server, clock);
    let ccfg = client_config(seed, tc);
    sim.mtu_rules = Some([
        MtuRule { initial: initial[CLIENT].min(mups[SERVER]), probe_cap: (upper[CLIENT] as usize).min(mups[SERVER] as usize), peer_max_udp: mups[SERVER] as usize },
        MtuRule { initial: initial[SERVER].min(mups[CLIENT]), probe_cap: (upper[SERVER] as usize).min(mups[CLIENT] as usize), peer_max_udp: mups[CLIENT] as usize },
    ]);
    sim.record_meta = true;
    sim.check_timer = false;
    sim.nodes[CLIENT].max_datagrams = rng.range(1, 10) as usize;
    sim.nodes[SERVER].max_datagrams = rng.range(1, 10) as usize;
    let st = Rc::new(RefCell::new(GateState::new([
        NodeRule { min_mtu: 1200, peer_max_udp: mups[SERVER] },
        NodeRule { min_mtu: 1200, peer_max_udp: mups[CLIENT] },
    ])));
    let st1 = st.clone();
    sim.timeout_tap = Some(Box::new(move |sim: &mut Sim, node: usize, ch: usize| st1.borrow_mut().on_timeout(sim, node, ch)));
    let st2 = st.clone();
    sim.tx_tap = Some(Box::new(move |sim: &mut Sim, node: usize, ch: usize, before: &Snapshot, t: &quinn_proto::Transmit, _buf: &[u8]| st2.borrow_mut().on_tx(sim, node, ch, before, t)));

    // ---- network
    let clean_net = |rng: &mut Rng| NetCfg { latency_ns: *rng.pick(&[1_000_000u64, 10_000_000, 40_000_000]), path_mtu: 65_000, ..NetCfg::default() };
    sim.net = match mode {
        Mode::Clean => clean_net(&mut rng),
        Mode::Bulk | Mode::Tiny => {
            let mut n = crate::scenarios::random_net(&mut rng);
            n.path_mtu = n.path_mtu.max(1400);
            n
        }
        _ => {
            let mut n = clean_net(&mut rng);
            n.path_mtu = *rng.pick(&[1400usize, 1452, 1500, 9000]);
            n.jitter_ns = *rng.pick(&[0u64, 0, 2_000_000]);
            n.drop_permille = *rng.pick(&[0u64, 10, 50, 150]);
            n
        }
    };
    if mode == Mode::HsLoss {
        sim.net.latency_ns = *rng.pick(&[0u64, 0, 1_000_000]);
        sim.net.jitter_ns = 0;
        sim.net.drop_permille = 0;
        let mut left = rng.range(2, 8);
        let mut first_seen = false;
        sim.wire_filter = Some(Box::new(move |d: &mut Dgram, _r: &mut Rng| {
            // long-header datagrams of the client after its first one (ClientHello) carry its Handshake packets
            if d.origin == CLIENT && d.data.first().is_some_and(|b| b & 0x80 != 0) {
                if !std::mem::replace(&mut first_seen, true) {
                    return true;
                }
                if left > 0 {
                    left -= 1;
                    return false;
                }
            }
            true
        }));
    }
    let slow = kinds.iter().any(|k| matches!(k, CtlKind::Fixed(w) if *w < 6000)) || matches!(mode, Mode::Tiny);
    // ---- 0-RTT: a first connection for the ticket
    if mode == Mode::Zrtt {
        let net = std::mem::replace(&mut sim.net, NetCfg { path_mtu: 65_000, ..NetCfg::default() });
        let c1 = sim.connect(ccfg.clone());
        let mut w1 = Workload::new(seed);
        w1.ch[CLIENT] = Some(c1);
        let _ = sim.run_until(60_000_000_000, 40_000, |sim| {
            w1.tick(sim);
            sim.now > 300_000_000 && sim.nodes[CLIENT].conns[&c1].obs.confirmed
        });
        let now = sim.t();
        sim.conn(CLIENT, c1).close(now, VarInt::from_u32(0), Bytes::new());
        sim.time_cap = Some(sim.now + 5_000_000_000);
        let _ = sim.run_until(sim.now + 5_000_000_000, 20_000, |_| false);
        sim.time_cap = None;
        for n in 0..2 {
            for c in sim.nodes[n].conns.values_mut() {
                c.removed = true;
            }
        }
        sim.nodes[SERVER].accepted.clear();
        sim.fails.clear();
        // connection handles are reused: forget what was observed on the first connection
        st.borrow_mut().conns.clear();
        sim.net = net;
        let drop_mask = rng.below(256);
        let counter = Rc::new(std::cell::Cell::new(0u64));
        sim.wire_filter = Some(Box::new(move |_d: &mut Dgram, _r: &mut Rng| {
            let i = counter.get();
            counter.set(i + 1);
            !(i < 8 && (drop_mask >> i) & 1 == 1)
        }));
    }
    // ---- workload
    let mut w = Workload::new(seed ^ 9);
    let max_len = if slow { 12_000 } else { 300_000 };
    let bulk = |rng: &mut Rng| Plan { dir: if rng.chance(1, 2) { quinn_proto::Dir::Bi } else { quinn_proto::Dir::Uni }, len: rng.range(max_len / 4, max_len), chunk: *rng.pick(&[1200usize, 5000, 70000]), finish: true, reset_at: None };
    w.sides[CLIENT].plans = (0..rng.range(1, 3)).map(|_| bulk(&mut rng)).collect();
    w.sides[SERVER].plans = (0..rng.range(if mode == Mode::Zrtt { 0 } else { 1 }, 2)).map(|_| bulk(&mut rng)).collect();
    for s in 0..2 {
        if rng.chance(1, 3) {
            for _ in 0..rng.below(6) {
                let len = rng.below(1100) as usize;
                w.sides[s].dgrams_to_send.push(rng.bytes(len));
            }
        }
    }
    let cch = sim.connect(ccfg);
    w.ch[CLIENT] = Some(cch);
    let had_0rtt = mode == Mode::Zrtt && sim.conn(CLIENT, cch).has_0rtt();
    if had_0rtt {
        w.start_early(&mut sim, CLIENT, cch);
    }
    // ---- scheduled disturbances
    let mut moves: Vec<u64> = if mode == Mode::Migrate { (0..rng.range(1, 2)).map(|_| rng.range(20, 300)).collect() } else { Vec::new() };
    moves.sort();
    let mut moved = 0u64;
    let floor_mtu = 1200usize;
    let mut shrinks: Vec<(u64, usize)> = if mode == Mode::Shrink { (0..rng.range(1, 3)).map(|_| (rng.range(2, 300) * sim.net.latency_ns, *rng.pick(&[floor_mtu, 1250, 1300, 1350, 1452]))).collect() } else { Vec::new() };
    shrinks.sort();
    let (deadline, max_steps) = if slow { (400_000_000_000u64, 150_000u64) } else { (900_000_000_000, 400_000) };
    let end = sim.run_until(deadline, max_steps, |sim| {
        if w.ch[SERVER].is_none() {
            if let Some(&ch) = sim.nodes[SERVER].accepted.first() {
                w.ch[SERVER] = Some(ch);
            }
        }
        w.tick(sim);
        let hs_done = sim.nodes[CLIENT].conns[&cch].obs.confirmed;
        if hs_done && moves.first().is_some_and(|s| sim.steps >= *s) {
            moves.remove(0);
            moved += 1;
            let old = sim.nodes[CLIENT].addr;
            let new = if sim.rng.chance(1, 2) { SocketAddr::new(old.ip(), old.port() + 1 + moved as u16) } else { SocketAddr::new(IpAddr::V6(Ipv6Addr::new(0, 0, 0, 0, 0, 0, 0, 2 + moved as u16)), old.port()) };
            sim.nodes[CLIENT].addr = new;
            if sim.rng.chance(1, 2) {
                sim.conn(CLIENT, cch).local_address_changed();
            } else {
                sim.conn(CLIENT, cch).ping();
            }
        }
        if shrinks.first().is_some_and(|c| sim.now >= c.0) {
            let (_, m) = shrinks.remove(0);
            sim.net.path_mtu = m;
        }
        w.complete() && w.ch[SERVER].is_some()
    });
    let net_desc = format!("{:?}", sim.net);
    let connected = sim.nodes[CLIENT].conns[&cch].obs.connected;
    let lost_c = sim.nodes[CLIENT].conns[&cch].obs.lost.clone();
    w.final_check(&mut sim, connected && !slow && lost_c.is_empty() && end == RunEnd::Done);
    // ---- settle on a clean network; C12: nothing in flight once both sides have been quiet
    let mut settled = false;
    if let (Some(sch), true) = (w.ch[SERVER], lost_c.is_empty() && connected) {
        sim.wire_filter = None;
        sim.net = NetCfg { latency_ns: sim.net.latency_ns, path_mtu: sim.net.path_mtu, ..NetCfg::default() };
        let t_end = sim.now + 20_000_000_000;
        sim.time_cap = Some(t_end);
        let _ = sim.run_until(t_end, 100_000, |sim| {
            w.tick(sim);
            false
        });
        sim.time_cap = None;
        // every in-flight packet the harness saw leaving has been acknowledged, declared lost or abandoned (per-packet
        // ledger of the harness, not the connection's counters): the counters must be back to zero
        for (node, ch) in [(CLIENT, cch), (SERVER, sch)] {
            let sn = sim.snap(node, ch);
            if sn.state != "established" || sn.prev_path.is_some() {
                continue;
            }
            if st.borrow().anything_outstanding(&sim, node, ch) {
                st.borrow_mut().count("settle:still-outstanding");
                continue;
            }
            settled = true;
            st.borrow_mut().count("settle:nothing-outstanding");
            if sn.path.in_flight_bytes != 0 || sn.path.in_flight_ack_eliciting != 0 {
                sim.fail("in-flight-nonzero-with-nothing-outstanding", format!("node {node}: in_flight bytes {} ack-eliciting {} although every in-flight packet it sent has been acknowledged, declared lost or abandoned", sn.path.in_flight_bytes, sn.path.in_flight_ack_eliciting));
            }
        }
        // C12 on the loss-free, in-order, constant-delay path: nothing is ever declared lost
        if mode == Mode::Clean {
            for (node, ch) in [(CLIENT, cch), (SERVER, sch)] {
                let ps = sim.nodes[node].conns[&ch].conn.stats().path;
                let l = logs[node].lock().unwrap().clone();
                if ps.lost_packets != 0 || ps.congestion_events != 0 || l.congestion_events != 0 || ps.lost_plpmtud_probes != 0 {
                    sim.fail("in-flight-spurious-loss-on-clean-path", format!("node {node}: lost_packets {} congestion_events {} lost MTU probes {} (controller saw {} congestion events, {} lost bytes) on a loss-free in-order path with constant delay {} ns", ps.lost_packets, ps.congestion_events, ps.lost_plpmtud_probes, l.congestion_events, l.lost_bytes, sim.net.latency_ns));
                }
            }
        }
        // ---- close
        let closer = (seed / 7 % 2) as usize;
        let (n, c) = [(CLIENT, cch), (SERVER, sch)][closer];
        let now = sim.t();
        sim.conn(n, c).close(now, VarInt::from_u32(7), Bytes::from_static(b"done"));
        let t_end = sim.now + 3_000_000_000;
        sim.time_cap = Some(t_end);
        let _ = sim.run_until(t_end, 50_000, |_| false);
        sim.time_cap = None;
    } else if !connected && end != RunEnd::Done && !slow {
        sim.fail("handshake-never-completed", format!("gate mode {mode:?}: run ended {end:?}"));
    }
    let g = st.borrow();
    out.runs += 1;
    out.evaluations += *g.hist.get("ack-eliciting-packets").unwrap_or(&0);
    if connected && (g.ptos > 0 || g.window_limited > 0) {
        out.nontrivial += 1;
    }
    out.count(&format!("mode:{mode:?}"), 1);
    out.count(&format!("end:{end:?}"), 1);
    out.count("settled-quiet", settled as u64);
    out.count("window-limited-transmits", g.window_limited);
    out.count("address-changes", moved);
    for (k, v) in &g.hist {
        out.count(k, *v);
    }
    for (node, k) in kinds.iter().enumerate() {
        let name = match k {
            CtlKind::Fixed(_) => "fixed",
            CtlKind::Random(_) => "random",
            CtlKind::Reno => "reno",
            CtlKind::Cubic => "cubic",
            CtlKind::Bbr => "bbr",
        };
        out.count(&format!("controller:{name}"), 1);
        let l = logs[node].lock().unwrap();
        out.count("controller-on-sent", l.sent_calls);
        out.count("controller-on-ack", l.ack_calls);
        out.count("controller-on-congestion-event", l.congestion_events);
    }
    if out.samples.len() < 3 {
        out.samples.push(format!("seed {seed}: mode {mode:?}, controllers {kinds:?}, initial_mtu {initial:?}, upper {upper:?}, max_udp_payload {mups:?}, net {net_desc}, 0-RTT {had_0rtt}, end {end:?} at {} ms, PTO expiries {}, checks {:?}", sim.now / 1_000_000, g.ptos, g.hist));
    }
    if std::env::var("VERIF_SIM_VERBOSE").is_ok() {
        eprintln!("--- gate seed {seed}: mode {mode:?} controllers {kinds:?} initial {initial:?} upper {upper:?} mups {mups:?} end {end:?} net {:?} hist {:?}", sim.net, g.hist);
        for node in 0..2 {
            eprintln!("controller log node {node}: {:?}", logs[node].lock().unwrap());
            for (ch, nc) in sim.nodes[node].conns.iter().filter(|(_, c)| !c.removed) {
                eprintln!("node {node} conn {ch}: path stats {:?}\n   snapshot {:?}", nc.conn.stats().path, nc.conn.verif_snapshot());
            }
        }
    }
    drop(g);
    for f in sim.fails.drain(..) {
        out.fails.push(format!("{f} seed={seed}"));
    }
}
