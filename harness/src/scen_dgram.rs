//! Scenario `dgq` (C16, audit SD-13): liveness of the application-datagram send queue.
//!
//! Property (C16 "send() accepts exactly the datagrams that fit ... a maximum which never exceeds what fits in
//! one packet on the current path"; the API contract of `Datagrams::send`: "`Event::DatagramsUnblocked` will be
//! emitted once datagrams have been sent"): a datagram that `send()` ACCEPTED is transmitted, or explicitly
//! dropped, within bounded time once the connection can send; a sender that was told `Blocked` is told
//! `DatagramsUnblocked`.  The maximum may shrink after a datagram was accepted (the peer migrates and the path
//! restarts from the initial MTU; the handshake replaces the client's random destination CID by a longer one of
//! the server; 0-RTT packets carry a long header) — an accepted datagram that fits no packet any more must not
//! block the queue for ever.
use std::net::{IpAddr, Ipv6Addr, SocketAddr};
use std::sync::Arc;
use std::time::Duration;

use bytes::Bytes;
use quinn_proto::{Event, IdleTimeout, MtuDiscoveryConfig, SendDatagramError, TransportConfig, VarInt};

use crate::scenarios::Outcome;
use crate::sim::*;
use crate::Rng;

pub const DGQ_RULE: &str = "one execution = one client/server pair on a clean or mildly lossy network, no stream traffic; variant `migrate`: MTU discovery raises the server's estimate above 1200, the server application queues a burst of datagrams of exactly max_size() bytes (more than a congestion window; drop = false until Blocked), the client then changes its address (the server's new path restarts from initial_mtu); variant `zrtt`: a first connection obtains a ticket, the second one uses 0-RTT and queues 1..6 datagrams of exactly max_size() (or up to 40 bytes less) before the handshake completes, the server using connection IDs of 8 or 20 bytes (the client's random initial destination CID has 8); variant `pathchanged`: the same burst, then the server application calls Connection::path_changed (the path state restarts from the configuration); in both the new path carries 1500, 1300 or 1250 bytes; variant `steady`: no shrink (control). In `migrate`/`pathchanged` the burst starts with 20..60 datagrams of 700..760 bytes so that the packets in flight at the shrink are smaller than the minimum MTU, and goes on with 40 small datagrams; the send buffer is 1 MB, 30 kB or 12 kB and the application waits for DatagramsUnblocked after Blocked. Oracles (property-derived): dgram-accepted-but-unsendable = 30 s of simulated time after the last submission an established connection with nothing else to do still holds accepted datagrams in its send queue; dgram-blocked-never-unblocked = send(drop = false) answered Blocked and no DatagramsUnblocked event followed in that time; dgram-max-size-fits-no-packet = with a datagram of max_size() bytes accepted while only 0-RTT keys exist, the client sends a second UDP datagram (its first one for application data alone) before the handshake completes that carries 0-RTT packets but no DATAGRAM frame; datagrams received are byte-identical to sent ones, at most once (dgram-corrupted-or-duplicated); non-trivial = at least one datagram of exactly max_size() was accepted and the shrink event (migration / handshake completion) happened with datagrams still queued, or the control variant delivered everything";

fn drain_events(sim: &mut Sim, node: usize, ch: usize, unblocked: &mut u64, got: &mut Vec<Vec<u8>>) {
    loop {
        let ev = sim.nodes[node].conns.get_mut(&ch).unwrap().app_events.pop_front();
        let Some(ev) = ev else { break };
        match ev {
            Event::DatagramsUnblocked => *unblocked += 1,
            Event::DatagramReceived => {
                while let Some(d) = sim.conn(node, ch).datagrams().recv() {
                    got.push(d.to_vec());
                }
            }
            _ => {}
        }
    }
}

fn payload(seq: u64, len: usize, rng: &mut Rng) -> Vec<u8> {
    let mut d = rng.bytes(len);
    for (i, b) in seq.to_be_bytes().iter().enumerate() {
        if i < d.len() {
            d[i] = *b;
        }
    }
    d
}

pub fn dgq(seed: u64, out: &mut Outcome) {
    let mut rng = Rng::new(seed ^ 0xd6c1);
    let variant = match rng.below(7) {
        0 | 1 => "migrate",
        2 | 3 => "zrtt",
        4 | 5 => "pathchanged",
        _ => "steady",
    };
    // 0-RTT: with MTU discovery the estimate may rise after the handshake and rescue the queue; half of the
    // executions run without
    let client_mtud = variant != "zrtt" || rng.chance(1, 2);
    let server_cid_len = if variant == "zrtt" { *rng.pick(&[8usize, 20]) } else { 8 };
    let mut tcs = Vec::new();
    for _ in 0..2 {
        let mut t = TransportConfig::default();
        t.max_idle_timeout(Some(IdleTimeout::try_from(Duration::from_secs(600)).unwrap()));
        t.initial_mtu(1200);
        t.min_mtu(1200);
        let mut m = MtuDiscoveryConfig::default();
        m.upper_bound(1452);
        t.mtu_discovery_config(Some(m));
        t.keep_alive_interval(Some(Duration::from_secs(2)));
        tcs.push(t);
    }
    let mut ts = tcs.pop().unwrap();
    let mut tc = tcs.pop().unwrap();
    // a small send buffer makes send(drop = false) answer Blocked during the burst
    ts.datagram_send_buffer_size(*rng.pick(&[1_048_576usize, 1_048_576, 30_000, 12_000]));
    if !client_mtud {
        tc.mtu_discovery_config(None);
    }
    let clock = SimClock(Arc::new(std::sync::Mutex::new(std::time::UNIX_EPOCH + Duration::from_secs(1_700_000_000))));
    let mut scfg = server_config(seed, ts, &clock);
    scfg.migration(true);
    let server = quinn_proto::Endpoint::new(Arc::new(endpoint_config(seed ^ 1, server_cid_len, None)), Some(Arc::new(scfg)), true);
    let client = quinn_proto::Endpoint::new(Arc::new(endpoint_config(seed ^ 2, 8, None)), None, true);
    let mut sim = Sim::new(seed, client, server, clock);
    sim.path_may_migrate = [false, true];
    sim.net.latency_ns = *rng.pick(&[2_000_000u64, 10_000_000, 30_000_000]);
    sim.net.jitter_ns = 0;
    sim.net.drop_permille = *rng.pick(&[0u64, 0, 0, 10]);
    sim.net.dup_permille = 0;
    sim.net.corrupt_permille = 0;
    sim.net.truncate_permille = 0;
    sim.net.replay_permille = 0;
    sim.net.path_mtu = 1500;
    let ccfg = client_config(seed, tc);

    let mut accepted: [Vec<Vec<u8>>; 2] = [Vec::new(), Vec::new()];
    let mut got: [Vec<Vec<u8>>; 2] = [Vec::new(), Vec::new()];
    let mut unblocked = [0u64; 2];
    let mut blocked_at: [Option<u64>; 2] = [None, None];
    let mut seq = 0u64;
    let mut exact_max_accepted = 0u64;
    let mut shrink_with_queue = false;
    let mut sch: Option<usize> = None;
    let cch;

    if variant == "zrtt" {
        // ---- first connection: get a ticket
        let c1 = sim.connect(ccfg.clone());
        let _ = sim.run_until(5_000_000_000, 20_000, |sim| sim.now > 300_000_000 && sim.nodes[CLIENT].conns[&c1].obs.confirmed);
        let now = sim.t();
        sim.conn(CLIENT, c1).close(now, VarInt::from_u32(0), Bytes::new());
        sim.time_cap = Some(sim.now + 5_000_000_000);
        let _ = sim.run_until(sim.now + 5_000_000_000, 20_000, |_| false);
        sim.time_cap = None;
        for n in 0..2 {
            for c in sim.nodes[n].conns.values_mut() {
                c.removed = true;
            }
        }
        sim.nodes[SERVER].accepted.clear();
        sim.fails.clear();
        sim.trace.clear();
        cch = sim.connect(ccfg);
        let had_0rtt = sim.conn(CLIENT, cch).has_0rtt();
        out.count(if had_0rtt { "had-0rtt-keys" } else { "no-0rtt-keys" }, 1);
        let mut first_flight_check: Option<(u64, usize)> = None;
        if had_0rtt {
            if let Some(max) = sim.conn(CLIENT, cch).datagrams().max_size() {
                let n = rng.range(1, 6);
                for i in 0..n {
                    let len = if i == 0 || rng.chance(1, 2) { max } else { max - rng.below(41) as usize };
                    seq += 1;
                    let d = payload(seq, len, &mut rng);
                    if sim.conn(CLIENT, cch).datagrams().send(d.clone().into(), false).is_ok() {
                        if len == max {
                            exact_max_accepted += 1;
                        }
                        accepted[CLIENT].push(d);
                    }
                }
                first_flight_check = Some((sim.now, accepted[CLIENT].len()));
            }
        }
        // Before the handshake completes application data travels in 0-RTT packets.  Whatever was accepted while
        // only 0-RTT keys exist was accepted as fitting "one packet on the current path": a UDP datagram that the
        // client starts for its application data (the second one; the first carries the Initial, and pacing may
        // delay the second beyond the handshake) must carry the head of the queue, not packets without frames.
        if let Some((_, n)) = first_flight_check {
            let t0 = sim.now;
            let _ = sim.run_until(t0 + 200_000_000, 5_000, |sim| {
                sim.nodes[CLIENT].conns[&cch].obs.connected || sim.nodes[CLIENT].conns[&cch].conn.stats().udp_tx.datagrams >= 2
            });
            let sn = sim.snap(CLIENT, cch);
            let st = sim.nodes[CLIENT].conns[&cch].conn.stats();
            if std::env::var("VERIF_SIM_VERBOSE").is_ok() {
                eprintln!("zrtt first flight: accepted {n} lens {:?} queued {} connected {} udp_tx {:?} data next_pn {} DATAGRAM frames {}", accepted[CLIENT].iter().map(|d| d.len()).collect::<Vec<_>>(), sn.dgram_out_len, sim.nodes[CLIENT].conns[&cch].obs.connected, st.udp_tx, sn.spaces[2].next_pn, st.frame_tx.datagram);
            }
            if n > 0 && !sim.nodes[CLIENT].conns[&cch].obs.connected && st.udp_tx.datagrams >= 2 && st.frame_tx.datagram == 0 && sn.dgram_out_len == n {
                sim.fail(
                    "dgram-max-size-fits-no-packet",
                    format!("client accepted {n} datagram(s) of at most max_size() bytes with 0-RTT keys only (first: {} bytes); it transmitted {} UDP datagrams / {} bytes holding {} 0-RTT packets and no DATAGRAM frame: the accepted datagram fits no 0-RTT packet", accepted[CLIENT][0].len(), st.udp_tx.datagrams, st.udp_tx.bytes, sn.spaces[2].next_pn),
                );
            }
        }
    } else {
        cch = sim.connect(ccfg);
    }

    // ---- main phase
    let burst_node = if variant == "zrtt" { CLIENT } else { SERVER };
    let mut burst_done = variant == "zrtt";
    let mut moved = false;
    let mut last_submit = sim.now;
    let mut queue_at_shrink = 0usize;
    let want_burst = rng.range(20, 60);
    let mut plan: std::collections::VecDeque<usize> = std::collections::VecDeque::new();
    let steady_small = rng.chance(1, 2);
    // the new path (after the migration / the reported path change) carries smaller packets than the old one in
    // two of three executions: MTU discovery cannot bring the old estimate back
    let new_path_mtu = *rng.pick(&[1500usize, 1300, 1250]);
    let end = sim.run_until(120_000_000_000, 300_000, |sim| {
        if sch.is_none() {
            sch = sim.nodes[SERVER].accepted.first().copied();
        }
        let chs = [Some(cch), sch];
        for node in 0..2 {
            if let Some(ch) = chs[node] {
                let before = unblocked[node];
                drain_events(sim, node, ch, &mut unblocked[node], &mut got[1 - node]);
                if unblocked[node] > before {
                    blocked_at[node] = None;
                }
            }
        }
        let (Some(s), true) = (sch, sim.nodes[CLIENT].conns[&cch].obs.confirmed) else { return false };
        if variant == "zrtt" {
            // the handshake is done: the destination CID is the server's now
            if !shrink_with_queue && sim.snap(CLIENT, cch).dgram_out_len > 0 {
                shrink_with_queue = true;
                queue_at_shrink = sim.snap(CLIENT, cch).dgram_out_len;
            }
            return sim.now > last_submit + 3_000_000_000;
        }
        let ch = if burst_node == SERVER { s } else { cch };
        if !burst_done {
            // wait for MTU discovery to raise the estimate of the bursting side (not in the control variant half
            // of the time: small datagrams on the initial MTU)
            let mtu = sim.nodes[burst_node].conns[&ch].conn.current_mtu();
            if mtu > 1200 || sim.now > 20_000_000_000 {
                let Some(max) = sim.conn(burst_node, ch).datagrams().max_size() else { return true };
                // migrate / pathchanged: medium datagrams first (one per packet, packets below the minimum MTU: their
                // loss on the abandoned path is no black-hole signal), the maximum-size ones queue up behind them
                let medium = if variant == "migrate" || variant == "pathchanged" { want_burst } else { 0 };
                let total = if medium > 0 { medium + 3 + sim.rng.below(6) } else { want_burst };
                for i in 0..total {
                    plan.push_back(if i < medium {
                        700 + sim.rng.below(60) as usize
                    } else if variant == "steady" && steady_small {
                        sim.rng.below(max as u64 + 1) as usize
                    } else {
                        max
                    });
                }
                // ... and the application goes on with small datagrams afterwards
                if medium > 0 {
                    for _ in 0..40 {
                        plan.push_back(100 + sim.rng.below(300) as usize);
                    }
                }
                burst_done = true;
                last_submit = sim.now;
            }
            return false;
        }
        // submit the planned datagrams (drop = false); after `Blocked` the application waits for DatagramsUnblocked
        while blocked_at[burst_node].is_none() {
            let Some(&len) = plan.front() else { break };
            let max_now = sim.conn(burst_node, ch).datagrams().max_size();
            seq += 1;
            let d = payload(seq, len, &mut sim.rng);
            match sim.conn(burst_node, ch).datagrams().send(d.clone().into(), false) {
                Ok(()) => {
                    if Some(len) == max_now {
                        exact_max_accepted += 1;
                    }
                    accepted[burst_node].push(d);
                    plan.pop_front();
                    last_submit = sim.now;
                }
                Err(SendDatagramError::Blocked(_)) => blocked_at[burst_node] = Some(sim.now),
                Err(_) => {
                    // too large by now (the maximum shrank): the application gives this one up
                    plan.pop_front();
                }
            }
        }
        if variant == "migrate" && !moved && sim.snap(burst_node, ch).dgram_out_len > 0 {
            // the client's address changes while the server still has accepted datagrams queued
            moved = true;
            let old = sim.nodes[CLIENT].addr;
            let new = if sim.rng.chance(1, 2) {
                SocketAddr::new(IpAddr::V6(Ipv6Addr::new(0, 0, 0, 0, 0, 0, 0, 7)), old.port())
            } else {
                SocketAddr::new(IpAddr::V6(Ipv6Addr::new(0, 0, 0, 0, 0, 0, 0, 9)), old.port() + 3)
            };
            sim.nodes[CLIENT].addr = new;
            sim.net.path_mtu = new_path_mtu;
            sim.conn(CLIENT, cch).ping();
            shrink_with_queue = true;
            queue_at_shrink = sim.snap(burst_node, ch).dgram_out_len;
        }
        if variant == "pathchanged" && !moved && sim.snap(burst_node, ch).dgram_out_len > 0 {
            // the application reports a new network path: congestion, RTT and MTU state restart from the configuration
            moved = true;
            let now = sim.t();
            sim.net.path_mtu = new_path_mtu;
            sim.conn(burst_node, ch).path_changed(now);
            shrink_with_queue = true;
            queue_at_shrink = sim.snap(burst_node, ch).dgram_out_len;
        }
        sim.now > last_submit + 5_000_000_000
    });
    // ---- 30 s of grace: everything accepted must have left the queue (sent or dropped), Blocked must be lifted
    let lost: Vec<String> = sim.nodes[CLIENT].conns[&cch].obs.lost.clone();
    if end != RunEnd::StepLimit && lost.is_empty() && sim.nodes[CLIENT].conns[&cch].obs.connected {
        let t_end = sim.now + 30_000_000_000;
        sim.time_cap = Some(t_end);
        let _ = sim.run_until(t_end, 300_000, |sim| {
            let chs = [Some(cch), sch];
            for node in 0..2 {
                if let Some(ch) = chs[node] {
                    let before = unblocked[node];
                    drain_events(sim, node, ch, &mut unblocked[node], &mut got[1 - node]);
                    if unblocked[node] > before {
                        blocked_at[node] = None;
                    }
                }
            }
            false
        });
        sim.time_cap = None;
        let chs = [Some(cch), sch];
        for node in 0..2 {
            let Some(ch) = chs[node] else { continue };
            let sn = sim.snap(node, ch);
            if sn.state != "established" {
                continue;
            }
            let max = sim.conn(node, ch).datagrams().max_size();
            let sent = sim.nodes[node].conns[&ch].conn.stats().frame_tx.datagram;
            if sn.dgram_out_len != 0 {
                sim.fail(
                    "dgram-accepted-but-unsendable",
                    format!("variant {variant} node {node}: {} accepted datagrams ({} bytes) still queued 30 s after the last submission, {} of {} accepted were transmitted; max_size() now {max:?}, current_mtu {}, server CID length {server_cid_len}, queued at the shrink: {queue_at_shrink}", sn.dgram_out_len, sn.dgram_out_total, sent, accepted[node].len(), sn.path.current_mtu),
                );
            }
            if let Some(t) = blocked_at[node] {
                sim.fail(
                    "dgram-blocked-never-unblocked",
                    format!("variant {variant} node {node}: send(drop = false) returned Blocked at t={} ms and no DatagramsUnblocked followed within {} ms; queue {} datagrams, max_size() {max:?}", t / 1_000_000, (sim.now - t) / 1_000_000, sn.dgram_out_len),
                );
            }
        }
    }
    // ---- intact, at most once
    for node in 0..2 {
        let mut pool: Vec<&Vec<u8>> = accepted[node].iter().collect();
        for d in &got[node] {
            match pool.iter().position(|x| *x == d) {
                Some(i) => {
                    pool.swap_remove(i);
                }
                None => sim.fail("dgram-corrupted-or-duplicated", format!("variant {variant}: a datagram of {} bytes delivered to the peer of node {node} matches no (remaining) accepted datagram", d.len())),
            }
        }
    }
    out.runs += 1;
    out.evaluations += sim.steps;
    let delivered_all = got[CLIENT].len() == accepted[CLIENT].len() && got[SERVER].len() == accepted[SERVER].len();
    if exact_max_accepted > 0 && (shrink_with_queue || (variant == "steady" && delivered_all)) {
        out.nontrivial += 1;
    }
    out.count(&format!("variant:{variant}"), 1);
    out.count(&format!("end:{end:?}"), 1);
    out.count("dgrams-accepted", (accepted[0].len() + accepted[1].len()) as u64);
    out.count("dgrams-delivered", (got[0].len() + got[1].len()) as u64);
    out.count("exact-max-accepted", exact_max_accepted);
    out.count("shrink-with-queue", shrink_with_queue as u64);
    out.count("unblocked-events", unblocked[0] + unblocked[1]);
    if out.samples.len() < 3 {
        out.samples.push(format!("seed {seed}: variant {variant} server cid {server_cid_len} accepted {:?} delivered {:?} queued at shrink {queue_at_shrink} end {end:?} at {} ms", [accepted[0].len(), accepted[1].len()], [got[0].len(), got[1].len()], sim.now / 1_000_000));
    }
    for f in sim.fails.drain(..) {
        out.fails.push(format!("{f} seed={seed}"));
    }
}
