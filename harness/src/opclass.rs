//! Reachability class of every op of the micro-differential line protocols (audit TOP GAP 1).
//!
//! A response `panic` of the real code used to pass whenever the Lean model answered `panic` too. Property
//! C03 says that no input a REMOTE PEER can cause makes the endpoint panic, and every component's own
//! property presupposes that the local application, staying inside the documented API contract, cannot
//! crash the library either. So each op is classified, from the op line alone plus a little per-case ghost
//! state (never from the implementation's answer to THAT op and never from the model):
//!
//!  * `Peer`     - the call and its arguments can be produced by bytes on the wire (frames, packets, transport
//!                 parameters, datagrams): integers below 2^62 where the wire carries varints, lengths bounded
//!                 by a UDP datagram, CIDs of at most 20 bytes, ... - and by the calls the connection itself
//!                 makes as a consequence (e.g. acknowledging a frame that was really transmitted).
//!  * `Local`    - a call of the local application (or of the connection on its behalf) inside the
//!                 documented contract, with configuration values a `TransportConfig`/`EndpointConfig`
//!                 setter accepts.
//!  * `Contract` - something only a buggy caller inside the crate could do (values >= 2^62, u64::MAX sizes,
//!                 `update_initial_cid` after the window moved, acknowledging bytes never sent, ...), or a
//!                 harness-only poke.  After such an op the case is TAINTED: later panics say nothing.
//!
//! `Runner::op` raises `key=C03-panic-on-peer-input` when a `Peer` op panics in an untainted case, and
//! `key=<Cxx>-panic-on-api-call` (Cxx = the component's own property) when a `Local` op does, irrespective
//! of the model's answer.  The per-op tables and the reasoning are in the component modules below
//! (`opclass_*.rs`); docs: NOTES of the `panics` delivery / DESIGN 5.3.
use std::collections::{BTreeMap, BTreeSet};

#[derive(Clone, Copy, PartialEq, Eq, Debug)]
pub enum Class {
    Peer,
    Local,
    Contract,
    /// a PURE observation / raw call with out-of-contract arguments that cannot change the state of the
    /// component under test: not judged, and does not taint the case
    Probe,
}

pub const VARINT_MAX: u64 = (1 << 62) - 1;
/// largest UDP payload (a frame, a CID list, a token ... arrives inside one datagram)
pub const MAX_UDP: u64 = 65527;

/// Per-case, per-component ghost state: classifies an op BEFORE it runs, may look at the response afterwards
/// (to learn e.g. which stream frames were really transmitted).
pub trait Tracker {
    /// `w[0]` is the component, `w[1]` the op kind.
    fn classify(&mut self, w: &[&str]) -> Class;
    fn observe(&mut self, _w: &[&str], _resp: &str) {}
    /// The response means that the real `Connection` would now be closed (a frame handler returned a
    /// `TransportError`): no later peer input is processed, so the rest of the case is not judged.
    fn closes(&self, _w: &[&str], _resp: &str) -> bool {
        false
    }
    /// The complete printed state of the component carried by this response, if any.  Executors print
    /// the whole component state in (almost) every response ("exact tie"), so an op after which the printed
    /// state equals the one before it had NO EFFECT: the states that follow are reachable by the same history
    /// without that op.  Used to keep judging a case after an out-of-contract op, or after a frame that was
    /// answered with a transport error, when it changed nothing.
    fn state<'a>(&self, _w: &[&str], _resp: &'a str) -> StateObs<'a> {
        StateObs::Unknown
    }
    /// For a panic of op `w`: the class of the CONFIGURATION in force (from the op lines of the case, never from a
    /// response), when a recorded panic finding of this component exists only under particular configurations.  It
    /// becomes part of the oracle key (`...@<file>:<message>+<class>`), so the same panic under an ordinary
    /// configuration is a different key (a violation, not the recorded finding).
    fn config_class(&self, _w: &[&str]) -> Option<String> {
        None
    }
}

pub enum StateObs<'a> {
    /// the full state as printed
    Full(&'a str),
    /// the response carries no state but the executor demonstrably returned before touching anything
    Unchanged,
    Unknown,
}

/// the property a component serves (for `<Cxx>-panic-on-api-call`)
pub fn own_property(comp: &str) -> &'static str {
    match comp {
        "varint" | "pn" | "frame" | "header" | "tparams" => "C10",
        "dedup" | "keyupd" => "C04",
        "sbuf" | "asm" => "C01",
        "cidq" | "cidstate" | "ackfreq" | "ackscan" | "pathresp" | "pendingacks" | "rxpn" => "C03",
        "token" | "bloomlog" | "tokencache" | "cidecho" => "C14",
        "sentpk" | "cc" => "C12",
        "cindex" => "C09",
        "dgram" => "C16",
        "mtud" => "C13",
        "streams" => "C11",
        _ => "C03",
    }
}

pub fn tracker(comp: &str) -> Option<Box<dyn Tracker>> {
    crate::opclass_core::tracker(comp)
        .or_else(|| crate::opclass_data::tracker(comp))
        .or_else(|| crate::opclass_wire::tracker(comp))
        .or_else(|| crate::opclass_endpoint::tracker(comp))
        .or_else(|| crate::opclass_recovery::tracker(comp))
        .or_else(|| crate::opclass_keyupd::tracker(comp))
}

/// All trackers of the current case (one per component addressed).
#[derive(Default)]
pub struct CaseClass {
    trackers: BTreeMap<String, Option<Box<dyn Tracker>>>,
    pub tainted: bool,
    pub tainted_by: String,
    pub panicked: bool,
    /// explicit class for the next op (`Runner::op_class`)
    pub force: Option<Class>,
    last_state: BTreeMap<String, String>,
    unknown: BTreeSet<String>,
}

impl CaseClass {
    pub fn reset(&mut self) {
        self.trackers.clear();
        self.tainted = false;
        self.tainted_by.clear();
        self.panicked = false;
        self.force = None;
        self.last_state.clear();
    }

    /// classification of `line` in the current ghost state (None: component without a table)
    pub fn classify(&mut self, line: &str) -> Option<Class> {
        let w: Vec<&str> = line.split_ascii_whitespace().collect();
        let comp = *w.first()?;
        let t = self.trackers.entry(comp.to_string()).or_insert_with(|| tracker(comp));
        let forced = self.force.take();
        match t {
            Some(t) => {
                let c = forced.unwrap_or(t.classify(&w));
                if w.get(1).copied() == Some("new") && matches!(c, Class::Local | Class::Peer) {
                    // the component state is constructed afresh: what happened before no longer matters
                    self.tainted = false;
                    self.tainted_by.clear();
                    self.panicked = false;
                }
                Some(c)
            }
            None => {
                self.unknown.insert(comp.to_string());
                forced
            }
        }
    }

    /// configuration class of the component addressed by `line` (see `Tracker::config_class`)
    pub fn config_class(&self, line: &str) -> Option<String> {
        let w: Vec<&str> = line.split_ascii_whitespace().collect();
        let comp = *w.first()?;
        self.trackers.get(comp)?.as_ref()?.config_class(&w)
    }

    /// after the op ran: update the ghost state; taint the case when the op was outside the contract
    /// (`contract`) or closed the connection, unless it had no effect on the printed state
    pub fn observe(&mut self, line: &str, resp: &str, contract: bool) {
        let w: Vec<&str> = line.split_ascii_whitespace().collect();
        let Some(comp) = w.first().copied() else { return };
        let Some(Some(t)) = self.trackers.get_mut(comp) else {
            if contract && !self.tainted {
                self.tainted = true;
                self.tainted_by = line.to_string();
            }
            return;
        };
        t.observe(&w, resp);
        let closes = t.closes(&w, resp);
        let no_effect = match t.state(&w, resp) {
            StateObs::Full(s) => {
                let same = self.last_state.get(comp).is_some_and(|old| old == s);
                self.last_state.insert(comp.to_string(), s.to_string());
                same
            }
            StateObs::Unchanged => true,
            StateObs::Unknown => false,
        };
        if (contract || closes) && !no_effect && !self.tainted {
            self.tainted = true;
            self.tainted_by = if contract { line.to_string() } else { format!("connection closed by: {line}") };
        }
    }
}

// ---------- small parsing helpers shared by the component tables ----------

pub fn n(w: &[&str], i: usize) -> Option<u64> {
    w.get(i)?.parse().ok()
}

/// decimal integer that may exceed u64 (some protocols carry u128 nanoseconds / fingerprints)
pub fn n128(w: &[&str], i: usize) -> Option<u128> {
    w.get(i)?.parse().ok()
}

/// all of the given argument positions are integers below 2^62 (what a varint can carry)
pub fn varints(w: &[&str], idx: &[usize]) -> bool {
    idx.iter().all(|&i| matches!(n(w, i), Some(x) if x <= VARINT_MAX))
}

/// hex byte string (`-` = empty) -> length in bytes
pub fn hexlen(s: &str) -> Option<usize> {
    if s == "-" {
        return Some(0);
    }
    if s.len() % 2 != 0 || !s.bytes().all(|b| b.is_ascii_hexdigit()) {
        return None;
    }
    Some(s.len() / 2)
}

/// class by a boolean: in-contract ? `yes` : Contract
pub fn when(ok: bool, yes: Class) -> Class {
    if ok {
        yes
    } else {
        Class::Contract
    }
}
