#!/bin/bash
# Build the framework from files on disk only (offline). Idempotent.
set -e
cd "$(dirname "$0")"
export CARGO_NET_OFFLINE=true CARGO_TARGET_DIR=/verif/.cache/target
mkdir -p .cache/tmp .cache/run evidence replays
cp /repo/Cargo.lock harness/Cargo.lock
python3 tools/gen_from_source.py
(cd lean && lake build QuinnModel driver 2>&1 | tail -3)
(cd harness && cargo build --offline --bins 2>&1 | tail -3)
echo setup-done
