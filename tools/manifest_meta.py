HOOK_COMMITS = ['0781494', '9f31bee', '091232a']
NOT_YET = {}
CLAIMS = {
 'C10': dict(
   text='Lean theorems (unbounded): varint decode∘encode = id with exact consumption, size = encoded length, decoder total with value < 2^62 and suffix remainder; packet-number window theorem for all four lengths and sufficiency of the sender\'s length choice; wire bytes round-trip. Model constants regenerated from varint.rs/packet.rs each run; model compared with the real codecs on boundary-biased and malformed inputs.',
   ref='5.10', technique='Lean 4 theorems (omega/simp) + generated constants + differential execution',
   note='Covers varint and packet-number codecs; frames/headers/transport parameters/tokens are growth items. Trusted: Lean kernel, T1 translator, harness.'),
 'C04': dict(
   text='Lean theorem (unbounded): over any delivery sequence the duplicate filter accepts no packet number twice (set-refinement invariant of Dedup::insert with the u128 window as Nat mod 2^128). Model compared exactly (result, next, window) with the real Dedup on generated sequences; at-most-once oracle also applied to the implementation output.',
   ref='5.4', technique='Lean 4 invariant proof (Nat.testBit lemmas, omega) + differential execution',
   note='Ideal AEAD assumed; the receive pipeline around Dedup is covered by the system simulator when built.'),
 'C07': dict(
   text='Lean theorems (unbounded): over every interleaving of received datagrams, validation, migration and poll_transmit calls building any datagrams, an unvalidated path is sent at most 3x what it sent plus one datagram minus one byte (amp_bound), and each datagram is started only while budget remains (amp_gate); the gate predicate and its argument are regenerated from paths.rs/connection/mod.rs on every run. Stateless reset strictly smaller than the inciting datagram for every rng draw, and resets spaced by min_reset_interval over any history (constants and expression shapes regenerated from endpoint.rs). Every path transition observed in the simulator (rx/tx snapshots) is validated against the Lean model by the native driver; per-address byte ledgers of the simulator check the property directly on the real server under vanishing/spoofed/replaying clients.',
   ref='5.7', technique='Lean 4 invariant proof over generated guard + trace validation against the real Connection + simulator oracle',
   note='Skeleton of poll_transmit (gated loop) modelled; packet contents, MTU probes and off-path responses are observed by the oracle only. short-Initial-no-state not yet covered.'),
 'C08': dict(
   text='Lean theorems over ALL histories of close()/packet errors/peer closes/timeouts/polls of the lifecycle model: Drained notified at most once and exactly when drained; after close() the close timer stays at now+3*PTO until drained and servicing timers at the deadline drains (drained within 3 PTO); drained is absorbing and silent; close() owes a packet at once and the closing packet is exempt from congestion control and pacing (flag regenerated from poll_transmit). The full "reason reported exactly once" statement is DISPROVED on the faithful model (lost_at_most_once_counterexample, local_close_reports_nothing_counterexample) and proved in its _partial form for histories without packet errors after close; the excluded histories are the recorded known findings, reproduced on the real code every run. All lifecycle transitions observed in the simulator are validated against the model; simulator oracles check event uniqueness, reason delivery, 3-PTO drain, idle-timeout lower/upper bounds, keep-alive and silence after drain under close/vanish/restart at every point of an exchange.',
   ref='5.8', technique='Lean 4 invariant proofs + counterexample theorems + trace validation against the real Connection + simulator oracle',
   note='Skeleton of Connection state; RTT estimation and idle-bound arithmetic not in the model. Known findings: lost-after-local-close:reset, lost-reported-twice:*.'),
}
