HOOK_COMMITS = ['0781494']
NOT_YET = {}
CLAIMS = {
 'C10': dict(
   text='Lean theorems (unbounded): varint decode∘encode = id with exact consumption, size = encoded length, decoder total with value < 2^62 and suffix remainder; packet-number window theorem for all four lengths and sufficiency of the sender\'s length choice; wire bytes round-trip. Model constants regenerated from varint.rs/packet.rs each run; model compared with the real codecs on boundary-biased and malformed inputs.',
   ref='5.10', technique='Lean 4 theorems (omega/simp) + generated constants + differential execution',
   note='Covers varint and packet-number codecs; frames/headers/transport parameters/tokens are growth items. Trusted: Lean kernel, T1 translator, harness.'),
 'C04': dict(
   text='Lean theorem (unbounded): over any delivery sequence the duplicate filter accepts no packet number twice (set-refinement invariant of Dedup::insert with the u128 window as Nat mod 2^128). Model compared exactly (result, next, window) with the real Dedup on generated sequences; at-most-once oracle also applied to the implementation output.',
   ref='5.4', technique='Lean 4 invariant proof (Nat.testBit lemmas, omega) + differential execution',
   note='Ideal AEAD assumed; the receive pipeline around Dedup is covered by the system simulator when built.'),
}
