#!/usr/bin/env python3
"""integrate.py <deliver_dir> [repo_patch_name]  — merge a builder delivery into /repo and /verif.
Registry-style shared files are merged line-wise (only missing registry lines are added)."""
import os, re, subprocess, sys, shutil
D = sys.argv[1]
patch = os.path.join(D, sys.argv[2] if len(sys.argv) > 2 else 'repo.patch')
REPO, VERIF = '/repo', '/verif'
SHARED = ['lean/Driver.lean', 'harness/src/gen/mod.rs', 'harness/src/lib.rs', 'known_findings.txt', 'tools/manifest_meta.py', 'tools/check.py', 'tools/props.py', 'tools/gen_from_source.py', 'tools/simrun.py', 'tools/mkmanifest.py']

def sh(cmd, **kw):
    return subprocess.run(cmd, shell=True, text=True, capture_output=True, **kw)

# 1. repo patch without the registry file
r = sh(f"git -C {REPO} apply --3way --exclude='*/connection/verif/mod.rs' {patch}")
print('repo patch:', r.returncode, (r.stdout + r.stderr)[-600:])
ptxt = open(patch).read()
m = re.search(r'diff --git a/quinn-proto/src/connection/verif/mod\.rs.*?(?=\ndiff --git |\Z)', ptxt, re.S)
if m:
    added = [l[1:] for l in m.group(0).splitlines() if l.startswith('+') and not l.startswith('+++')]
    mods = [l for l in added if re.match(r'\s*(pub )?mod \w+;', l)]
    arms = [l for l in added if re.match(r'\s*"\w+" => \|\|', l)]
    uses = [l for l in added if re.match(r'\s*pub use ', l)]
    p = os.path.join(REPO, 'quinn-proto/src/connection/verif/mod.rs')
    s = open(p).read()
    for l in mods + uses:
        if l.strip() not in s:
            s = s.replace('mod snapshot;\n', l.strip() + '\nmod snapshot;\n', 1)
    for l in arms:
        if l.strip() not in s:
            s = s.replace('        _ => return None,\n', l.rstrip() + '\n        _ => return None,\n', 1)
    open(p, 'w').write(s)
    print('registry: +%d mods, +%d arms' % (len(mods), len(arms)))

# 2. files
V = os.path.join(D, 'verif')
for root, dirs, files in os.walk(V):
    for f in files:
        rel = os.path.relpath(os.path.join(root, f), V)
        if rel in SHARED or rel.startswith('evidence/') or rel.startswith('.cache') or rel == 'MANIFEST.json' or rel.startswith('replays/'):
            continue
        dst = os.path.join(VERIF, rel)
        os.makedirs(os.path.dirname(dst), exist_ok=True)
        if os.path.exists(dst) and open(dst, 'rb').read() != open(os.path.join(root, f), 'rb').read():
            print('  overwrite', rel)
        shutil.copy2(os.path.join(root, f), dst)

# 3. registry lines of shared files
def merge_lines(rel, pats, anchor_fn):
    src = os.path.join(V, rel)
    if not os.path.exists(src):
        return
    cur = open(os.path.join(VERIF, rel)).read()
    new = open(src).read().splitlines()
    n = 0
    for pat, where in pats:
        for l in new:
            if re.match(pat, l) and l.strip() not in [x.strip() for x in cur.splitlines()]:
                cur = anchor_fn(cur, l, where)
                n += 1
    open(os.path.join(VERIF, rel), 'w').write(cur)
    print(f'{rel}: +{n} lines')

def drv_anchor(cur, l, where):
    if where == 'import':
        return cur.replace('import QuinnModel.Drv.Wire\n', 'import QuinnModel.Drv.Wire\n' + l + '\n', 1)
    if where == 'field':
        return cur.replace('  dedup : Dedup.Dedup := Dedup.init\n', '  dedup : Dedup.Dedup := Dedup.init\n' + l + '\n', 1)
    return cur.replace('  | _ => (s, "bad-op")', l + '\n  | _ => (s, "bad-op")', 1)
merge_lines('lean/Driver.lean', [(r'import QuinnModel\.', 'import'), (r'  \w+ : .* := ', 'field'), (r'  \| "\w+" :: ', 'arm')], drv_anchor)

def gen_anchor(cur, l, where):
    if where == 'mod':
        return cur.replace('pub mod wire;\n', l + '\npub mod wire;\n', 1)
    return cur.replace('        _ => return None,', l + '\n        _ => return None,', 1)
merge_lines('harness/src/gen/mod.rs', [(r'pub mod \w+;', 'mod'), (r'\s+"\w+" => \(', 'arm')], gen_anchor)

# 4. known findings: add new finding lines
kf = os.path.join(V, 'known_findings.txt')
if os.path.exists(kf):
    cur = open(os.path.join(VERIF, 'known_findings.txt')).read()
    for l in open(kf):
        m = re.match(r'finding:\s+property=(\S+)\s+key=(\S+)', l)
        if m and f'key={m.group(2)} ' not in cur:
            cur += l if l.endswith('\n') else l + '\n'
            print('  + finding', m.group(2))
    open(os.path.join(VERIF, 'known_findings.txt'), 'w').write(cur)
