MICRO = {
    'dgram': (3000, 40000, 60),
    'mtud': (3000, 40000, 80),
}
PROPS = {
    'C16': dict(
        micro=['dgram'],
        sim=[('dgq', 60, 600)],
        modelled="datagrams.rs complete: DatagramState::{received,recv,recv_cost,make_space_for,has_send_buffer_space,drop_oversized,drop_oversized_front,write}, Datagrams::{send,max_size,recv,send_buffer_space} executed on a real (pre-handshake) Connection whose inputs (config buffer sizes, path MTU, remote CID length, peer max_datagram_frame_size) are set explicitly; frame::Datagram::{encode,size}; the Connection code fragments that clear send_blocked (DATAGRAM loop of populate_packet, black-hole branch of detect_lost_packets) as replicas around the real calls, their source text pinned by T1 shape anchors, and the head-of-queue purge (drop_unsendable_datagrams) through the real Connection::poll_transmit; predict_1rtt_overhead for the short header and for the 0-RTT long header; liveness of the send queue end-to-end (scenario dgq: migration to a fresh path, path_changed, 0-RTT with longer server CIDs; accepted datagrams are transmitted or dropped, Blocked is followed by DatagramsUnblocked, a datagram of max_size() accepted with 0-RTT keys only fits a 0-RTT packet)",
        not_modelled="end-to-end at-most-once across the network (needs Dedup + packet pipeline: system simulator of DESIGN 5.16), 1-RTT tag length other than the 16-byte guess (keys not installed in the executor), overflow of cost + recv_buffered (needs a 2^64 byte window); the executor's connection never holds 1-RTT keys (the short-header branch of predict_1rtt_overhead is covered by the T1 translation, the theorems and the simulator only)",
    ),
    'C13': dict(
        micro=['mtud'],
        modelled="mtud.rs complete: MtuDiscovery::{new,disabled,reset,poll_transmit,on_acked,on_probe_lost,on_non_probe_lost,black_hole_detected,on_peer_max_udp_payload_size_received,in_flight_mtu_probe,current_mtu}, EnabledMtuDiscovery, Phase, SearchState::{new,next_mtu_to_probe}, BlackHoleDetector (burst aggregation, suspicious-burst table with first-minimum replacement), MtuDiscoveryConfig setters (upper_bound clamp) and defaults; all panics (debug_assert in new / on_peer_max..., checked u16/u64 subtraction) as explicit outcomes",
        not_modelled="no Lean model of the datagram sizing in Connection::poll_transmit / PacketBuilder (segment_size, padding, GSO): it is observed by the simulator oracles only; which datagram is a loss probe is not visible from outside (the <= 1200 clamp of loss probes is not checked); overflow of lost_probe_count (2^64 calls) and of Instant + Duration",
    ),
}
