PROPS = {
    'C19': dict(bins=[('udploop', 150, 3000)],
                modelled='quinn-udp/src/lib.rs Transmit::effective_segment_size, the control-message layout of prepare_msg (send) and of a received message under the options UdpSocketState::new enables (tables proved against cmsg::LEN, generated), the stride split loop of quinn::endpoint::poll_socket (shape anchored); libc sizes (CMSG_SPACE, struct sizes) are reported by the harness at run time and compared with the model; the kernel contract (GSO splits at the segment size, GRO reports the stride) is validated on real IPv4 and IPv6 loopback sockets through UdpSocketState::send/recv',
                not_modelled='the kernel, the unsafe pointer code itself (memory safety), non-Linux back ends, dual-stack v4-mapped sockets (growth)'),
}
