"""C10 names address-validation tokens among the encodings that must round-trip ("decoding an encoding yields the
original value"): the `token` component (real Token::encode / IncomingToken::from_header against Endpoint/Token.lean,
oracle `token-roundtrip` over IPv4, IPv6 and IPv4-mapped addresses) therefore also runs under C10, not only under C14."""
PROPS = {
    'C10': dict(micro=['token'],
                modelled='token.rs Token::encode / decode (Retry and NEW_TOKEN tokens: address incl. IPv4-mapped IPv6, port, CIDs, timestamps) round trip, through the `token` exact differential and its token-roundtrip oracle',
                not_modelled=''),
}
