MICRO = {
    'cindex': (3000, 30000, 60),
}
PROPS = {
    'C09': dict(
        micro=['cindex'],
        modelled="endpoint.rs: ConnectionIndex (connection_ids_initial, connection_ids, incoming_connection_remotes, outgoing_connection_remotes, connection_reset_tokens; insert_initial_incoming, remove_initial, insert_initial, insert_conn, retire, remove (ownership-checked), get = the routing cascade), ResetTokenTable, ConnectionMeta, both Slabs (slab 0.4 free list), Endpoint::{handle_event (NeedIdentifiers, RetireConnectionId, ResetToken, Drained), send_new_identifiers, new_cid (CID bytes explicit), cids_exhausted, connect (incl. the TLS start_session error exit, which retires the CID), handle up to the routing decision + the table updates of handle_first_packet, accept (ok / stale / CIDs exhausted / authentication failure / first packet rejected), refuse, ignore, clean_up_incoming, add_connection (incl. preferred-address CID)}; executed on the REAL Endpoint with stub cryptography",
        not_modelled="header decoding (PartialDecode: the executor checks the real decoder against the declared DCID/kind of every datagram), cryptography/TLS (inputs), the Connection state machine and CidState/CidQueue (connection side of CID bookkeeping), retry(), the size/saturation/version/token exits of handle_first_packet, IncomingBuffer byte accounting, stateless-reset emission, quinn/src/endpoint.rs ConnectionSet",
    ),
}
