MICRO = {
    'cidecho': (3000, 40000, 12),
}
PROPS = {
    'C14': dict(
        micro=['cidecho'],
        modelled="CID-echo authentication: Connection::handle_peer_params (guard translated by T1 into Gen.cidEchoReject, executed on real client and server Connections); client CID bookkeeping (Connection::new via Endpoint::connect, Retry / Initial / Handshake arms of process_decrypted_packet incl. the Retry discard test Gen.retryDiscarded and the SCID-mismatch discards) driven through real packets (Header::encode + real Initial keys + real is_valid_retry); the honest server's three parameters (IncomingToken::from_header / Endpoint::accept / TransportParameters::new) as a function of what it saw",
        not_modelled="the honest-server side of the echo (Endpoint::accept / Endpoint::retry / from_header CID plumbing, PacketBuilder SCID) is tied by T1 shape anchors only, not executed by cidecho; Handshake-space keys of the `hs` op are planted by the executor (no TLS progress); TransportParameters::read rejecting server-only parameters sent by a client (C10 tparams component); the duplicate filter and Version Negotiation (C04); TLS binding of the transport parameters to the handshake transcript (rustls, trusted)",
    ),
}
