# scenario `zrtt2` (harness/src/scen_zrtt2.rs): 0-RTT end to end with an observable rejected attempt.
# Keys `zero-rtt-*` are evidence against C17 (some also against C02 / C05: see KEYMAP in simrun.py); the
# completion keys (workload-incomplete, handshake-never-completed, connection-lost-under-fair-loss) against C02,
# flow-control-/flow-stream-limit-error-between-honest-peers against C05.
_Z2 = ('zrtt2', 300, 3000)
PROPS = {
    'C17': dict(sim=[_Z2],
                modelled='0-RTT end to end (system simulator, scenario zrtt2): early workload salted per attempt (streams finished / kept open / empty+finished / reset / receive half stopped / longer than the remembered credit, datagrams, set_receive_window and set_max_concurrent_streams before the handshake completes), server 0.5-RTT data, late accept, Retry, second server unchanged / larger parameters / reduced parameters (RFC 9000 7.4.1) / TLS state lost / early data refused with the session kept; oracles on both applications and on the client plaintext transmit log (every retransmittable frame sent in 0-RTT before a Retry is sent again)',
                not_modelled='a server that keeps its TLS state and reduces its transport parameters still accepts 0-RTT (recorded finding zero-rtt-accepted-with-reduced-parameters); quinn async layer (ZeroRttRejected mapping)'),
    'C02': dict(sim=[_Z2], modelled='', not_modelled=''),
    'C05': dict(sim=[_Z2], modelled='', not_modelled=''),
    # the content / terminal-outcome oracles of the workload also judge early (0-RTT) data: accepted, or rejected and repeated
    'C01': dict(sim=[('zrtt2', 60, 600)], modelled='', not_modelled=''),
    'C11': dict(sim=[('zrtt2', 60, 600)], modelled='', not_modelled=''),
    'C16': dict(sim=[('zrtt2', 60, 600)], modelled='', not_modelled=''),
}
