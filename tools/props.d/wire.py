MICRO = {
    'varint': (1500, 40000, 40),
    'pn': (1500, 40000, 40),
    'dedup': (2000, 50000, 60),
}
PROPS = {
    'C10': dict(
        micro=['varint', 'pn'],
        modelled="varint.rs (VarInt::{from_u64,size,encode,decode}), packet.rs PacketNumber::{new,encode,decode,expand}",
        not_modelled="frames, headers, transport parameters, tokens: listed as growth in DESIGN 5.10",
    ),
    'C04': dict(
        micro=['dedup', 'cidq'],
        modelled="cid_queue.rs CidQueue (which reset token is reported when the CID in use changes: exact micro-differential incl. tokens); spaces.rs Dedup::insert (u128 window as Nat mod 2^128); the receive pipeline of handle_packet / handle_first_packet (decrypt, duplicate filter, state filters, authentication accounting excluding unprotected packets) and the stateless-reset / Retry / Version-Negotiation acceptance tests as a decision model whose order and conditions are pinned by T1 shape anchors",
        not_modelled="AEAD (ideal by hypothesis; key selection across key updates is modelled in Conn/KeyUpdate.lean, see props.d/keyupd.py), the frame handlers behind a processed packet",
    ),
}
