"""C03 - a panic on peer input is a violation whatever the model says (audit TOP GAP 1).

`micro_panics`: components run under C03 for the reachability-class oracle only (harness/src/opclass*.rs,
Runner::panic_oracle): of their oracle failures only the keys `C03-...` count for C03 (their other oracles and the
model comparison belong to their own properties).  `rxpn` is a full C03 component (model comparison + oracle)."""
MICRO = {
    'rxpn': (2000, 40000, 40),
}
PROPS = {
    'C03': dict(
        micro=['rxpn'],
        micro_panics=['streams', 'dgram', 'asm', 'sbuf', 'dedup', 'varint', 'pn', 'frame', 'header', 'tparams',
                      'token', 'bloomlog', 'tokencache', 'cindex', 'cidecho', 'mtud', 'sentpk', 'cc'],
        modelled="reachability classes of every op of every micro-differential component (PEER / LOCAL-API / CONTRACT-VIOLATION, "
                 "harness/src/opclass*.rs): a panic of the real code on a PEER op in a case whose earlier ops were all in contract "
                 "is reported (key C03-panic-on-peer-input) whatever the model answers; packet_crypto.rs decrypt_packet_body: the packet "
                 "number a received packet is processed under (component rxpn through the real function with identity packet protection; "
                 "Conn/RxPn.lean; T1 anchor Gen.rxPnBound), theorems Props/C03_total.lean: processed packet numbers stay below 2^62 over every "
                 "history of received packets, hence PendingAcks / Ack::encode never see an unencodable number; Recv::credit_consumed_by total",
        not_modelled="totality of the whole streams model on peer ops (statement kept as a def, evidence: panic oracle on the streams component); "
                     "long-haul sender side: PacketNumber::new panics once next_pn - largest_acked >= 2^31 (finding); BBR u64 products (finding)",
    ),
}
