"""C03 — state-dependent handlers of peer-controlled values (CID queue/state, ACK frequency, ACK parsing)."""
MICRO = {
    'cidq': (2000, 40000, 60),
    'cidstate': (2000, 40000, 60),
    'ackfreq': (2000, 40000, 60),
    'ackscan': (2000, 40000, 40),
    'pathresp': (1500, 30000, 80),
    'pendingacks': (1000, 20000, 60),
}
PROPS = {
    'C03': dict(
        micro=['cidq', 'cidstate', 'ackfreq', 'ackscan', 'pathresp', 'pendingacks'],
        modelled="cid_queue.rs CidQueue::{new,insert,next,iter,active,active_seq,update_initial_cid} with every expect/unwrap/u64 "
                 "addition as an explicit panic outcome, and the NEW_CONNECTION_ID arm of Connection::process_payload around it "
                 "(error codes, MAX_PENDING_RETIRED_CIDS, server switch off the initial CID; executor mirrors the arm, T1 anchors its text); "
                 "connection/cid_state.rs CidState::{new,track_lifetime,next_timeout,on_cid_timeout,new_cids,on_cid_retirement,retire_prior_to} "
                 "(+ the test-only active_seq/assign_retire_seq, model only) under the issuing discipline of Endpoint::handle_event; "
                 "connection/ack_frequency.rs AckFrequencyState (all methods; f32 test bit-exact in the driver, opaque in the theorems) with the "
                 "peer's min/max_ack_delay through the real TransportParameters::read; "
                 "frame.rs scan_ack_blocks, AckIter, the ACK/ACK_ECN arm of Iter::try_next, Ack::encode; "
                 "connection/paths.rs PathResponses::{push,pop_off_path,pop_on_path,is_empty}; "
                 "connection/spaces.rs PendingAcks::{insert_one,subtract_below} over range_set ArrayRangeSet::{insert,insert_one,remove,pop_min}",
        not_modelled="frame::Iter for other frame types, packet/transport-parameter decoders, streams/datagrams/assembler handlers, "
                     "PendingAcks::packet_received / is_out_of_order (reordering threshold), Dedup panics, on_ack_received, the system-level frame-injection campaign (DESIGN 5.3 growth); "
                     "Instant::checked_add overflow in track_lifetime (inputs < 2^62 ns)",
    ),
}
