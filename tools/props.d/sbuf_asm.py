MICRO = {
    'sbuf': (2000, 40000, 60),
    'asm': (2000, 40000, 60),
}
PROPS = {
    'C01': dict(
        micro=['sbuf', 'asm'],
        modelled="send_buffer.rs SendBuffer (write, poll_transmit, get, ack, retransmit, retransmit_all_for_0rtt, is_fully_acked, has_unsent_data, offset, unacked) with the in-flight frame multiset; range_set/btree_range_set.rs RangeSet (insert, pop_min, min, replace); assembler.rs Assembler (insert, read ordered/unordered, ensure_ordering, clear, bytes_read) as spec with observed choice (chunk boundaries are observed and validated; content, read index, received ranges, live buffered coverage are predicted exactly)",
        not_modelled="BinaryHeap layout, allocation accounting and defragmentation timing of the Assembler (any coverage-preserving re-layout is allowed; TooManyChunks only as an allowed outcome after >1024 pushes); Recv/Send stream state machines, end-of-stream and reset reporting, and the end-to-end composition over the network (DESIGN 5.1 growth items); Bytes refcounting",
    ),
}
