_M = ('migrate', 40, 600)
PROPS = {
    'C15': dict(sim=[_M],
                modelled='the remote check at the top of handle_event, the migration trigger at the end of process_payload, migrate (new unvalidated path with challenge, previous path remembered unless an unvalidated one is being left, PathValidation timer), PATH_RESPONSE handling, handle_timeout(PathValidation); every observed path transition of established connections in the simulator (packets from any address, responses, timeouts) is validated against PathM.step by the native driver',
                not_modelled='CID rotation on migration, path MTU/congestion reset, the PATH_CHALLENGE/RESPONSE frames themselves (tokens are abstract), handshake-time address handling; the anti-amplification limit on the new path is C07'),
}
