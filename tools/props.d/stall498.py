# C12 in-flight ledger oracle (harness/src/inflight.rs) runs inside scenarios `pathv` and `migrate`; `pathv` is added to
# C12 with the corpus seeds of the two findings it produced (raw seeds):
#   3000498  ACK + PATH_CHALLENGE on an unvalidated path stored as padded / not ack-eliciting (fix-path-challenge-ack-eliciting)
#   1000474  ACK + STREAMS_BLOCKED stored as not in flight / not ack-eliciting (fix-streams-blocked-ack-eliciting)
PROPS = {
    'C12': dict(sim=[('pathv', 12, 200, [3000498, 1000474])],
                modelled='in-flight ledger on every snapshot of scenarios pathv and migrate (harness/src/inflight.rs): for the current and the remembered previous path object, bytes / ack-eliciting packets counted in flight equal the sizes / number of the unresolved packets of that path generation judged by the frames the harness saw them built with (RFC 9002 2), and an unresolved ack-eliciting packet on the current path of a confirmed connection keeps the loss-detection timer armed (RFC 9002 A.8)',
                not_modelled='which packets the sender will mark ack-eliciting is an INPUT of the Lean ledger (Op.sent size ae gen): the prediction made by poll_transmit before populate_packet writes the frames is checked by the simulator oracle only'),
}
