_X = ('xfer', 40, 800, [2000027])   # corpus seed: PTO backoff of futile Handshake probes carried into the Data space (fixed in b80cd3d)
_M = ('migrate', 12, 200, [3000061])   # corpus seed: stall after a failed path validation (fixed in 8371620)
PROPS = {
    'C02': dict(sim=[_X, _M],
                modelled='set_loss_detection_timer / pto_time_and_space / loss_time_and_space (timer arming decision incl. the client anti-deadlock rule), the send gate of poll_transmit (probes and close exempt from congestion control and pacing), the anti-amplification gate; at every quiescent point of every simulated connection the armed-timer requirement derived by the Lean model is compared with the harness and checked against the real timer table (oracle unarmed-timer)',
                not_modelled='liveness itself (completion under fair loss) is checked on real endpoints by the simulator, not proved; pacing token arithmetic, congestion controller dynamics (C12), stream-level credit return (C06) are separate models'),
}
