MICRO = {
    'streams': (3000, 30000, 60),
}
_MODELLED = ("streams/state.rs (StreamsState: new, set_params, received, received_reset, received_stop_sending, "
             "received_max_data/_stream_data/_streams, received_ack_of, retransmit, reset_acked, retransmit_all_for_0rtt, "
             "zero_rtt_rejected, poll, queue_max_stream_id, write_control_frames, write_stream_frames, add_read_credits, "
             "stream_freed, ensure_remote_streams, set_max_concurrent, set_send_window, set_receive_window), "
             "streams/mod.rs (Streams::open/accept, SendStream::write/finish/reset/stopped/set_priority, "
             "RecvStream::read/stop/received_reset, PendingStreamsQueue), streams/send.rs (Send), streams/recv.rs "
             "(Recv, Chunks with ordered reads), send_buffer.rs and assembler.rs by offsets only")
_NOT = ("data content of SendBuffer/Assembler, unordered reads, Assembler defragmentation and the TooManyChunks "
        "limit (component sbuf-asm), packet-space limits of write_control_frames (flushed with unbounded room), "
        "Connection glue other than the three `pending.max_data = true` reactions and the 0-RTT `pending` reset")
PROPS = {
    'C11': dict(micro=['streams'], modelled=_MODELLED, not_modelled=_NOT + "; the error mapping of the async wrappers (quinn/src/{send,recv}_stream.rs)"),
    'C17': dict(micro=['streams'], modelled=_MODELLED, not_modelled=_NOT + "; Connection::init_0rtt / handshake branch / server side and packet-level exactly-once (system simulator)"),
    'C06': dict(micro=['streams'], modelled=_MODELLED, not_modelled=_NOT + "; datagram and CRYPTO buffer limits (other components)"),
    'C05': dict(micro=['streams'], modelled=_MODELLED, not_modelled=_NOT + "; wire-level credit ledger (system simulator)"),
}
