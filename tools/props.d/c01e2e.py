# C01 end to end: composition theorem (Props/C01_e2e.lean is picked up by its name). The composition uses the
# definitions already tied to the code by the `sbuf`, `asm` and `streams` differentials; its receiver-side glue
# (Streams/EndToEnd.lean deliver / read / openRead / stop: Recv decisions + Assembler + Chunks::new/next) is tied by
# the exact micro-differential `rcv` (real StreamsState + RecvStream/Chunks on one stream vs the composed model).
MICRO = {
    'rcv': (2000, 40000, 60),
}
PROPS = {
    'C01': dict(
        micro=['rcv'],
        modelled="end-to-end composition for one stream (Streams/EndToEnd.lean, Props/C01_e2e.lean): SendBuffer + frames in flight under the Send state machine (write with any chunking / limit, finish, reset, STOP_SENDING, poll_transmit + copy loop, ack / loss of any frame in flight in any order) x a network that delivers any frame ever transmitted any number of times in any order or never x Recv::ingest / reset / stop + the end-of-stream test of Chunks::next over the Assembler (ordered / unordered reads, any max_length, mode switch): delivered_is_written, no_duplicate_delivery, fin_only_after_all, reset_code_is_senders, frames_within_written, nothing_forgotten, honest_frames_no_final_size_error over ALL runs; Recv final size monotone over ALL frame sequences",
        not_modelled="several streams sharing a connection, packetisation (which frames share a packet; an acknowledgement or loss report is per frame here), flow-control windows (arbitrary inputs of the events), the PendingStreams queue (a pending stream is assumed to be picked eventually: fairness is C02's), 0-RTT re-sending",
    ),
}
