_X = ('xfer', 24, 400)
_A = ('amp', 40, 600)
# 'the same on a new path after any address change': the path scenario's ledger is armed by the HARNESS' notion of a
# validated address (Handshake packet / PATH_RESPONSE with the right token seen from it), not by the connection's flag
_PV = ('pathv', 24, 300)
# the generic oracle of the simulator (sim.rs::on_transmit) on migrating connections: armed by crate::addrval (harness-derived
# causes of validation: Handshake packet of the peer delivered, token the endpoint issued, PATH_RESPONSE echoing a challenge)
_MG = ('migrate', 24, 300)
PROPS = {
    'C07': dict(sim=[_X, _A, _PV, _MG],
                modelled='paths.rs anti_amplification_blocked (generated), the gated datagram loop of poll_transmit, crediting in handle_event/handle_coalesced/handle_first_packet, migrate (fresh path), Endpoint::stateless_reset size arithmetic and rate limit; every observed path transition (new/rx/foreign/tx) of the simulator is validated against the Lean model; whether a received datagram may validate the path is PREDICTED from causes the harness derives from the peer\'s transmit record (Conn/Amplification rxVerdict), and the 3x oracle is armed by those causes, never by path.validated',
                not_modelled='what the packet builder puts in a datagram; MTU probes / PATH_CHALLENGE to the previous path / off-path PATH_RESPONSE are sent outside the gated loop (observed by the simulator oracle, not in the model); short-Initial decision of Endpoint::handle'),
}
