_D = ('determ', 8, 120)
_DC = ('determcc', 8, 80)
_C = ('close', 30, 300)
_H = ('hostile', 12, 600, [2000194])   # corpus seed: the pacing timer re-armed at `now` (fixed in ecb8a58)
# the only scenario with CID lifetimes (Timer::PushNewCid) and endpoint events routed between timeout rounds: its settle
# oracle (timeout-settle-not-reached / steps-without-time-advance) belongs to C20
_MU = ('multi', 60, 600)
PROPS = {
    'C20': dict(sim=[_D, _DC, _C, _H, _MU],
                modelled='STATIC: the list of every construct of quinn-proto production code that reads a clock, OS entropy, the environment, a thread or iterates a randomly keyed std HashMap/HashSet is regenerated from the source (tools/gen.d/entropy.py -> Gen.hiddenInputs) and proved equal to the committed, justified allowlist; PathData::new/reset building controllers with build_seeded(Connection.rng) is shape-anchored; the tail of Pacer::delay (a wake-up instant only when the delay is non-zero; shape anchored); timer.rs TimerTable (set/stop/get/next_timeout/is_expired, Timer::VALUES order: generated), the lifecycle timers (Close, Idle) and every lifecycle event carrying an instant; TimerTable::next_timeout and the expired set are validated against the model at every serviced timeout of the simulator',
                not_modelled='hidden-input freedom of the Rust code is checked statically by text patterns (a source of entropy reached through another crate or a pattern not on the list is not seen) and differentially (replay / shifted replay / spurious handle_timeout, poll_transmit and poll calls on whole simulated connections; controller-visible state of NewReno/Cubic/BBR across replays in determcc), not proved; loss-detection, pacing, key-discard, path-validation, CID and ack-delay timer expressions are not in the Lean model (growth)'),
}
