_D = ('determ', 8, 120)
_C = ('close', 30, 300)
_H = ('hostile', 12, 600, [2000194])   # corpus seed: the pacing timer re-armed at `now` (fixed in ecb8a58)
PROPS = {
    'C20': dict(sim=[_D, _C, _H],
                modelled='the tail of Pacer::delay (a wake-up instant only when the delay is non-zero; shape anchored); timer.rs TimerTable (set/stop/get/next_timeout/is_expired, Timer::VALUES order: generated), the lifecycle timers (Close, Idle) and every lifecycle event carrying an instant; TimerTable::next_timeout and the expired set are validated against the model at every serviced timeout of the simulator',
                not_modelled='hidden-input freedom of the Rust code is checked differentially (replay / shifted replay / spurious calls on whole simulated connections), not proved; loss-detection, pacing, key-discard, path-validation, CID and ack-delay timer expressions are not in the Lean model (growth)'),
}
