"""C06 "credit is returned to the peer only for data the application has consumed or discarded": the credit quinn returns
is computed from `Assembler::bytes_read` and the bytes `Chunks` hands out, so a receive buffer that hands out a byte twice
(or counts one it did not hand out) returns credit for data that was never consumed.  The `asm` component (exact
differential of the real Assembler against Data/Assembler.lean, oracles asm-duplicate-delivery / asm-bytes-read) and the
`rcv` component (one receive stream through StreamsState + RecvStream/Chunks) therefore also run under C06."""
PROPS = {
    'C06': dict(micro=['asm', 'rcv'],
                modelled='receive buffer accounting behind the returned credit (Assembler bytes_read / no byte handed out twice, incl. the ordered-to-unordered switch), through the asm and rcv exact differentials',
                not_modelled=''),
}
