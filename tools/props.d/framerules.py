"""C03 growth: scenario `frames` — a genuinely authenticated hostile peer injecting arbitrary frames (hook H2)."""
PROPS = {
    'C03': dict(
        sim=[('frames', 40, 1500, [1000035, 1000601])],   # corpus: raw seeds that exhibited MAX_STREAM_DATA-beyond-limit (phantom streams)
        modelled="system level (scenario frames): a real Connection as hostile but authenticated peer emits attacker-chosen frame bytes "
                 "in correctly protected Initial/Handshake/1-RTT packets (Connection::verif_inject_frames); oracles on the honest side: no panic, "
                 "bystander unaffected, legal datagrams never close the victim, the victim's workload content oracle on the legal prefix, queue sizes / "
                 "opened-stream count within configuration-derived bounds, CONNECTION_CLOSE code = reported code, bounded steps; "
                 "Conn/FrameRules.lean: frame admissibility / error-class table mirroring process_early_payload / process_payload, read_crypto, on_ack_received (error exits), "
                 "PacketNumberFilter::check_ack, the STREAM_DATA_BLOCKED / STREAMS_BLOCKED / STOP_SENDING / NEW_TOKEN / HANDSHAKE_DONE / PATH_RESPONSE arms, received_max_stream_data, "
                 "reusing Streams (validate_receive_id, Recv::ingest, Recv::reset, received_max_streams), CidQueue.onNewConnectionId, CidState.onCidRetirement, "
                 "AckFrequency.ackFrequencyReceived, Datagrams.received; 40 T1 anchors (tools/gen.d/framerules.py) pin every check and the code it returns; "
                 "T2: every processed injected datagram is a `frules` request (facts observed before the datagram) whose predicted outcome must equal the observed one",
        not_modelled="0-RTT packets (the two is_0rtt PROTOCOL_VIOLATION cases); the TLS engine's reaction to CRYPTO bytes and the CRYPTO assembler's chunk limit (verdict `may`); "
                     "frames whose facts an earlier frame of the same datagram may have changed are judged only by the code list of their kind; hostile transport parameters",
    ),
}
