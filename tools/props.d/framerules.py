"""C03 growth: scenario `frames` — a genuinely authenticated hostile peer injecting arbitrary frames (hook H2)."""
PROPS = {
    'C03': dict(
        sim=[('frames', 40, 1500, [1000035, 1000601])],   # corpus: raw seeds that exhibited MAX_STREAM_DATA-beyond-limit (phantom streams)
        modelled="system level (scenario frames): a real Connection as hostile but authenticated peer emits attacker-chosen frame bytes "
                 "in correctly protected Initial/Handshake/1-RTT packets (Connection::verif_inject_frames); oracles on the honest side: no panic, "
                 "bystander connection unaffected, queue sizes / opened-stream count within configuration-derived bounds after every injected datagram, bounded steps",
        not_modelled="legal datagrams must not close the victim, A's workload content oracle holds on the legal prefix; NOT modelled: the frame admissibility / error-class table as a Lean model (Conn/FrameRules.lean, op frules) is not built yet: the scenario records the "
                     "request lines only with VERIF_FRULES=1; 0-RTT packets; hostile transport parameters",
    ),
}
