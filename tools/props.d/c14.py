MICRO = {
    'token': (1500, 30000, 50),
    'bloomlog': (1500, 30000, 60),
    'tokencache': (1500, 30000, 60),
}
PROPS = {
    'C14': dict(
        micro=['token', 'bloomlog', 'tokencache'],
        modelled="token.rs (Token::encode/decode payload coding for Retry and Validation payloads, IncomingToken::from_header) with the AEAD ideal by hypothesis; bloom_token_log.rs BloomTokenLog::check_and_insert (period/turn-over exact, filter = exact set + mode, bloom false positives and HashSet-capacity conversion as observed choices); token_memory_cache.rs TokenMemoryCache store/take (LruSlab as MRU list)",
        not_modelled="AEAD/HKDF internals (real ring AES-256-GCM in the executor, ideal in the model); NoneTokenLog/custom TokenLog other than the three log kinds driven; Endpoint::retry / handle_first_packet glue executed end to end (the CID plumbing of accept/retry/from_header is tied by the T1 shape anchors of Gen/CidEcho; client Retry test and CID echo: component cidecho, Props/C14_echo); pre-epoch issue times; optimal_k_num (f64)",
    ),
}
