"""C06 clause "excessive handshake data ... CRYPTO_BUFFER_EXCEEDED": no micro component drives read_crypto, so the
limit is probed on the whole connection by scenario `frames` (authenticated hostile peer; CRYPTO frames whose end lies
one below, at, and 1..len bytes beyond read offset + crypto_buffer_size while they start inside the buffer).  Oracle
`crypto-buffer-limit-not-enforced` is computed from the property text / RFC 9000 7.5 over the frame the harness built
and the configured size, not from the model; the same frames are also judged by Conn/FrameRules.cryptoV (T2)."""
PROPS = {
    'C06': dict(sim=[('frames', 24, 600)],
                modelled='CRYPTO buffer limit on the whole connection (scenario frames: limit probed from one below to a frame length above; oracle crypto-buffer-limit-not-enforced; Conn/FrameRules.cryptoV compared per injected frame)',
                not_modelled=''),
}
