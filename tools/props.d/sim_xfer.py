# the transfer scenario family exercises the glue of many properties at once; each property only counts
# the oracle keys mapped to it in tools/simrun.py
_X = ('xfer', 24, 400)
_MTU = ('mtu', 200, 4000)
_H = ('hostile', 120, 1500)
_Z = ('zrtt', 60, 1500)
PROPS = {
    'C17': dict(sim=[_Z], modelled='0-RTT end-to-end (system simulator, scenario zrtt): resumption with early data written before the handshake completes, acceptance or rejection by the server (fresh TLS state), loss masks on the first flights; content oracle on both outcomes (accepted: delivered once; rejected: nothing from the attempt reaches the application, the client restarts on fresh streams), no flow-control error between honest peers, completion'),
    'C02': dict(sim=[_Z]),
    'C05': dict(sim=[_Z, _X]),
    'C01': dict(micro=['streams'], sim=[_X, _Z], modelled='Recv::ingest / StreamsState::received (what reaches the Assembler) through the exact `streams` micro-differential; end-to-end delivery (system simulator, scenarios xfer and zrtt): content/prefix/disjointness/fin oracle on every stream of both real endpoints under loss, duplication, reordering, corruption, truncation and replay'),
    'C06': dict(sim=[_X]),
    'C11': dict(sim=[_X]),
    'C12': dict(sim=[_X, ('migrate', 12, 200)], modelled='in-flight accounting end-to-end (scenarios xfer, migrate): bytes in flight return to zero once everything is acknowledged; aborted and completed migrations (packets abandoned with the path)'),
    'C16': dict(sim=[_X, _MTU], modelled='datagram admission end-to-end (scenario mtu): application datagrams of every size up to and above max_size() sent throughout, also while the path is a black hole; send() accepts exactly what fits the reported maximum and the buffer, Blocked only without space and never with drop, max_size() <= MTU estimate, and no datagram stays queued for ever once everything else is done'),
    'C03': dict(sim=[_H], modelled='unauthenticated input end-to-end (system simulator, scenario hostile): random and structure-aware mutated datagrams injected into both real endpoints while two connections run: no panic anywhere, the connection that is not attacked is unaffected, connection table bounded'),
    'C13': dict(sim=[_MTU, _X], modelled='datagram sizing end-to-end (system simulator, scenarios mtu and xfer): every Transmit of both peers checked against the MTU estimate of its time (one single probe excepted), probes against min(upper_bound, peer max_udp_payload_size), rises of the estimate against the probes sent, GSO segment counts, and completion of bulk workloads while the path MTU changes (black-hole fallback)'),
    'C04': dict(sim=[_X, _H], modelled='forged datagrams end-to-end (scenario hostile): no established connection ends or stalls under unauthenticated injection, a handshake fails only by Version Negotiation; receive pipeline observed end-to-end: per frame type, frames processed by the receiver <= frames sent by the sender under duplication/replay/corruption/truncation (public ConnectionStats)'),
}
