# the transfer scenario family exercises the glue of many properties at once; each property only counts
# the oracle keys mapped to it in tools/simrun.py
_X = ('xfer', 24, 400)
PROPS = {
    'C04': dict(sim=[_X], modelled='receive pipeline observed end-to-end: per frame type, frames processed by the receiver <= frames sent by the sender under duplication/replay/corruption/truncation (public ConnectionStats)'),
}
