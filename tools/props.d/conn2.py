# unauthenticated / off-path inputs at connection level (harness/src/scen_conn.rs, harness/src/ledger.rs)
_CI = ('closedinj', 120, 2000)
_OP = ('offpath', 80, 1500)
PROPS = {
    'C04': dict(sim=[_CI],
                modelled='receive pipeline rows for closed / draining / drained connections (Conn/Receive.lean `closedStep`): packets without packet protection (Retry, Version Negotiation) are discarded before any frame parsing',
                not_modelled=''),
    'C08': dict(sim=[_CI],
                modelled='',
                not_modelled='authenticated late errors other than stateless reset (reserved bits, key update errors) in closed states'),
    'C07': dict(sim=[_OP],
                modelled='Version Negotiation reply size against the inciting datagram (Endpoint/FirstPacket.lean), off-path PATH_RESPONSE budget (Conn/Amplification.lean `OffPath`), first-packet decision of Endpoint::handle / handle_first_packet (Endpoint/FirstPacket.lean)',
                not_modelled='cumulative per-address budget across re-migrations (recorded finding amplification-limit-exceeded-cumulative)'),
}
