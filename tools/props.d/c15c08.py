# scenario pathv (harness/src/scen_path.rs): C15 oracles computed from the sender's plaintext log and source addresses
_P = ('pathv', 40, 600)
PROPS = {
    'C15': dict(sim=[_P],
                modelled='the validation deadline as a function: Timer::PathValidation = now + K * max(PTO new path, PTO old path) with K regenerated from migrate() (Gen/PathV.lean) and proved to be the 3 of the property (new_path_unvalidated, held_at_most_3pto over every continuation without a further migration); in scenario pathv every server transition is replayed through PathM.step with a trigger bit (non-probing and highest packet number), a token match and PTOs computed by the HARNESS from the sender\'s plaintext packet log, the datagram source addresses and the RTT samples (RFC 9002 formula), not from the outcome',
                not_modelled='which connection ID a migrating endpoint uses (scenario oracle path-cid-not-changed-on-migration only); RFC 9000 8.2.3 lets a PATH_RESPONSE received on any path validate the path its challenge was sent on, quinn accepts it only from the path itself (stricter: neither demanded nor forbidden by the oracles)'),
}
