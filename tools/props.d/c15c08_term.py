# scenario term (harness/src/scen_term.rs): one property-derived oracle per clause of C08
_T = ('term', 100, 1500, [2000091])   # corpus: persistent CE marking, both sides silent (ACK-of-ACK loop, fixed)
PROPS = {
    'C08': dict(sim=[_T],
                modelled='Props/C08_term: the negotiated idle timeout equals RFC 9000 10.1 (Spec/Idle.lean, written from the RFC; quinn\'s negotiate_max_idle_timeout regenerated arm by arm), the idle period max(timeout, 3 PTO) and the closing period 3 PTO with factors regenerated from reset_idle_timeout / set_close_timer, the restart rule of the idle timer anchored (every authenticated packet; only the first ack-eliciting packet sent after one); the 3-PTO deadline kept until drained for peer closes and protocol errors too (peer_close_deadline_kept, peer_close_early_deadline_kept, pkt_err_deadline_kept); a drained connection that was not closed by its own application has reported its reason or has it pending (drained_implies_reported)',
                not_modelled='WHICH reason is reported and its bytes (scenario term oracles lost-wrong-reason / close-reason-bytes-differ, derived from what the harness made the peers send), the RTT estimator (PTO is an argument of the theorems; the scenario computes it by the RFC 9002 formula from the RTT samples)'),
}
