"""C04: key updates in the 1-RTT receive pipeline (component `keyupd`, model Conn/KeyUpdate.lean, theorems
Props/C04_keyupd.lean); C03: its `rx` ops are peer-reachable (panic class, harness/src/opclass_keyupd.rs)."""
MICRO = {
    'keyupd': (3000, 40000, 12),
}
PROPS = {
    'C04': dict(
        micro=['keyupd'],
        modelled="key selection and key updates of the 1-RTT receive pipeline: packet_crypto.rs decrypt_packet_body (key-phase bit vs. "
                 "key_phase, prev_crypto with end_packet / update_unacked, next_crypto, AEAD before the reserved-bit test before the "
                 "KEY_UPDATE_ERROR tests), Connection::{decrypt_packet, update_keys, force_key_update, set_key_discard_timer}, the "
                 "KeyDiscard and Close arms of handle_timeout, the failure counter / AEAD_LIMIT_REACHED arm, duplicate filter and "
                 "on_packet_authenticated of handle_packet, poll_transmit clearing update_unacked, the routine update of "
                 "PacketBuilder::new - executed on a real established Connection whose crypto session and 1-RTT keys are harness "
                 "fakes (a key of generation g opens exactly the packets tagged g), exact comparison of the key state after every "
                 "request; guards translated by T1 (Gen.ku*), statement order pinned by 9 shape anchors; oracles derived from the "
                 "property / RFC 9001 section 6 (C04-forged-packet-changed-state, C04-packet-processed-twice, "
                 "C04-genuine-packet-rejected, C04-key-update-error-class, C04-old-keys-dropped-early, C04-old-keys-kept-too-long, "
                 "C04-acked-with-old-keys, C04-local-update-before-ack); theorems over all request sequences (Props/C04_keyupd.lean)",
        not_modelled="0-RTT keys sharing Timer::KeyDiscard (server side), the ACK frame path itself (op ackd applies only its effect on largest_acked_packet: no RTT sample, PTO constant; an ACK of an unsent packet is refused by the executor), the unconfirmed-handshake guard of force_key_update (the component's connection has discarded its Handshake keys), packet number expansion "
                     "across key updates (component sends 4-byte numbers; Conn/RxPn.lean), header protection (identity in the component)",
    ),
    'C03': dict(
        micro_panics=['keyupd'],
    ),
}
