_C = ('close', 60, 900, [1000006, 1000011, 1000075])
_X = ('xfer', 24, 400)
PROPS = {
    'C08': dict(sim=[_C, _X],
                modelled='close_inner/close_common/set_close_timer/kill, the error->state mapping at the end of handle_packet, peer close in process_payload and process_early_payload, Closed->Draining, handle_timeout(Idle|Close), poll (ConnectionLost delivery), close/drained branches and the send gate of poll_transmit (generated flag for the close exemption); every observed lifecycle transition of the simulator (close(), timeouts, datagrams changing the state, idle-timer restarts) is validated against Life.step by the native driver',
                not_modelled='RTT estimator (3*PTO is an input of the close event), idle-timeout bounds (checked by the simulator oracle only), Endpoint forgetting the connection (C09)'),
}
