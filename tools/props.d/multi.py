# scenario `multi` (harness/src/scen_multi.rs): many connections on one server endpoint / several client endpoints.
# Oracle keys `routing-*` and `isolation-*` are evidence against C09; `routing-forgotten-*` also against C08
# ("is then forgotten by the endpoint, so its identifiers stop routing and its slot can be reused"): see KEYMAP in simrun.py.
# corpus (raw seed): 1000014 = NEW_CONNECTION_ID retransmitted with retire_prior_to > sequence
# (fixed by fix-new-cid-retire-prior-to.patch: the seed must stay clean).
# 1001139 = recorded finding routing-rotation-exceeds-peer-cid-limit, 1001706 = routing-reset-token-entry-lost,
# 2001521 = routing-reset-token-reused-with-cid-value (raw seeds that reproduce them on the current tree: the seeds in
# known_findings.txt predate later changes of the scenario): every check re-observes the recorded findings under their
# NARROW keys (scen_multi.rs: `...-other-cause` keys are violations).
_M = ('multi', 300, 3000, [1000014, 1001139, 1001706, 2001521])
PROPS = {
    'C09': dict(sim=[_M],
                modelled='routing and isolation end-to-end (system simulator, scenario multi): 3..8 concurrent connections on one server endpoint and on 1..5 client endpoints, CID lengths 0..20 on both sides, seeded / Random / Hashed generators, CID lifetimes forcing rotation, handles, slab slots and 1-2 byte CID values reused, Incoming held / delayed / stale / retried / refused / ignored, client address changes (also two in a row); every datagram handed to a connection is justified from a ledger of issued CIDs (handshake CID + NEW_CONNECTION_ID frames of the plaintext transmit log), initial DCIDs, address tuples and reset tokens; per-connection salted content; endpoint tables compared with the open set and with each connection\'s CidState after every step',
                not_modelled='zero-length CIDs with more than one connection per address tuple / remote, Retry with server CIDs shorter than 3 bytes (recorded findings, VERIF_MULTI_NOEXCL=1 replays them); quinn/src/endpoint.rs ConnectionSet'),
    'C08': dict(sim=[_M],
                modelled='forgotten by the endpoint (scenario multi): after a connection drained on both sides its old datagrams and datagrams ending in every reset token it issued are sent again from every address it ever had; Endpoint::handle must not return a ConnectionEvent for a handle that is not open (vacant or reused slot), and the endpoint tables must hold nothing for a handle that is not open'),
}
