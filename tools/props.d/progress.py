# scenario `progress` (harness/src/scen_progress.rs) and the C02 oracles of the `streams` generator.
# Keys: wedge-quiescent-with-obligation, progress-wedge, handshake-never-completed, connection-lost-under-fair-loss,
# workload-incomplete (simulator) and C02-writable-lost, C02-available-lost, C02-max-streams-not-queued, C02-readable-lost
# (micro generator `streams`, the last one in gen/streams_hist.rs): all C02.
# One seed of `progress` is a random execution (all TransportConfig knobs + run-time API calls), or the 510 loss masks over
# the first 8 handshake datagrams, or the 255 masks over 8 consecutive transfer datagrams (see PROGRESS_RULE).
_P = ('progress', 24, 400)
PROPS = {
    'C02': dict(micro=['streams'], sim=[_P],
                modelled='stream layer (Lemmas/StreamsProgress.lean): an application polling until nothing is reported is handed every queued event; MAX_STREAMS that makes room for a refused opener yields Available; MAX_STREAM_DATA / connection-level credit that makes room for a refused writer yields Writable (for every state of the StreamsState model); a STREAM frame / RESET_STREAM accepted on a receiving half the application has not stopped yields Readable, or Opened for a stream the application does not hold yet (Props/C02 readable_after_data / readable_after_reset); a slot of the peer given back by an application call (stop on a stream with known final size, a read to the end, received_reset) is queued for MAX_STREAMS by that call when the unannounced raise is significant (Lemmas/StreamsAnnounce.lean, Props/C02 stop_announces_freed_slot / read_announces_freed_slot / received_reset_announces_freed_slot); the same facts as oracles of the `streams` generator on the real StreamsState (C02-writable-lost, C02-available-lost, C02-readable-lost, C02-max-streams-not-queued; ghost credit / ghost read offset from the peer frames and the calls of the test itself); system level (scenario progress): every TransportConfig knob, run-time API calls at any step, exhaustive 8-datagram loss masks on handshake and transfer, judged by completion within a PTO-derived bound and by the property-derived oracle wedge-quiescent-with-obligation at every globally quiescent point',
                not_modelled='remotely initiated bidirectional streams in writable_after_credit; a poll that panics (debug assertion) is outside the delivery theorems'),
}
