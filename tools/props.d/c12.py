MICRO = {
    'sentpk': (1500, 30000, 60),
    'cc': (1500, 30000, 60),
}
PROPS = {
    'C12': dict(
        micro=['sentpk', 'cc'],
        modelled="sent_packets.rs SentPackets::{insert,remove,get,has_in_flight,range,values_mut,into_values} (ring with holes, front reclamation, in_flight counter); spaces.rs PacketSpace::{sent,take} (unacked_non_ack_eliciting_tail, largest_ack_eliciting_sent, forgotten tail); paths.rs InFlight::{insert,remove}, PathData::{sent,remove_in_flight} (generation check); the take+remove_in_flight / mem::take loops of Connection::{on_ack_received,detect_lost_packets,discard_space,Retry,0-RTT rejection} over one path and three spaces; congestion/new_reno.rs exactly (incl. the f32 halving and u64 overflow panics); congestion/cubic.rs integer skeleton (slow start, cwnd_inc credit, ssthresh/window clamps, persistent congestion, spurious-event restore, MTU update) with w_cubic/w_est/cubic_inc/beta-reductions as observed inputs; congestion/bbr/mod.rs window-relevant skeleton (round/recovery state machine, calculate_cwnd clamp, calculate_recovery_window, on_mtu_update, window()) with the bandwidth sampler, ack aggregation, mode machine and target windows as observed inputs; the congestion test of Connection::poll_transmit (generated); the loss decision of Connection::detect_lost_packets (candidate range, packet_too_old, packet/time threshold disjunction, loss_delay >= TIMER_GRANULARITY: generated; rtt*time_threshold opaque) on an abstract loss-free in-order path",
        not_modelled="more than one path (prev_path / migration), PacketNumberFilter, persistent congestion / loss_time / MTU-probe handling of detect_lost_packets, detect_spurious_loss, pacing; the poll_transmit exemptions (probes, MTU probes, path validation, close) are delimited, not proved; BBR's mode machine / bandwidth estimation are inputs, not modelled; release-build wrapping arithmetic",
    ),
}
