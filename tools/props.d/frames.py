"""C10 growth: frames, transport parameters, connection ids and plaintext headers (components `frame`, `tparams`, `header`)."""
MICRO = {
    'frame': (1500, 40000, 30),
    'tparams': (1500, 40000, 12),
    'header': (1500, 40000, 16),
}
PROPS = {
    'C10': dict(
        micro=['frame', 'tparams', 'header'],
        modelled="frame.rs (every frame encoder, frame::Iter::{new,try_next,next}, take_len, scan_ack_blocks; frame type table, flag masks and SIZE_BOUNDs generated from the source), transport_parameters.rs (TransportParameters::{write,read}, PreferredAddress::{write,read}, ReservedTransportParameter::write, decode_cid; ids/defaults/SUPPORTED order/validation literals generated from the source; write order and grease parameter as explicit inputs), shared.rs ConnectionId::{encode_long,decode_long}, packet.rs Header::encode + PartialEncode::finish length patch (identity header protection) + ProtectedHeader::decode + PartialDecode::new",
        not_modelled="AckIter (range reconstruction from the validated blocks; separate task), the STREAM offset+len < 2^62 and MAX_STREAMS <= 2^60 checks (they live in streams/recv.rs and streams/state.rs in this checkout, not in frame::Iter), header protection, tokens",
    ),
}
