"""C13 "every UDP datagram a connection emits is no larger than its current path-MTU estimate" includes the datagram
that carries CONNECTION_CLOSE: scenario `close` draws application error codes of every varint width (.., 16383, 16384,
2^30-1, 2^30, 2^32-1) and reasons of 0..3000 bytes (truncated by ApplicationClose::encode), at any point of the
handshake or transfer; the simulator's size oracle (datagram-exceeds-mtu) judges every Transmit."""
PROPS = {
    'C13': dict(sim=[('close', 30, 300)],
                modelled='size of the closing datagram for every error-code width and reason length (scenario close, oracle datagram-exceeds-mtu)',
                not_modelled=''),
}
