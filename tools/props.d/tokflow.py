# scenario `tokflow` (harness/src/scen_token.rs): NEW_TOKEN / Retry tokens through REAL endpoints over 3..10 connection
# attempts, most ways an attempt can fail; oracle keys `token-*` -> C14 (KEYMAP in simrun.py).
# Lean: Props/C14_flow (connection-level composition with the TokenMemoryCache model), anchors tools/gen.d/tokflow.py.
_TF = ('tokflow', 1500, 30000)
PROPS = {
    'C14': dict(sim=[_TF],
                modelled='client side at connection level (Conn/TokenFlow.lean, Props/C14_flow): over all histories of connect (the store\'s take) / Initial sent / Retry followed / NEW_TOKEN received (the store\'s insert) / Initial keys discarded / attempt ended in any way, and every cache capacity, each token is in the Initials of at most one attempt, is one a server issued, and is never both stored and in use; T1 anchors: the TokenStore is touched at two sites under quinn-proto/src/connection/ only, the client token is written by take, the Retry arm and discard_space(Initial) only and read by the Initial header only. System level (scenario tokflow): tokens issued, stored, taken, presented and judged by real endpoints; oracles from ledgers of NEW_TOKEN frames written, Retry packets sent, Initial token fields on the wire, store calls, source addresses and virtual time',
                not_modelled='the server side at system level is tested, not proved (the decision itself is Props/C14 token_validates_iff / bloom_single_use at component level); honouring of genuine tokens is demanded only with the default Bloom budget (exact set) and when no younger token was presented before (a period log forgets the past: see NOTES of tokflow, observation O1); application-provided TokenStore implementations other than TokenMemoryCache'),
}
