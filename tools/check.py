#!/usr/bin/env python3
"""./check <Cxx> [quick|thorough]  — decision procedure of DESIGN.md section 2.3.

exit 0: property held on everything explored (KNOWN-FINDING lines may be printed)
exit 1: a line `VIOLATION property=<id> replay=<path>` was printed
exit 2: infrastructure error (never a pass, never a violation)
"""
import fcntl, hashlib, json, os, re, subprocess, sys, time

ROOT = os.path.abspath(os.path.join(os.path.dirname(__file__), '..'))
sys.path.insert(0, os.path.join(ROOT, 'tools'))
import props as P  # noqa

CACHE = os.path.join(ROOT, '.cache')
LEAN = os.path.join(ROOT, 'lean')
HARNESS = os.path.join(ROOT, 'harness')
TARGET = os.path.join(CACHE, 'target')
ALLOWED_AXIOMS = {'propext', 'Classical.choice', 'Quot.sound'}
BANNED = re.compile(r'\b(sorry|admit|native_decide|bv_decide|implemented_by|unsafe)\b|^\s*axiom\s|maxHeartbeats\s+0')

def env():
    e = dict(os.environ)
    e.update(CARGO_NET_OFFLINE='true', CARGO_TARGET_DIR=TARGET, TMPDIR=os.path.join(CACHE, 'tmp'),
             VERIF_CORPUS=os.path.join(ROOT, 'corpus'))
    return e

def sh(cmd, cwd=None, timeout=3600, stdin=None):
    p = subprocess.run(cmd, cwd=cwd, env=env(), stdout=subprocess.PIPE, stderr=subprocess.STDOUT,
                       text=True, timeout=timeout, stdin=stdin)
    return p.returncode, p.stdout

class Lock:
    def __init__(self, name):
        os.makedirs(CACHE, exist_ok=True)
        self.f = open(os.path.join(CACHE, name), 'w')
    def __enter__(self):
        fcntl.flock(self.f, fcntl.LOCK_EX)
    def __exit__(self, *a):
        fcntl.flock(self.f, fcntl.LOCK_UN)

def strip_lean_comments(s):
    s = re.sub(r'/-.*?-/', '', s, flags=re.S)
    return re.sub(r'--[^\n]*', '', s)

def prop_modules(pid):
    """Props/<pid>.lean plus Props/<pid>_*.lean (same property, further components)"""
    import glob
    d = os.path.join(LEAN, 'QuinnModel', 'Props')
    mods = [pid] if os.path.exists(os.path.join(d, f'{pid}.lean')) else []
    mods += sorted(os.path.basename(f)[:-5] for f in glob.glob(os.path.join(d, f'{pid}_*.lean')))
    return mods

def theorem_names(pid):
    """qualified as <module>.<theorem> (namespace QM.Props.<module>)"""
    out = []
    for m in prop_modules(pid):
        src = strip_lean_comments(open(os.path.join(LEAN, 'QuinnModel', 'Props', f'{m}.lean')).read())
        out += [f'{m}.{n}' for n in re.findall(r'^\s*theorem\s+([A-Za-z0-9_\.\']+)', src, flags=re.M)]
    return out

def imported_files(pid):
    """transitive closure of QuinnModel imports of Props/<pid>.lean"""
    seen, todo = set(), [f'QuinnModel.Props.{m}' for m in prop_modules(pid)]
    while todo:
        m = todo.pop()
        if m in seen:
            continue
        seen.add(m)
        path = os.path.join(LEAN, *m.split('.')) + '.lean'
        if not os.path.exists(path):
            continue
        for imp in re.findall(r'^import\s+(QuinnModel[\w\.]*)', open(path).read(), flags=re.M):
            todo.append(imp)
    return sorted(seen)

def closure_of(mods):
    seen, todo = set(), list(mods)
    while todo:
        m = todo.pop()
        if m in seen:
            continue
        seen.add(m)
        path = os.path.join(LEAN, *m.split('.')) + '.lean'
        if os.path.exists(path):
            todo += re.findall(r'^import\s+(QuinnModel[\w\.]*)', open(path).read(), flags=re.M)
    return seen

NO_TRACE = {'hostile', 'gate'}      # scenarios that emit no model trace

def gen_closure(pid, cfg):
    """Gen/<Name>.lean files this property depends on: through its theorems (import closure of its Props
    modules) and through the model front ends (Drv/*.lean) of its correspondence components.  Source
    anchors outside this closure are pinned to the committed baseline translation, so a change elsewhere in
    quinn neither breaks nor silently alters this property's check."""
    import glob
    mods = set(f'QuinnModel.Props.{m}' for m in prop_modules(pid))
    comps = set(c for c in cfg.get('micro', []))
    comps |= set(b[0] for b in cfg.get('bins', []))
    drv = {}
    for f in glob.glob(os.path.join(LEAN, 'QuinnModel', 'Drv', '*.lean')):
        src = open(f).read()
        for d in re.findall(r'^def\s+([A-Za-z0-9_]+)', src, flags=re.M):
            drv.setdefault(d, set()).add('QuinnModel.Drv.' + os.path.basename(f)[:-5])
    alias = {'udploop': 'udp'}
    for c in comps:
        mods |= drv.get(alias.get(c, c), set())
    if any(sc[0] not in NO_TRACE for sc in cfg.get('sim', [])):
        mods.add('QuinnModel.Drv.Conn')     # these scenarios emit amp/life/timers/pathm/lossd trace ops
    return sorted(m.split('.')[-1] for m in closure_of(mods) if m.startswith('QuinnModel.Gen.'))

def step_translate(res, only=None, fallback=False):
    cmd = [sys.executable, os.path.join(ROOT, 'tools', 'gen_from_source.py')]
    if only is not None:
        cmd += ['--only', ','.join(only)]
    if fallback:
        cmd += ['--fallback']
    rc, out = sh(cmd)
    if rc != 0:
        infra(f'gen_from_source failed:\n{out}')
    info = json.loads(out.strip().splitlines()[-1])
    res['t1_anchors'] = info['anchors']
    res['t1_gen_files'] = only
    res['t1_outside_closure'] = info.get('outside_closure', [])
    return info['breaks']

DRIVER = [os.path.join(LEAN, '.lake', 'build', 'bin', 'driver')]
MODEL_OK = [True]

def step_lake(pid, res, targets=None):
    rc, out = sh(['lake', 'build'] + (targets or ([f'QuinnModel.Props.{m}' for m in prop_modules(pid)] + ['driver'])), cwd=LEAN)
    res['lake_rc'] = rc
    if rc != 0:
        errs = re.findall(r'error: ([^\n]+)', out)
        return [e for e in errs if 'build failed' not in e][:20], out
    return [], out

def keep_driver(pid):
    """private copy of the linked driver: a concurrent check of another property may relink it"""
    import shutil
    src = os.path.join(LEAN, '.lake', 'build', 'bin', 'driver')
    dst = os.path.join(CACHE, f'driver-{pid}')
    if os.path.exists(src):
        shutil.copy2(src, dst + '.tmp'); os.replace(dst + '.tmp', dst)
        DRIVER[0] = dst

def step_audit(pid, res):
    """banned tokens + #print axioms of every theorem in Props/<pid>"""
    problems = []
    for m in imported_files(pid):
        path = os.path.join(LEAN, *m.split('.')) + '.lean'
        if os.path.exists(path):
            for i, line in enumerate(strip_lean_comments(open(path).read()).splitlines()):
                if BANNED.search(line):
                    problems.append(f'banned token in {m}: {line.strip()[:80]}')
    names = theorem_names(pid)
    os.makedirs(os.path.join(CACHE, 'audit'), exist_ok=True)
    f = os.path.join(CACHE, 'audit', f'Audit_{pid}.lean')
    with open(f, 'w') as fh:
        fh.write(''.join(f'import QuinnModel.Props.{m}\n' for m in prop_modules(pid)) + ''.join(f'#print axioms QM.Props.{n}\n' for n in names))
    rc, out = sh(['lake', 'env', 'lean', f], cwd=LEAN)
    axioms = {}
    for m in re.finditer(r"'QM\.Props\.([^']+)' (does not depend on any axioms|depends on axioms: \[([^\]]*)\])", out):
        axioms[m.group(1)] = set(a.strip() for a in (m.group(3) or '').replace('\n', ' ').split(',') if a.strip())
    discharged = 0
    for n in names:
        if n not in axioms:
            problems.append(f'theorem {n}: no #print axioms result')
        elif not axioms[n] <= ALLOWED_AXIOMS:
            problems.append(f'theorem {n} depends on {sorted(axioms[n] - ALLOWED_AXIOMS)}')
        else:
            discharged += 1
    res['obligations'] = len(names)
    res['discharged'] = discharged
    res['theorems'] = names
    res['axioms_used'] = sorted(set().union(*axioms.values())) if axioms else []
    return problems

def step_cargo(res):
    lock = os.path.join(HARNESS, 'Cargo.lock')
    src = os.path.join(os.environ.get('VERIF_REPO', '/repo'), 'Cargo.lock')
    if not os.path.exists(lock) or open(lock).read() != open(src).read():
        # harness resolves against the repository's own lock file (offline)
        if not os.path.exists(lock):
            open(lock, 'w').write(open(src).read())
    with Lock('cargo.lock'):
        rc, out = sh(['cargo', 'build', '--offline', '--bins'], cwd=HARNESS)
    if rc != 0:
        return out
    return None

def parse_stats(path):
    st = {'ops': {}, 'resp': {}, 'samples': [], 'oracle_fail': []}
    for line in open(path):
        k, _, v = line.rstrip('\n').partition('=')
        if line.startswith(('op:', 'resp:')):
            # histogram labels may contain '=' themselves: the count follows the LAST one
            k, _, v = line.rstrip('\n').rpartition('=')
        if k.startswith('op:'):
            st['ops'][k[3:]] = int(v)
        elif k.startswith('resp:'):
            st['resp'][k[5:]] = int(v)
        elif k == 'sample':
            st['samples'].append(v)
        elif k == 'oracle_fail':
            st['oracle_fail'].append(v)
        else:
            st[k] = v
    return st

def split_cases(ops, impl, model):
    """yield (case id, [(op, impl, model)]) """
    cur, cid = [], None
    for o, a, b in zip(ops, impl, model):
        if o.startswith('case '):
            if cid is not None:
                yield cid, cur
            cid, cur = o[5:], []
        else:
            cur.append((o, a, b))
    if cid is not None:
        yield cid, cur

def diff_with_model(prefix, comp):
    """pipe <prefix>.ops to the Lean driver and compare with <prefix>.impl line by line"""
    if not os.path.exists(prefix + '.ops') or os.path.getsize(prefix + '.ops') <= 1:
        return None, 0
    if not MODEL_OK[0]:
        return None, 0      # the model does not build (already recorded as a break): implementation oracles only
    with open(prefix + '.ops') as fi:
        rc, mout = sh([DRIVER[0]], stdin=fi)
    if rc != 0:
        infra(f'driver failed rc={rc}: {mout[-500:]}')
    ops = open(prefix + '.ops').read().splitlines()
    impl = open(prefix + '.impl').read().splitlines()
    model = mout.splitlines()
    diverge = None
    if len(model) != len(ops):
        diverge = dict(component=comp, case='?', note=f'model produced {len(model)} lines for {len(ops)} requests')
    else:
        for cid, rows in split_cases(ops, impl, model):
            for i, (o, a, b) in enumerate(rows):
                if a != b:
                    diverge = dict(component=comp, case=cid, index=i, op=o, impl=a, model=b,
                                   ops=[r[0] for r in rows[max(0, i - 40):i + 1]] if comp.startswith('sim:') else [r[0] for r in rows[:i + 1]])
                    break
            if diverge:
                break
    return diverge, len(ops)

def run_micro(comp, seed, ncases, maxops, tag, diff=True):
    rundir = os.path.join(CACHE, 'run')
    os.makedirs(rundir, exist_ok=True)
    prefix = os.path.join(rundir, f'{tag}-{comp}')
    rc, out = sh([os.path.join(TARGET, 'debug', 'microdiff'), comp, str(seed), str(ncases), str(maxops), prefix])
    if rc != 0:
        infra(f'microdiff {comp} failed rc={rc}:\n{out[-2000:]}')
    st = parse_stats(prefix + '.stats')
    if not diff:
        for suf in ('.ops', '.impl'):
            os.unlink(prefix + suf)
        return st, None
    diverge, _ = diff_with_model(prefix, comp)
    return st, diverge

def replay_lines(comp, lines):
    """run an op list on implementation and model; return (impl, model) outputs"""
    rundir = os.path.join(CACHE, 'run')
    f = os.path.join(rundir, f'replay-{os.getpid()}.ops')
    with open(f, 'w') as fh:
        fh.write('case replay\n' + '\n'.join(lines) + '\n')
    try:
        rc, iout = sh([os.path.join(TARGET, 'debug', 'microdiff'), '--replay', f], timeout=30)
    except subprocess.TimeoutExpired:
        # the code under test does not terminate on this op list (a changed tree may loop): that is a disagreement
        # with the model, and shrinking stops here
        iout = 'case replay\n<the implementation did not terminate within 30 s on this operation list>'
        REPLAY_HUNG[0] = True
    with open(f) as fi:
        rc2, mout = sh([DRIVER[0]], stdin=fi, timeout=120)
    os.unlink(f)
    return iout.splitlines()[1:], mout.splitlines()[1:]

REPLAY_HUNG = [False]

def shrink(comp, lines):
    """greedy delta-debugging: drop ops while impl and model still disagree somewhere"""
    def differs(ls):
        a, b = replay_lines(comp, ls)
        return a != b
    REPLAY_HUNG[0] = False
    if not differs(lines):
        return lines
    if REPLAY_HUNG[0]:
        return lines
    n = 2
    cur = list(lines)
    budget = 200
    while len(cur) >= 2 and budget > 0:
        chunk = max(1, len(cur) // n)
        reduced = False
        for i in range(0, len(cur), chunk):
            cand = cur[:i] + cur[i + chunk:]
            budget -= 1
            if cand and differs(cand):
                cur, n, reduced = cand, max(n - 1, 2), True
                if REPLAY_HUNG[0]:
                    return cur
                break
            if budget <= 0:
                break
        if not reduced:
            if chunk == 1:
                break
            n = min(len(cur), n * 2)
    return cur

def infra(msg):
    print(f'INFRASTRUCTURE ERROR: {msg}')
    sys.exit(2)

def load_known():
    out = []
    path = os.path.join(ROOT, 'known_findings.txt')
    if os.path.exists(path):
        for line in open(path):
            m = re.match(r'finding:\s+property=(\S+)\s+key=(\S+)\s+(.*)', line.strip())
            if m:
                out.append((m.group(1), m.group(2), m.group(3)))
    return out

def write_replay(pid, seed, k, data):
    d = os.path.join(ROOT, 'replays')
    os.makedirs(d, exist_ok=True)
    path = os.path.join(d, f'{pid}-{seed}-{k}.json')
    with open(path, 'w') as f:
        json.dump(data, f, indent=1)
    return path

def main():
    if len(sys.argv) < 2:
        print(__doc__); sys.exit(2)
    pid = sys.argv[1]
    tier = sys.argv[2] if len(sys.argv) > 2 else os.environ.get('VERIF_TIER', 'quick')
    if tier not in ('quick', 'thorough'):
        tier = 'quick'
    seed = int(os.environ.get('VERIF_SEED', '1') or 1)
    if pid not in P.PROPS:
        print(f'unknown property {pid}'); sys.exit(2)
    cfg = P.PROPS[pid]
    os.makedirs(os.path.join(CACHE, 'tmp'), exist_ok=True)
    t0 = time.time()
    res = {}
    broken = []          # (kind, detail)
    failing = []         # concrete failing inputs: dict(kind, key, what, data)

    # 1. T1 + 2. proofs (+ audit), under one lock: Gen/ and .lake are shared between concurrent checks
    only = gen_closure(pid, cfg)
    with Lock('build.lock'):
        for b in step_translate(res, only):
            broken.append(('translation-break', b))
        errs, lake_out = step_lake(pid, res)
        proofs_ok = not errs
        for e in errs:
            broken.append(('proof-break', e))
        if proofs_ok:
            for p in step_audit(pid, res):
                broken.append(('proof-break', p))
            if tier == 'thorough':
                for m in prop_modules(pid):
                    rc, out = sh(['lake', 'env', 'leanchecker', f'QuinnModel.Props.{m}'], cwd=LEAN)
                    res['leanchecker_rc'] = rc
                    if rc != 0:
                        broken.append(('proof-break', f'leanchecker {m}: {out[-300:]}'))
        else:
            res['obligations'] = len(theorem_names(pid)); res['discharged'] = 0; res['theorems'] = theorem_names(pid)
            # the proofs no longer check.  To SEARCH for a concrete failing input the model must still run:
            # broken anchors take their baseline definition (the break stays recorded) and the driver is relinked.
            step_translate(dict(), only, fallback=True)
            e2, lake_out = step_lake(pid, res, ['driver'])
            res['driver_built_with_baseline_fallback'] = not e2
        keep_driver(pid)
    # 3. harness
    cerr = step_cargo(res)
    if cerr is not None:
        # the hooked tree does not compile: not a property verdict
        infra('cargo build of the harness against /repo failed:\n' + cerr[-3000:])
    driver_ok = os.path.exists(DRIVER[0]) and res.get('lake_rc') == 0
    if not driver_ok and not broken:
        infra('lean driver executable missing (lake build driver failed):\n' + lake_out[-2000:])
    res['driver_ok'] = driver_ok
    MODEL_OK[0] = driver_ok

    # 4/5. campaigns
    stats = {}
    def campaign(scale_thorough):
        for comp in cfg['micro']:
            q, t, maxops = P.MICRO[comp]
            n = t if scale_thorough else q
            st, div = run_micro(comp, seed, n, maxops, f'{pid}-{tier}')
            stats[comp] = st
            if div:
                if 'ops' in div and not comp.startswith('sim:'):
                    div['ops_min'] = shrink(comp, div['ops'])
                broken.append(('correspondence-break', json.dumps(div)[:600]))
                res.setdefault('divergences', []).append(div)
            for f in st['oracle_fail']:
                m = re.search(r'key=(\S+)', f)
                key = m.group(1) if m else f'{comp}:{f[:60]}'
                # a component may serve several properties: a key that names its property (`Cxx-…`) counts for that one only
                mk = re.match(r'(C\d\d)-', key)
                if mk and mk.group(1) != pid and mk.group(1) in P.PROPS:
                    st.setdefault('other_property_failures', []).append(f[:200])
                    continue
                failing.append(dict(kind='microdiff-oracle', component=comp, key=key, what=f))
        for comp in cfg.get('micro_panics', []):
            # run for the reachability-class panic oracle only (harness/src/opclass.rs): no model comparison,
            # only the keys that name this property count
            q, t, maxops = P.MICRO[comp]
            st, _ = run_micro(comp, seed, t if scale_thorough else q, maxops, f'{pid}-{tier}-panics', diff=False)
            stats['panics:' + comp] = st
            for f in st['oracle_fail']:
                m = re.search(r'key=(\S+)', f)
                if m and m.group(1).startswith(pid + '-'):
                    failing.append(dict(kind='microdiff-oracle', component=comp, key=m.group(1), what=f))
        for b in cfg.get('bins', []):
            # stand-alone harness binaries: <bin> <seed> <n> <prefix> writing .ops/.impl/.stats
            # optional 4th element: dict(env={...} extra environment of the run (e.g. one plan family only),
            # keys=[...] the oracle keys that count for THIS property (others are listed as other_property_failures))
            name, qn, tn = b[:3]
            opts = b[3] if len(b) > 3 else {}
            rundir = os.path.join(CACHE, 'run')
            os.makedirs(rundir, exist_ok=True)
            prefix = os.path.join(rundir, f'{pid}-{tier}-{name}')
            saved = {k: os.environ.get(k) for k in opts.get('env', {})}
            os.environ.update(opts.get('env', {}))
            try:
                rc, out = sh([os.path.join(TARGET, 'debug', name), str(seed), str(tn if scale_thorough else qn), prefix], timeout=3600)
            finally:
                for k, v in saved.items():
                    if v is None:
                        os.environ.pop(k, None)
                    else:
                        os.environ[k] = v
            if rc != 0:
                infra(f'{name} failed rc={rc}:\n{out[-2000:]}')
            st = parse_stats(prefix + '.stats')
            stats[name] = st
            div, _ = diff_with_model(prefix, 'sim:' + name)
            if div:
                broken.append(('correspondence-break', json.dumps(div)[:800]))
                res.setdefault('divergences', []).append(div)
            for f in st['oracle_fail']:
                m = re.search(r'key=(\S+)', f)
                key = m.group(1) if m else f[:60]
                if 'keys' in opts and key not in opts['keys']:
                    st.setdefault('other_property_failures', []).append(f[:200])
                    continue
                failing.append(dict(kind='bin-oracle', component=name, key=key, what=f))
        for scen in cfg.get('sim', []):
            run_sim(pid, scen, seed, tier if not scale_thorough else 'thorough', stats, failing, broken)
    campaign(tier == 'thorough')
    # SEARCH when something broke and no concrete failing input yet
    if broken and not failing and tier != 'thorough':
        res['search'] = 'enlarged campaign (thorough budgets) after a break'
        campaign(True)

    # decision
    known = load_known()
    new_fail = []
    printed = set()
    for f in failing:
        hit = [k for k in known if k[0] == pid and k[1] == f['key']]
        if hit:
            if f['key'] not in printed:
                printed.add(f['key'])
                print(f"KNOWN-FINDING: property={pid} {hit[0][2]} [key={f['key']}]")
        else:
            new_fail.append(f)
    violations = 0
    out_lines = []
    if new_fail:
        seenk = set()
        for k, f in enumerate(new_fail):
            if f['key'] in seenk:
                continue
            seenk.add(f['key'])
            path = write_replay(pid, seed, k, dict(property=pid, tier=tier, seed=seed, **f, broken=broken[:10]))
            out_lines.append(f'VIOLATION property={pid} replay={path}')
            violations += 1
            if violations >= 5:
                break
    elif broken:
        path = write_replay(pid, seed, 0, dict(property=pid, kind=broken[0][0], tier=tier, seed=seed,
                                               no_longer_checks=[f'{k}: {d}' for k, d in broken[:20]],
                                               divergences=res.get('divergences', []),
                                               note='no concrete failing input found by the search; the property is no longer shown to hold'))
        out_lines.append(f'VIOLATION property={pid} replay={path} no-failing-input-found')
        violations += 1

    # evidence
    evals = sum(int(s.get('evaluations', 0)) for s in stats.values())
    nontriv = sum(int(s.get('distinct_nontrivial', 0)) for s in stats.values())
    samples = []
    for c, s in stats.items():
        samples += [f'[{c}] ' + x for x in s.get('samples', [])[:2]]
    samples += [f'theorem QM.Props.{n}' for n in res.get('theorems', [])]
    ev = dict(
        property_id=pid, tier=tier, seed=seed, level='proof',
        coverage=dict(
            obligations=res.get('obligations', 0), discharged=res.get('discharged', 0),
            checker_cmd=f'cd /verif/lean && lake build ' + ' '.join(f'QuinnModel.Props.{m}' for m in prop_modules(pid)) + f' && lake env lean /verif/.cache/audit/Audit_{pid}.lean (#print axioms of every theorem)' + (' && lake env leanchecker' if tier == 'thorough' else ''),
            trusted_base=P.TRUSTED,
            theorems=res.get('theorems', []), axioms_used=res.get('axioms_used', []),
            t1_anchors_regenerated=res.get('t1_anchors', 0),
            evaluations=evals, distinct_nontrivial=nontriv,
            rule='; '.join(f"{c}: {s.get('rule','')}" for c, s in stats.items()),
            samples=samples or ['(none)'],
            traces_validated_against_impl=sum(int(s.get('cases', 0)) for s in stats.values()),
            op_histogram={c: s.get('ops', {}) for c, s in stats.items()},
            response_histogram={c: s.get('resp', {}) for c, s in stats.items()},
            modelled=cfg.get('modelled', ''), not_modelled=cfg.get('not_modelled', ''),
            breaks=[f'{k}: {d}'[:300] for k, d in broken[:20]],
            known_findings_reproduced=[f['key'] for f in failing if f not in new_fail],
        ),
        assumptions=P.TRUSTED + [cfg.get('not_modelled', '')],
        wall_s=round(time.time() - t0, 2), violations=violations,
    )
    os.makedirs(os.path.join(ROOT, 'evidence'), exist_ok=True)
    with open(os.path.join(ROOT, 'evidence', f'{pid}.json'), 'w') as f:
        json.dump(ev, f, indent=1)
    for l in out_lines:
        print(l)
    print(f"{pid} {tier}: obligations={ev['coverage']['obligations']} discharged={ev['coverage']['discharged']} "
          f"evaluations={evals} nontrivial={nontriv} breaks={len(broken)} violations={violations} wall={ev['wall_s']}s")
    sys.exit(1 if violations else 0)

def run_sim(pid, scen, seed, tier, stats, failing, broken):
    import simrun
    div = simrun.run(pid, scen, seed, tier, stats, failing, broken, sh, CACHE, TARGET, infra, diff_with_model)
    if div:
        broken.append(('correspondence-break', json.dumps(div)[:800]))

if __name__ == '__main__':
    try:
        main()
    except SystemExit:
        raise
    except BaseException:
        # an internal error of the checker must never look like a verdict (exit 1 is reserved for violations)
        import traceback
        traceback.print_exc()
        print('INFRASTRUCTURE ERROR: internal error of the checker (see traceback)')
        sys.exit(2)
