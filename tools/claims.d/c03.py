CLAIMS = {
 'C03': dict(
   text='Lean theorems over UNBOUNDED input sequences, one per state-dependent handler of peer-controlled values, each of the form '
        '"for all sequences of syntactically valid inputs the run never reaches a panic outcome and the state stays within its bound": '
        'CidQueue (any NEW_CONNECTION_ID sequence numbers / retire_prior_to <= sequence, any order, duplicates, interleaved next(): both '
        'expects, every unwrap and u64 addition unreachable; ring invariant; next strictly monotone; duplicates idempotent; '
        'InsertError::{Retired,ExceedsLimit} and the handler\'s PROTOCOL_VIOLATION / CONNECTION_ID_LIMIT_ERROR decided exactly); '
        'CidState (retirement of any peer-chosen sequence number total, rejected iff sequence > issued, active CIDs <= limit (+1 during a '
        'lifetime rotation)); AckFrequencyState (ack_frequency_received total with exact decision; candidate_max_ack_delay and '
        'should_send_ack_frequency never panic for ANY peer min_ack_delay, rtt and config, and no event sequence does: full theorems since '
        'DESIGN F1 — clamp(min,max) with min > max — was confirmed by this check and fixed in quinn); ACK parsing (for all byte strings scan_ack_blocks is total and bounded by its input, and whatever it '
        'accepts is iterated by AckIter with no underflow into exactly extra_blocks+1 descending disjoint ranges). Also proved: the queue of '
        'pending RETIRE_CONNECTION_ID frames never exceeds MAX_PENDING_RETIRED_CIDS + LEN - 1 over all frame sequences (full theorem since the '
        'already-retired arm, which bypassed the limit, was found by the model and fixed in quinn). PathResponses <= MAX_PATH_RESPONSES, '
        'pending ACK ranges <= MAX_ACK_BLOCKS with the ArrayRangeSet representation invariant. '
        'Constants, error codes and guard expressions are regenerated from the Rust on every run; every model is compared line by line '
        '(including every panic and the full internal state) with the real component on generated and malformed streams.',
   ref='5.3', technique='Lean 4 invariant/refinement proofs (induction over op lists, omega, simp) + generated constants/guards (T1) + '
                        'in-process differential execution with catch_unwind (T2) + property oracles on the implementation output',
   note='Covers cid_queue.rs, cid_state.rs, ack_frequency.rs and the ACK part of frame.rs. The NEW_CONNECTION_ID arm of process_payload '
        'is mirrored in the executor (its text is anchored by T1), not executed in place. The two defects found (F1 clamp panic; unbounded '
        'retire_cids) are fixed; their witnesses stay as corpus/ackfreq/F1.ops and corpus/cidq/retire-flood.ops and their oracle keys '
        '(F1-ack-frequency-clamp-panics, cidq-retire-cids-unbounded) stay in the generators, so a regression is a VIOLATION. Other C03 '
        'items of DESIGN 5.3 (frame iterator for all types, transport parameters, streams, datagrams, system-level injection) are growth.'),
}
