CLAIMS = {
 'C03': dict(
   text='Lean theorems over UNBOUNDED input sequences, one per state-dependent handler of peer-controlled values, each of the form '
        '"for all sequences of syntactically valid inputs the run never reaches a panic outcome and the state stays within its bound": '
        'CidQueue (any NEW_CONNECTION_ID sequence numbers / retire_prior_to <= sequence, any order, duplicates, interleaved next(): both '
        'expects, every unwrap and u64 addition unreachable; ring invariant; next strictly monotone; duplicates idempotent; '
        'InsertError::{Retired,ExceedsLimit} and the handler\'s PROTOCOL_VIOLATION / CONNECTION_ID_LIMIT_ERROR decided exactly); '
        'CidState (retirement of any peer-chosen sequence number total, rejected iff sequence > issued, active CIDs <= limit (+1 during a '
        'lifetime rotation)); AckFrequencyState (ack_frequency_received total with exact decision; candidate_max_ack_delay panics iff '
        'peer min_ack_delay > max(rtt, 25 ms): counterexample theorem = DESIGN F1, confirmed on the real code, plus the no-panic theorem '
        'under exactly that guard); ACK parsing (for all byte strings scan_ack_blocks is total and bounded by its input, and whatever it '
        'accepts is iterated by AckIter with no underflow into exactly extra_blocks+1 descending disjoint ranges). Also proved: the pending '
        'RETIRE_CONNECTION_ID queue has NO absolute bound (the already-retired path bypasses MAX_PENDING_RETIRED_CIDS; growth 1 entry per frame). '
        'Constants, error codes and guard expressions are regenerated from the Rust on every run; every model is compared line by line '
        '(including every panic and the full internal state) with the real component on generated and malformed streams.',
   ref='5.3', technique='Lean 4 invariant/refinement proofs (induction over op lists, omega, simp) + generated constants/guards (T1) + '
                        'in-process differential execution with catch_unwind (T2) + property oracles on the implementation output',
   note='Covers cid_queue.rs, cid_state.rs, ack_frequency.rs and the ACK part of frame.rs. The NEW_CONNECTION_ID arm of process_payload '
        'is mirrored in the executor (its text is anchored by T1), not executed in place. Known finding F1 (key '
        'F1-ack-frequency-clamp-panics) is rediscovered by the generator on every run and kept as corpus/ackfreq/F1.ops. Other C03 '
        'items of DESIGN 5.3 (frame iterator for all types, transport parameters, streams, datagrams, system-level injection) are growth.'),
}
