#!/usr/bin/env python3
"""Sanity of the committed evidence: every evidence/<id>.json validates against the schema, reports a clean run on
the unchanged tree (violations 0, every obligation discharged) and /repo has no uncommitted change (evidence must
describe /repo itself).  Run before committing evidence."""
import json, os, subprocess, sys
root = os.path.join(os.path.dirname(os.path.abspath(__file__)), '..')
bad = []
st = subprocess.run('git -C /repo status --short | grep -v "^??"', shell=True, capture_output=True, text=True).stdout.strip()
if st:
    bad.append('/repo has uncommitted changes: ' + st[:200])
try:
    import jsonschema
    schema = json.load(open('/root/.vp/EVIDENCE.schema.json'))
except Exception:
    jsonschema = None
man = json.load(open(os.path.join(root, 'MANIFEST.json')))
for c in man['checks']:
    p = os.path.join(root, c['evidence_file']) if not os.path.isabs(c['evidence_file']) else c['evidence_file']
    if not os.path.exists(p):
        bad.append(f"{c['property_id']}: evidence file missing"); continue
    e = json.load(open(p))
    if jsonschema:
        try:
            jsonschema.validate(e, schema)
        except Exception as ex:
            bad.append(f"{c['property_id']}: schema: {str(ex)[:150]}")
    cov = e.get('coverage', {})
    if e.get('violations', 0) != 0:
        bad.append(f"{c['property_id']}: violations={e.get('violations')}")
    if cov.get('discharged', 0) < 1 or cov.get('discharged') != cov.get('obligations'):
        bad.append(f"{c['property_id']}: discharged {cov.get('discharged')} of {cov.get('obligations')}")
    if cov.get('breaks'):
        bad.append(f"{c['property_id']}: breaks {cov.get('breaks')[:1]}")
print('\n'.join(bad) if bad else 'evidence ok')
sys.exit(1 if bad else 0)
