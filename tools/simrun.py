"""Run simulator scenario families for a property and route oracle failures by key."""
import os, re

# oracle key (prefix match) -> properties it is evidence against
KEYMAP = {
    'reset-genuine-token-': ['C04'],   # scenario resettok (must precede the C01 stream prefix 'reset-')
    'stream-data-': ['C01'], 'fin-': ['C01'], 'unordered-gap-at-fin': ['C01'], 'reset-': ['C01'],
    'more-read-than-written': ['C01'], 'stream-from-nowhere': ['C01', 'C09'], 'empty-chunk': ['C01'],
    'chunk-exceeds-max-length': ['C01'], 'write-returned-bad-count': ['C05', 'C01'],
    'workload-incomplete': ['C02'], 'handshake-never-completed': ['C02'], 'connection-lost-under-fair-loss': ['C02'],
    'wedge-': ['C02'], 'progress-': ['C02'], 'key-update-': ['C02'],
    'frames-processed-exceed-frames-sent': ['C04'], 'forged-': ['C04'], 'hostile-': ['C03'],
    'amplification-limit-exceeded': ['C07'], 'stateless-reset-': ['C07'], 'stateless-response-': ['C07'], 'short-initial-': ['C07'],
    'connection-lost-reported-twice': ['C08'], 'drained-notified-twice': ['C08'], 'output-after-drained': ['C08', 'C20'],
    'close-': ['C08'], 'idle-': ['C08'], 'drain-': ['C08'], 'lost-': ['C08'],
    'data-delivered-after-close': ['C08'],
    'crypto-buffer-': ['C06', 'C03'],
    'crypto-new-data-': ['C03'],      # RFC 9001 4.1.3: new CRYPTO data at a superseded level (scenario frames)
    'finished-event-twice': ['C11'], 'finished-without-finish': ['C11'],
    'in-flight-': ['C12'], 'cwnd-': ['C12'],
    'datagram-exceeds-mtu': ['C13'], 'too-many-segments': ['C13'], 'mtu-': ['C13'], 'initial-too-small': ['C13'],
    'datagram-not-sent-or-duplicated': ['C16'], 'dgram-': ['C16'],
    'path-challenge-unpadded': ['C13'], 'path-response-unpadded': ['C13'], 'loss-probe-oversized': ['C13'],
    'migration-': ['C15'], 'path-': ['C15'],
    'determinism-': ['C20'], 'shift-': ['C20'], 'spurious-': ['C20'], 'timeout-settle': ['C20'], 'steps-without-time-advance': ['C20', 'C03'], 'execution-exceeded-trace-budget': ['*'], 'transmit-loop-unbounded': ['*'],
    'zero-rtt-rejected-credit-update-lost': ['C17', 'C02'], 'zero-rtt-rejected-datagram-exceeds-new-limit': ['C17', 'C02'],
    'zero-rtt-rejected-limits-not-fresh': ['C17', 'C05'], 'zero-rtt-accepted-limits-not-raised': ['C17', 'C05'],
    'zero-rtt-': ['C17'],
    'routing-forgotten-': ['C08', 'C09'], 'routing-cid-views-': ['C09', 'C08'],
    'routing-': ['C09'], 'isolation-': ['C09'],
    'flow-': ['C05', 'C06'],
    'token-': ['C14'],
    'panic-in-': ['*'],
}

def props_for_key(key):
    for pre, ps in KEYMAP.items():
        if key.startswith(pre):
            return ps
    return ['*']

def parse(path):
    st = {'ops': {}, 'resp': {}, 'samples': [], 'oracle_fail': []}
    for line in open(path):
        k, _, v = line.rstrip('\n').partition('=')
        if line.startswith(('op:', 'resp:')):
            k, _, v = line.rstrip('\n').rpartition('=')
        if k.startswith('op:'):
            st['ops'][k[3:]] = int(v)
        elif k == 'sample':
            st['samples'].append(v[:1500])
        elif k == 'oracle_fail':
            st['oracle_fail'].append(v)
        else:
            st[k] = v
    return st

def run(pid, scen, seed, tier, stats, failing, broken, sh, CACHE, TARGET, infra, diff_with_model):
    name, quick_n, thorough_n = scen[0], scen[1], scen[2]
    n = thorough_n if tier == 'thorough' else quick_n
    rundir = os.path.join(CACHE, 'run')
    os.makedirs(rundir, exist_ok=True)
    prefix = os.path.join(rundir, f'{pid}-{tier}-sim-{name}')
    import subprocess
    cmdline = [os.path.join(TARGET, 'debug', 'sim'), name, str(seed), str(n), prefix]
    # address-space limit (8 GiB; ordinary campaigns stay below 2): code under test that makes executions run away must end in
    # an allocation failure (reported below as simulator-did-not-finish), not take the machine down
    if os.path.exists('/usr/bin/prlimit'):
        cmdline = ['/usr/bin/prlimit', '--as=8589934592'] + cmdline
    try:
        rc, out = sh(cmdline, timeout=7200)
    except subprocess.TimeoutExpired:
        rc, out = -1000, 'timeout after 7200 s'
    if rc in (-1, -2, -15):
        # SIGHUP / SIGINT / SIGTERM come from outside (an operator or a supervising tool), not from the code under test
        infra(f'sim {name} was terminated from outside (signal {-rc})')
    if rc < 0:
        # killed by a signal (allocation failure / abort / OOM killer) or not finished in two hours: the code under test
        # made whole executions run away. That is a verdict about the code (unbounded loop or memory), not about the
        # infrastructure: report it for this property with the command that reproduces it.
        failing.append(dict(kind='sim-abnormal-termination', component=f'sim:{name}', key='simulator-did-not-finish',
                            what=f'key=simulator-did-not-finish the simulator was killed / did not finish (rc={rc}) while running scenario {name}: {out[-600:]}',
                            replay_cmd=' '.join(cmdline)))
        stats[f'sim:{name}'] = dict(cases='0', evaluations='0', oracle_fail=[], rule='', abnormal=f'rc={rc}')
        return None
    if rc != 0:
        infra(f'sim {name} failed rc={rc}:\n{out[-2000:]}')
    st = parse(prefix + '.stats')
    # corpus: seeds of past findings run first/always (raw seeds), so listed findings are re-observed
    corpus = scen[3] if len(scen) > 3 else []
    for cs in corpus:
        cp = prefix + f'-corpus{cs}'
        env_prefix = ['env', 'VERIF_SIM_RAWSEED=1']
        rc, out = sh(env_prefix + [os.path.join(TARGET, 'debug', 'sim'), name, str(cs), '1', cp], timeout=1200)
        if rc != 0:
            infra(f'sim {name} corpus seed {cs} failed rc={rc}:\n{out[-2000:]}')
        cst = parse(cp + '.stats')
        st['oracle_fail'] += cst['oracle_fail']
        st['cases'] = str(int(st.get('cases', 0)) + int(cst.get('cases', 0)))
        st['evaluations'] = str(int(st.get('evaluations', 0)) + int(cst.get('evaluations', 0)))
    stats[f'sim:{name}'] = st
    for f in st['oracle_fail']:
        m = re.match(r'key=(\S+)', f)
        key = m.group(1) if m else 'unknown'
        ps = props_for_key(key)
        if pid in ps or '*' in ps:
            sm = re.search(r'seed=(\d+)', f)
            failing.append(dict(kind='sim-oracle', component=f'sim:{name}', key=key, what=f,
                                replay_cmd=f'VERIF_SIM_RAWSEED=1 VERIF_SIM_VERBOSE=2 {os.path.join(TARGET, "debug", "sim")} {name} {sm.group(1) if sm else seed} 1 /verif/.cache/run/replay'))
        else:
            st.setdefault('other_property_failures', []).append(f[:200])
    div, n = diff_with_model(prefix, f'sim:{name}')
    if div and str(div.get('op', '')).startswith('frules '):
        # frame-rules table vs observed outcome of an injected datagram (scenario frames): a divergence is itself a concrete
        # failing input for C03 (the datagram's frames and facts are in the request line)
        key = 'hostile-peer-legal-frames-killed-connection' if div.get('model') == 'ok' else 'hostile-peer-wrong-error-class'
        if pid in props_for_key(key):
            failing.append(dict(kind='sim-oracle', component=f'sim:{name}', key=key,
                                what=f"key={key} observed `{div.get('impl')}` but the frame-rules model admits `{div.get('model')}` case={div.get('case')} request: {div.get('op')[:1500]}"))
    if div and str(div.get('case', '')).startswith('sim-'):
        # the divergent transition was observed on the real endpoints in this execution
        div['replay_cmd'] = f'VERIF_SIM_RAWSEED=1 VERIF_SIM_VERBOSE=2 {os.path.join(TARGET, "debug", "sim")} {name} {div["case"][4:]} 1 /verif/.cache/run/replay   # then: /verif/.cache/driver-{pid} < /verif/.cache/run/replay.ops | diff - /verif/.cache/run/replay.impl'
    st['model_transitions_validated'] = n
    return div
