#!/usr/bin/env python3
"""tools/panics.py [thorough|quick] [component ...]  -- panic census under the reachability classes (audit TOP GAP 1).

Runs every micro-differential generator (3 seeds x the budgets of tools/props.d MICRO), collects the oracle
failures `C03-panic-on-peer-input` / `Cxx-panic-on-api-call` (harness/src/opclass*.rs, Runner::panic_oracle),
groups them by (component, op kind), shrinks one replay per group with `microdiff --replay` (the oracle runs in
replay mode too) and prints a table plus the judged / unjudged op counts.  Exit 1 if any panic was found.
"""
import os, re, subprocess, sys, tempfile

ROOT = os.path.abspath(os.path.join(os.path.dirname(__file__), '..'))
sys.path.insert(0, os.path.join(ROOT, 'tools'))
import props as P  # noqa

TARGET = os.path.join(ROOT, '.cache', 'target', 'debug', 'microdiff')
RUN = os.path.join(ROOT, '.cache', 'run')
KEY = re.compile(r'key=(C03-panic-on-peer-input|C\d\d-panic-on-api-call)\.\S+ component=(\S+) op=(\S+) line=\[(.*?)\] replay=\[(.*)\]')


def replay_fails(lines, key, comp, op):
    """does the replay of `lines` still raise the same (key, component, op) on its LAST op?"""
    with tempfile.NamedTemporaryFile('w', suffix='.ops', dir=RUN, delete=False) as f:
        f.write('case shrink\n' + '\n'.join(lines) + '\n')
        name = f.name
    p = subprocess.run([TARGET, '--replay', name], stdout=subprocess.PIPE, stderr=subprocess.PIPE, text=True)
    os.unlink(name)
    for m in KEY.finditer(p.stderr):
        if (m.group(1), m.group(2), m.group(3)) == (key, comp, op):
            return True
    return False


def shrink(lines, key, comp, op):
    cur = list(lines)
    if not replay_fails(cur, key, comp, op):
        return cur
    n, budget = 2, 400
    while len(cur) >= 2 and budget > 0:
        chunk = max(1, len(cur) // n)
        reduced = False
        for i in range(0, len(cur) - 1, chunk):          # the last op (the panicking one) stays
            cand = cur[:i] + cur[min(i + chunk, len(cur) - 1):]
            budget -= 1
            if len(cand) < len(cur) and replay_fails(cand, key, comp, op):
                cur, n, reduced = cand, max(n - 1, 2), True
                break
            if budget <= 0:
                break
        if not reduced:
            if chunk == 1:
                break
            n = min(len(cur), n * 2)
    return cur


def main():
    args = sys.argv[1:]
    tier = 'thorough'
    if args and args[0] in ('quick', 'thorough'):
        tier = args.pop(0)
    comps = args or sorted(P.MICRO)
    os.makedirs(RUN, exist_ok=True)
    found = {}
    print(f'{"component":12} {"seed":>4} {"cases":>7} {"ops judged":>11} {"unjudged":>9} {"panic resp":>10} {"peer":>5} {"api":>4}')
    for comp in comps:
        q, t, maxops = P.MICRO[comp]
        ncases = t if tier == 'thorough' else q
        for seed in (1, 2, 3):
            prefix = os.path.join(RUN, f'panics-{comp}-{seed}')
            env = dict(os.environ, VERIF_CORPUS=os.path.join(ROOT, 'corpus'))
            p = subprocess.run([TARGET, comp, str(seed), str(ncases), str(maxops), prefix], stdout=subprocess.PIPE, stderr=subprocess.STDOUT, text=True, env=env)
            if p.returncode != 0:
                print(f'INFRASTRUCTURE ERROR: microdiff {comp}: {p.stdout[-500:]}')
                sys.exit(2)
            st = {}
            peer = api = 0
            for line in open(prefix + '.stats'):
                k, _, v = line.rstrip('\n').partition('=')
                if k == 'oracle_fail':
                    m = KEY.search(v)
                    if m:
                        key, c, op, _, rep = m.groups()
                        peer += key.startswith('C03-panic-on-peer')
                        api += 'api-call' in key
                        found.setdefault((key, c, op), []).append((seed, v.split(':')[0], rep.split(' ; ')))
                else:
                    st[k] = v
            print(f'{comp:12} {seed:>4} {st.get("cases", "?"):>7} {st.get("class:ops:judged", "0"):>11} {st.get("class:ops:unjudged", "0"):>9} {st.get("resp:panic", "0"):>10} {peer:>5} {api:>4}')
            for suf in ('.ops', '.impl'):
                try:
                    os.unlink(prefix + suf)
                except OSError:
                    pass
    print()
    for (key, comp, op), hits in sorted(found.items()):
        hits.sort(key=lambda h: len(h[2]))
        seen = set()
        print(f'{key} component={comp} op={op}: {len(hits)} cases')
        for seed, case, rep in hits[:40]:
            small = shrink(rep, key, comp, op)
            sig = tuple(' '.join(x.split()[:2]) for x in small)
            if sig in seen:
                continue
            seen.add(sig)
            print(f'   {case} (seed {seed}), {len(rep)} ops -> {len(small)}:')
            for l in small:
                print(f'      {l}')
            if len(seen) >= 4:
                break
    sys.exit(1 if found else 0)


if __name__ == '__main__':
    main()
