#!/usr/bin/env python3
"""Every oracle-key prefix routed in tools/simrun.py::KEYMAP must have at least one producer in the harness sources
(a `fail("<key>…` / `key=<key>…` literal); a routed prefix nobody produces makes a registration vacuous."""
import os, re, sys, glob
root = os.path.join(os.path.dirname(os.path.abspath(__file__)), '..')
sys.path.insert(0, os.path.join(root, 'tools'))
import simrun
src = ''
for f in glob.glob(os.path.join(root, 'harness', 'src', '**', '*.rs'), recursive=True):
    src += open(f).read()
lits = set(re.findall(r'fail\(\s*"([A-Za-z0-9_:\-]+)', src)) | set(re.findall(r'key=([A-Za-z0-9_:\-]+)', src))
lits |= set(re.findall(r'"([a-z0-9\-]+-[a-z0-9\-:]+)"', src))      # keys passed around as plain literals
dead = [p for p in simrun.KEYMAP if not any(l.startswith(p) or p.startswith(l + '-') for l in lits)]
print('dead KEYMAP prefixes:', dead if dead else 'none')

# Second check (added after seeded round 3): an oracle must be reachable from the property it is routed to. For every
# scenario-specific source (scen_*.rs, frames.rs, and the `pub fn <scenario>` bodies of scenarios.rs) and every key literal
# in it that KEYMAP routes to property P, P's registered scenarios must include that scenario.
import props as P
scen_src = {}
lookup = open(os.path.join(root, 'harness', 'src', 'scenarios.rs')).read()
for name, mod, fn in re.findall(r'"(\w+)" => \(crate::(\w+)::\w+, crate::\w+::(\w+) as ScenFn\)', lookup):
    scen_src.setdefault(name, '')
    scen_src[name] += open(os.path.join(root, 'harness', 'src', mod + '.rs')).read()
# several scenarios may share one file: keep only the part from `pub fn <fn>` to the next top-level `pub fn`
for name, mod, fn in re.findall(r'"(\w+)" => \(crate::(\w+)::\w+, crate::\w+::(\w+) as ScenFn\)', lookup):
    text = open(os.path.join(root, 'harness', 'src', mod + '.rs')).read()
    shared = [n for n, m, f in re.findall(r'"(\w+)" => \(crate::(\w+)::\w+, crate::\w+::(\w+) as ScenFn\)', lookup) if m == mod]
    if len(shared) > 1:
        m = re.search(r'^pub fn ' + fn + r'\(.*?(?=^pub fn |\Z)', text, flags=re.S | re.M)
        scen_src[name] = m.group(0) if m else text
for name, fn in re.findall(r'"(\w+)" => \(\w+, (\w+) as ScenFn\)', lookup):
    m = re.search(r'^pub fn ' + fn + r'\(.*?(?=^pub fn |^fn |\Z)', lookup, flags=re.S | re.M)
    scen_src[name] = m.group(0) if m else ''
sims_of = {pid: {s[0] for s in cfg.get('sim', [])} for pid, cfg in P.PROPS.items()}
unreach = []
for scen, text in sorted(scen_src.items()):
    keys = set(re.findall(r'fail\(\s*"([A-Za-z0-9_:\-]+)', text))
    for k in sorted(keys):
        for pid in simrun.props_for_key(k):
            if pid != '*' and pid in sims_of and scen not in sims_of[pid]:
                unreach.append((scen, k, pid))
print('oracles not reachable from the property they are routed to (scenario, key, property):')
for u in unreach:
    print('  ', u)
print('  none' if not unreach else f'  {len(unreach)} (informational: a key may be routed to a second property on purpose)')
sys.exit(1 if dead else 0)
