#!/usr/bin/env python3
"""Every oracle-key prefix routed in tools/simrun.py::KEYMAP must have at least one producer in the harness sources
(a `fail("<key>…` / `key=<key>…` literal); a routed prefix nobody produces makes a registration vacuous."""
import os, re, sys, glob
root = os.path.join(os.path.dirname(os.path.abspath(__file__)), '..')
sys.path.insert(0, os.path.join(root, 'tools'))
import simrun
src = ''
for f in glob.glob(os.path.join(root, 'harness', 'src', '**', '*.rs'), recursive=True):
    src += open(f).read()
lits = set(re.findall(r'fail\(\s*"([A-Za-z0-9_:\-]+)', src)) | set(re.findall(r'key=([A-Za-z0-9_:\-]+)', src))
lits |= set(re.findall(r'"([a-z0-9\-]+-[a-z0-9\-:]+)"', src))      # keys passed around as plain literals
dead = [p for p in simrun.KEYMAP if not any(l.startswith(p) or p.startswith(l + '-') for l in lits)]
print('dead KEYMAP prefixes:', dead if dead else 'none')
sys.exit(1 if dead else 0)
